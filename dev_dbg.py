import sys, time
sys.path.insert(0, '/verif')
from z3 import *
from pyvc import heapworld, solve
from contracts import mixins
fams = mixins.families()
spec = fams[0].specs[(sys.argv[1], sys.argv[2])]
fi, obl, fails = heapworld.verify_spec(spec)
pat = sys.argv[3]
sel=[o for o in obl if pat in o.name]
print(len(sel))
o=sel[int(sys.argv[4]) if len(sys.argv)>4 else 0]
print(o.name)
s=Solver(); s.set('timeout',20000)
s.add(*o.pc); s.add(Not(o.goal))
t=time.time(); print(s.check(), time.time()-t)
print("GOAL", o.goal)
txt=solve.to_smt2(o)
open('/tmp/o.smt2','w').write(txt)
s2=Solver(); s2.set('timeout',20000); s2.from_string(txt)
t=time.time(); print("from_string:", s2.check(), time.time()-t)
print(txt[:300])
