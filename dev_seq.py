import sys, time
sys.path.insert(0, '/verif')
from z3 import Not
from pyvc import heapworld, solve
from pyvc.core import Obligation
from contracts import iterators
only = sys.argv[1:]
reg, specs = iterators.build()
from contracts import search as SR
specs += SR.build(reg)
specs += iterators.build_nav(reg)
allobl=[]
for spec in specs:
    nm = "%s.%s" % (spec.cls, spec.name) + (":" + spec.variant if hasattr(spec,'variant') else "") + "@" + spec.relpath.split("/")[-1]
    if only and not any(o in nm for o in only): continue
    fi, obl, fails = heapworld.verify_spec(spec)
    print("==", nm, "obligations:", len(obl), "struct:", [f.msg for f in fails])
    allobl += obl
for name, hyps, goal in iterators.lemma_obligations():
    allobl.append(Obligation(name, "LEMMA", hyps, goal))
t0=time.time()
solve.discharge(allobl)
can=[o for o in allobl if o.kind=='CANARY']
print('canaries',len(can),'unsat:',[o.name[-80:] for o in can if o.result=='unsat'])
bad=[o for o in allobl if o.result!='unsat' and o.kind not in ('CANARY','PROBE')]
for o in bad: print("NOT ACCEPTED", o.result, o.time, o.name[20:260])
print("total", len(allobl), "bad", len(bad), "solve %.1fs"%(time.time()-t0))
for o in sorted(allobl,key=lambda o:-o.time)[:5]: print(o.time,o.backend,o.result,o.name[20:160])
