import Mathlib

/-!
# L12 : glob and get agree on wildcard-free paths

Abstract model of a forest of named nodes (same well-formedness conditions as in L10, without the
depth function, which is not needed here) and three ways of reading a list of WILDCARD-FREE path
components from a start node `n`:

* `getE n ps`  : component-wise resolution as `Resolver.get` does it in strict mode
                 (`".."` ↦ parent or `Err.root n`; `""`/`"."` ↦ stay; other `comp` ↦ the first
                 child named `comp` (`List.find?`) or `Err.child n comp`; first error wins).
* `gl n ps`    : the RELAXED denotation of glob restricted to wildcard-free components
                 (all children with the name, in child order, `flatMap` of the rest).
* `glS n ps`   : STRICT glob restricted to wildcard-free components (errors from below propagate,
                 the first one in child order wins; a literal component that matches no child is
                 the error `Err.child n comp`).

Formulation notes (meaning of the task statement kept):
* the case split on the component is written with `if s = ".." … else if s = "" ∨ s = "." … else`
  instead of pattern matching on string literals; the unfolding equations
  `gl_nil`, `gl_dotdot`, `gl_empty`, `gl_dot`, `gl_comp` and
  `glS_nil`, `glS_dotdot`, `glS_empty`, `glS_dot`, `glS_comp` state the clauses of the task
  literally and are proved by unfolding.
* "concatenate the results in order, first error wins" is the helper `catE`
  (equations `catE_nil`, `catE_cons_ok`, `catE_cons_error`, and `catE_eq_mapM`:
  it is `List.mapM id` followed by `List.flatten`).
* "the concatenation is empty AND `ms = []`" is tested with `List.isEmpty` (no decidable equality
  on `N` is assumed); `glS_comp` restates it with `l = [] ∧ ms = []`.

Main theorems: `gl_eq_getE` (A), `glS_eq_getE` (B), `glS_ok_iff` (C, two parts
`glS_ok_eq_gl` and `glS_error_gl_nil`), key fact `filter_name_cases`.
-/

/-- A forest of named nodes with the well-formedness conditions of the task. -/
structure NamedTree (N : Type) where
  parent : N → Option N
  children : N → List N
  name : N → String
  /-- `children` and `parent` agree. -/
  mem_children : ∀ c p, c ∈ children p ↔ parent c = some p
  /-- child lists have no duplicates -/
  nodup_children : ∀ p, (children p).Nodup
  /-- sibling names are unique -/
  name_inj : ∀ p c₁ c₂, c₁ ∈ children p → c₂ ∈ children p → name c₁ = name c₂ → c₁ = c₂
  /-- no node is named `""`, `"."` or `".."` -/
  name_ne_empty : ∀ n, name n ≠ ""
  name_ne_dot : ∀ n, name n ≠ "."
  name_ne_dotdot : ∀ n, name n ≠ ".."

/-- The two resolution errors: `root n` is a `".."` step at a node `n` without parent,
`child n comp` says that no child of `n` is named `comp`. -/
inductive Err (N : Type) where
  | root (n : N) : Err N
  | child (n : N) (comp : String) : Err N

/-- Concatenate a list of results in order; the first error (in list order) is the result. -/
def catE {ε α : Type} : List (Except ε (List α)) → Except ε (List α)
  | [] => .ok []
  | .error e :: _ => .error e
  | .ok a :: xs =>
    match catE xs with
    | .error e => .error e
    | .ok b => .ok (a ++ b)

theorem catE_nil {ε α : Type} : catE ([] : List (Except ε (List α))) = .ok [] := rfl

theorem catE_cons_error {ε α : Type} (e : ε) (xs : List (Except ε (List α))) :
    catE (.error e :: xs) = .error e := rfl

theorem catE_cons_ok {ε α : Type} (a : List α) (xs : List (Except ε (List α))) :
    catE (.ok a :: xs) = (catE xs).map (fun b => a ++ b) := by
  simp only [catE]
  cases catE xs <;> rfl

/-- `catE` is `List.mapM id` (sequence the results, first error wins) followed by flattening. -/
theorem catE_eq_mapM {ε α : Type} (xs : List (Except ε (List α))) :
    catE xs = (xs.mapM id).map List.flatten := by
  induction xs with
  | nil => rfl
  | cons x xs ih =>
    cases x with
    | error e => simp [catE, List.mapM_cons, Except.map, bind, Except.bind]
    | ok a =>
      rw [catE_cons_ok, ih]
      simp only [List.mapM_cons, id, bind, Except.bind]
      cases xs.mapM id <;> simp [Except.map, pure, Except.pure]

namespace NamedTree

variable {N : Type} (T : NamedTree N)

/-- One path component in strict mode. -/
def stepE (n : N) (s : String) : Except (Err N) N :=
  if s = ".." then
    match T.parent n with
    | none => .error (.root n)
    | some p => .ok p
  else if s = "" ∨ s = "." then .ok n
  else
    match (T.children n).find? (fun c => decide (T.name c = s)) with
    | none => .error (.child n s)
    | some c => .ok c

/-- Component-wise strict resolution; the first error wins, later components are not looked at. -/
def getE : N → List String → Except (Err N) N
  | n, [] => .ok n
  | n, s :: rest =>
    match T.stepE n s with
    | .error e => .error e
    | .ok m => getE m rest

/-- Relaxed glob on wildcard-free components. -/
def gl : N → List String → List N
  | n, [] => [n]
  | n, s :: ps =>
    if s = ".." then
      match T.parent n with
      | none => []
      | some p => gl p ps
    else if s = "" ∨ s = "." then gl n ps
    else ((T.children n).filter (fun c => decide (T.name c = s))).flatMap (fun c => gl c ps)

/-- Strict glob on wildcard-free components. -/
def glS : N → List String → Except (Err N) (List N)
  | n, [] => .ok [n]
  | n, s :: ps =>
    if s = ".." then
      match T.parent n with
      | none => .error (.root n)
      | some p => glS p ps
    else if s = "" ∨ s = "." then glS n ps
    else
      match catE (((T.children n).filter (fun c => decide (T.name c = s))).map
          (fun c => glS c ps)) with
      | .error e => .error e
      | .ok l =>
        if l.isEmpty && ((T.children n).filter (fun c => decide (T.name c = s))).isEmpty
        then .error (.child n s) else .ok l

/-! ### Unfolding equations (the clauses of the task statement) -/

theorem getE_nil (n : N) : T.getE n [] = .ok n := rfl

theorem getE_dotdot (n : N) (ps : List String) :
    T.getE n (".." :: ps) =
      match T.parent n with
      | none => .error (.root n)
      | some p => T.getE p ps := by
  simp only [getE, stepE, if_true]
  cases T.parent n <;> rfl

theorem getE_empty (n : N) (ps : List String) : T.getE n ("" :: ps) = T.getE n ps := by
  simp [getE, stepE]

theorem getE_dot (n : N) (ps : List String) : T.getE n ("." :: ps) = T.getE n ps := by
  simp [getE, stepE]

theorem getE_comp (n : N) (s : String) (ps : List String)
    (h1 : s ≠ "..") (h2 : s ≠ "") (h3 : s ≠ ".") :
    T.getE n (s :: ps) =
      match (T.children n).find? (fun c => decide (T.name c = s)) with
      | none => .error (.child n s)
      | some c => T.getE c ps := by
  simp only [getE, stepE, if_neg h1, if_neg (not_or.mpr ⟨h2, h3⟩)]
  cases (T.children n).find? (fun c => decide (T.name c = s)) <;> rfl

theorem gl_nil (n : N) : T.gl n [] = [n] := rfl

theorem gl_dotdot (n : N) (ps : List String) :
    T.gl n (".." :: ps) = match T.parent n with | none => [] | some p => T.gl p ps := by
  simp [gl]

theorem gl_empty (n : N) (ps : List String) : T.gl n ("" :: ps) = T.gl n ps := by
  simp [gl]

theorem gl_dot (n : N) (ps : List String) : T.gl n ("." :: ps) = T.gl n ps := by
  simp [gl]

theorem gl_comp (n : N) (s : String) (ps : List String)
    (h1 : s ≠ "..") (h2 : s ≠ "") (h3 : s ≠ ".") :
    T.gl n (s :: ps) =
      ((T.children n).filter (fun c => decide (T.name c = s))).flatMap (fun c => T.gl c ps) := by
  simp only [gl, if_neg h1, if_neg (not_or.mpr ⟨h2, h3⟩)]

theorem glS_nil (n : N) : T.glS n [] = .ok [n] := rfl

theorem glS_dotdot (n : N) (ps : List String) :
    T.glS n (".." :: ps) =
      match T.parent n with
      | none => .error (.root n)
      | some p => T.glS p ps := by
  simp [glS]

theorem glS_empty (n : N) (ps : List String) : T.glS n ("" :: ps) = T.glS n ps := by
  simp [glS]

theorem glS_dot (n : N) (ps : List String) : T.glS n ("." :: ps) = T.glS n ps := by
  simp [glS]

/-- The literal-component clause of `glS`, with the emptiness test written as in the task. -/
theorem glS_comp (n : N) (s : String) (ps : List String)
    (h1 : s ≠ "..") (h2 : s ≠ "") (h3 : s ≠ ".") :
    T.glS n (s :: ps) =
      match catE (((T.children n).filter (fun c => decide (T.name c = s))).map
          (fun c => T.glS c ps)) with
      | .error e => .error e
      | .ok l =>
        if l = [] ∧ (T.children n).filter (fun c => decide (T.name c = s)) = []
        then .error (.child n s) else .ok l := by
  simp only [glS, if_neg h1, if_neg (not_or.mpr ⟨h2, h3⟩)]
  cases catE (((T.children n).filter (fun c => decide (T.name c = s))).map
      (fun c => T.glS c ps)) with
  | error e => rfl
  | ok l =>
    simp only [Bool.and_eq_true, List.isEmpty_iff]

/-! ### The key fact -/

/-- General list fact: if at most one element of a duplicate-free list satisfies `p`, then
`filter p` is the singleton of what `find? p` finds. -/
theorem filter_eq_singleton_of_find? {α : Type} (p : α → Bool) :
    ∀ (l : List α) (c : α), l.Nodup →
      (∀ a ∈ l, ∀ b ∈ l, p a = true → p b = true → a = b) →
      l.find? p = some c → l.filter p = [c]
  | [], c, _, _, h => by simp at h
  | a :: t, c, hnd, huniq, h => by
    rw [List.nodup_cons] at hnd
    by_cases hpa : p a = true
    · rw [List.find?_cons_of_pos (h := hpa)] at h
      cases h
      rw [List.filter_cons_of_pos hpa]
      have : t.filter p = [] := by
        rw [List.filter_eq_nil_iff]
        intro b hb hpb
        have := huniq a (List.mem_cons_self) b (List.mem_cons_of_mem _ hb) hpa hpb
        exact hnd.1 (this ▸ hb)
      rw [this]
    · rw [List.find?_cons_of_neg (h := hpa)] at h
      rw [List.filter_cons_of_neg hpa]
      exact filter_eq_singleton_of_find? p t c hnd.2
        (fun x hx y hy => huniq x (List.mem_cons_of_mem _ hx) y (List.mem_cons_of_mem _ hy)) h

/-- **Key fact.** With sibling-unique names, the children of `n` named `comp` are either none
(and `find?` finds nothing) or exactly one `c` (and `find?` finds that `c`). -/
theorem filter_name_cases (n : N) (comp : String) :
    ((T.children n).find? (fun c => decide (T.name c = comp)) = none ∧
        (T.children n).filter (fun c => decide (T.name c = comp)) = []) ∨
    ∃ c, (T.children n).find? (fun c => decide (T.name c = comp)) = some c ∧
        (T.children n).filter (fun c => decide (T.name c = comp)) = [c] := by
  cases h : (T.children n).find? (fun c => decide (T.name c = comp)) with
  | none =>
    left
    refine ⟨rfl, ?_⟩
    rw [List.filter_eq_nil_iff]
    intro a ha
    exact List.find?_eq_none.mp h a ha
  | some c =>
    right
    refine ⟨c, rfl, ?_⟩
    apply filter_eq_singleton_of_find? _ _ _ (T.nodup_children n) _ h
    intro a ha b hb hpa hpb
    have h1 : T.name a = comp := by simpa using hpa
    have h2 : T.name b = comp := by simpa using hpb
    exact T.name_inj n a b ha hb (h1.trans h2.symm)

/-! ### Main theorems -/

/-- **(A)** On wildcard-free components the relaxed glob is the singleton of what `get` reaches,
and empty exactly when `get` fails. -/
theorem gl_eq_getE (n : N) (ps : List String) :
    T.gl n ps = match T.getE n ps with | .ok m => [m] | .error _ => [] := by
  induction ps generalizing n with
  | nil => rfl
  | cons s ps ih =>
    by_cases h1 : s = ".."
    · subst h1
      rw [gl_dotdot, getE_dotdot]
      cases T.parent n with
      | none => rfl
      | some p => exact ih p
    by_cases h2 : s = ""
    · subst h2
      rw [gl_empty, getE_empty]; exact ih n
    by_cases h3 : s = "."
    · subst h3
      rw [gl_dot, getE_dot]; exact ih n
    rw [T.gl_comp n s ps h1 h2 h3, T.getE_comp n s ps h1 h2 h3]
    rcases T.filter_name_cases n s with ⟨hf, hl⟩ | ⟨c, hf, hl⟩
    · rw [hf, hl]; rfl
    · rw [hf, hl]
      simpa using ih c

/-- **(B)** On wildcard-free components the strict glob fails with the same error as `get` (same
kind, same node, same component), and on success yields the singleton of the node `get` reaches. -/
theorem glS_eq_getE (n : N) (ps : List String) :
    T.glS n ps = (T.getE n ps).map (fun m => [m]) := by
  induction ps generalizing n with
  | nil => rfl
  | cons s ps ih =>
    by_cases h1 : s = ".."
    · subst h1
      rw [glS_dotdot, getE_dotdot]
      cases T.parent n with
      | none => rfl
      | some p => exact ih p
    by_cases h2 : s = ""
    · subst h2
      rw [glS_empty, getE_empty]; exact ih n
    by_cases h3 : s = "."
    · subst h3
      rw [glS_dot, getE_dot]; exact ih n
    rw [T.getE_comp n s ps h1 h2 h3]
    simp only [glS, if_neg h1, if_neg (not_or.mpr ⟨h2, h3⟩)]
    rcases T.filter_name_cases n s with ⟨hf, hl⟩ | ⟨c, hf, hl⟩
    · rw [hf, hl]; rfl
    · rw [hf, hl]
      simp only [List.map_cons, List.map_nil, ih c]
      cases T.getE c ps with
      | error e => rfl
      | ok m => rfl

/-- **(C), success part.** A successful strict glob returns exactly the relaxed denotation. -/
theorem glS_ok_eq_gl (n : N) (ps : List String) (l : List N) (h : T.glS n ps = .ok l) :
    l = T.gl n ps := by
  rw [glS_eq_getE] at h
  rw [gl_eq_getE]
  cases hg : T.getE n ps with
  | error e => rw [hg] at h; cases h
  | ok m => rw [hg] at h; cases h; rfl

/-- **(C), failure part.** When the strict glob fails, the relaxed denotation is empty. -/
theorem glS_error_gl_nil (n : N) (ps : List String) (e : Err N) (h : T.glS n ps = .error e) :
    T.gl n ps = [] := by
  rw [glS_eq_getE] at h
  rw [gl_eq_getE]
  cases hg : T.getE n ps with
  | error e' => rfl
  | ok m => rw [hg] at h; cases h

/-- **(C)** Corollary: strict and relaxed glob agree on wildcard-free components: a successful
strict glob returns the relaxed denotation, a failing one means the relaxed denotation is empty. -/
theorem glS_ok_iff (n : N) (ps : List String) :
    (∀ l, T.glS n ps = .ok l → l = T.gl n ps) ∧
    (∀ e, T.glS n ps = .error e → T.gl n ps = []) :=
  ⟨T.glS_ok_eq_gl n ps, T.glS_error_gl_nil n ps⟩

end NamedTree

#print axioms NamedTree.filter_name_cases
#print axioms NamedTree.gl_eq_getE
#print axioms NamedTree.glS_eq_getE
#print axioms NamedTree.glS_ok_iff
#print axioms NamedTree.glS_comp
#print axioms catE_eq_mapM
