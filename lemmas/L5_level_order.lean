import Mathlib

/-!
# L5 (level order) : restricted level-order traversal = filtered unrestricted levels

Self-contained companion of `L5_restricted_traversals.lean` (pre- and post-order); the definitions
`T`, `Ann`, `dec`, `NS`, `admitted`, `admittedB`, `keep`, `budget`, `bud`, `preT`, `preF`,
`preAllT`, `preAllF`, `preAll` and the theorem `L5_pre` are copied from that file unchanged.

## What is proved (everything asked for; nothing is weakened, nothing is missing)

Model: ordered rose trees `T α`; `f st : α → Bool` (filter_ and stop); bound flag `hm : Bool`
(`hm = m.isSome`), integer budget `b`, `dec hm b = if hm then b - 1 else 0`.

Specification functions, literally as in the task (well-founded recursion on the number of nodes
`sizeF` of the forest):

* `NS st forest`   : the trees of the forest whose root label does not satisfy `st`
* `FILT f forest`  : the root labels of the forest that satisfy `f`, in order
* `GC st forest`   : concatenation over the trees `node a cs` of the forest of `NS cs`
* `LEVEL forest b  = if forest = [] ∨ (hm ∧ b < 1) then [] else
                       FILT forest ++ LEVEL (if hm ∧ b - 1 < 1 then [] else GC forest) (dec b)`
* `LEVELG forest b = if forest = [] ∨ (hm ∧ b < 1) then [] else
                       FILT forest :: (if hm ∧ b - 1 < 1 then [] else LEVELG (GC forest) (dec b))`

(`LEVEL_step` / `LEVELG_step` show that the inner test `hm ∧ b - 1 < 1` is redundant.)

Unrestricted annotated levels: `levelsAll st t : List (List (Ann α))`; level `k` lists the nodes of
`t` at depth `k`, annotated with (label, depth, stopped-on-path flag, the flag including the node
itself, exactly as `preAll` annotates), in the order of their parents and then sibling order.  It is
defined as `levelsP st [(t, false)] 0`, where `levelsP ps d` works on a list `ps` of "pending nodes"
(subtree, stopped-flag of the parent's path) all sitting at depth `d`:
`levelsP ps d = if ps = [] then [] else ps.map (ann d) :: levelsP (kidsP ps) (d + 1)`.
Sanity theorems for this definition:
* `levelsAll_getElem?`     : the `k`-th level is non-empty and all its nodes have depth `k`;
* `levelsAll_flatten_perm` : the concatenation of the levels is a permutation of `preAll st t`
                             (the annotated node listing of the accepted file).

`groups f m L` = from the list of levels `L`: keep in every level the admitted nodes, remove the
levels that became empty, then filter every remaining group by `f` and map it to labels.

Main theorems:
* `LEVEL_eq_flatten`     : `LEVEL forest b = (LEVELG forest b).flatten` (all forests, all budgets).
* `L5_level`             : `LEVELG (NS [t]) (budget m) = groups f m (levelsAll t)`, i.e. the full
                           admitted-set characterisation: one group per level that has at least one
                           ADMITTED node (a group may be empty after the `f`-filter), each group
                           being the admitted nodes of that level, filtered by `f`, as labels.
* `L5_level'`            : the same with `groups` unfolded and the Prop `admitted m x`.
* `L5_level_flat`        : `LEVEL (NS [t]) (budget m) = (groups f m (levelsAll t)).flatten`.
* `L5_level_flat_filter` : `LEVEL (NS [t]) (budget m)
                             = ((levelsAll t).flatten.filter (admitted ∧ f)).map label`.
* `L5_level_perm_pre`    : `LEVEL (NS [t]) (budget m)` is a permutation of `PRE [t] (budget m)`.
* `L5_level_mem`         : `a ∈ LEVEL (NS [t]) (budget m)` iff `a` is the label of an admitted node
                           `x ∈ preAll t` with `f x`.
* `LEVELG_unbounded_budget_irrelevant`, `LEVEL_unbounded_budget_irrelevant` : for `hm = false` the
                           budget is irrelevant (so "budget of none" = 0 is an arbitrary choice).

Generalisation used in the proof (`LEVELG_gen`): for any list of pending nodes `ps` at depth `d`,
`LEVELG (live trees of ps) (bud m d) = groups f m (levelsP ps d)`; `groups_dead` shows that below
a blocked level (bound reached) or below a level without live node no further group appears, which
is why `LEVELG` may stop there.
-/

namespace L5

/-- Ordered rose trees with labels. -/
inductive T (α : Type) where
  | node : α → List (T α) → T α

variable {α : Type}

/-- Root label. -/
def T.label : T α → α
  | .node a _ => a

/-- Children of the root. -/
def T.children : T α → List (T α)
  | .node _ cs => cs

/-- Annotated node: label, relative depth, and whether some node on the path from the start node
down to and including this node satisfies `st`. -/
structure Ann (α : Type) where
  label : α
  depth : Nat
  stopped : Bool

/-- Budget decrement: with a bound the budget decreases by one, without it is a dummy `0`. -/
def dec (hm : Bool) (b : Int) : Int := if hm then b - 1 else 0

/-! ## Size of forests (termination measure) -/

mutual
/-- Number of nodes of a tree. -/
def sizeT : T α → Nat
  | .node _ cs => 1 + sizeF cs
/-- Number of nodes of a forest. -/
def sizeF : List (T α) → Nat
  | [] => 0
  | t :: ts => sizeT t + sizeF ts
end

/-- The size of a tree is one plus the size of the forest of its children. -/
theorem sizeT_eq (t : T α) : sizeT t = 1 + sizeF t.children := by
  cases t with
  | node a cs => simp [sizeT, T.children]

/-- The size of a concatenated forest is the sum of the sizes. -/
theorem sizeF_append (l₁ l₂ : List (T α)) : sizeF (l₁ ++ l₂) = sizeF l₁ + sizeF l₂ := by
  induction l₁ with
  | nil => simp [sizeF]
  | cons t ts ih => simp [sizeF, ih]; omega

/-- Filtering a forest does not increase its size. -/
theorem sizeF_filter_le (p : T α → Bool) (l : List (T α)) : sizeF (l.filter p) ≤ sizeF l := by
  induction l with
  | nil => simp [sizeF]
  | cons t ts ih =>
    by_cases h : p t = true
    · simp [h, sizeF]; omega
    · simp [h, sizeF]; omega

/-- The forest of all children has exactly `length forest` fewer nodes than the forest (the roots).
-/
theorem sizeF_kids (forest : List (T α)) :
    sizeF (forest.flatMap T.children) + forest.length = sizeF forest := by
  induction forest with
  | nil => simp [sizeF]
  | cons t ts ih =>
    simp only [List.flatMap_cons, sizeF_append, sizeF, sizeT_eq, List.length_cons]
    omega

/-! ## The level-order specification functions -/

/-- `NS forest`: the trees of the forest whose root label does not satisfy `st`. -/
def NS (st : α → Bool) (forest : List (T α)) : List (T α) :=
  forest.filter (fun t => !st t.label)

/-- `FILT forest`: the root labels of the forest that satisfy `f`, in order. -/
def FILT (f : α → Bool) (forest : List (T α)) : List α :=
  (forest.map T.label).filter f

/-- `GC forest`: the stop-pruned grandchildren, i.e. the concatenation over the trees
`node a cs` of the forest of `NS cs`. -/
def GC (st : α → Bool) (forest : List (T α)) : List (T α) :=
  forest.flatMap (fun t => NS st t.children)

/-- The stop-pruned grandchildren forest `GC forest` has at least `length forest` fewer nodes than
`forest`. -/
theorem sizeF_GC (st : α → Bool) (forest : List (T α)) :
    sizeF (GC st forest) + forest.length ≤ sizeF forest := by
  induction forest with
  | nil => simp [GC, sizeF]
  | cons t ts ih =>
    have := sizeF_filter_le (fun t => !st t.label) t.children
    simp only [GC, NS, List.flatMap_cons, sizeF_append, sizeF, sizeT_eq, List.length_cons] at *
    omega

/-- For a non-empty forest `GC forest` is strictly smaller (termination of `LEVEL` and `LEVELG`). -/
theorem sizeF_GC_lt (st : α → Bool) {forest : List (T α)} (h : forest ≠ []) :
    sizeF (GC st forest) < sizeF forest := by
  have := sizeF_GC st forest
  have : 0 < forest.length := List.length_pos_of_ne_nil h
  omega

/-- A non-empty forest has positive size. -/
theorem sizeF_pos {forest : List (T α)} (h : forest ≠ []) : 0 < sizeF forest := by
  have := sizeF_kids forest
  have : 0 < forest.length := List.length_pos_of_ne_nil h
  omega

/-- `LEVEL forest b`: the flat level-order listing. -/
def LEVEL (f st : α → Bool) (hm : Bool) (forest : List (T α)) (b : Int) : List α :=
  if h : forest = [] ∨ (hm = true ∧ b < 1) then [] else
    FILT f forest ++
      LEVEL f st hm (if hm = true ∧ b - 1 < 1 then [] else GC st forest) (dec hm b)
termination_by sizeF forest
decreasing_by
  have hne : forest ≠ [] := fun e => h (Or.inl e)
  split
  · simpa [sizeF] using sizeF_pos hne
  · exact sizeF_GC_lt st hne

/-- `LEVELG forest b`: the level-order listing grouped by level. -/
def LEVELG (f st : α → Bool) (hm : Bool) (forest : List (T α)) (b : Int) : List (List α) :=
  if h : forest = [] ∨ (hm = true ∧ b < 1) then [] else
    FILT f forest ::
      (if hm = true ∧ b - 1 < 1 then [] else LEVELG f st hm (GC st forest) (dec hm b))
termination_by sizeF forest
decreasing_by
  exact sizeF_GC_lt st (fun e => h (Or.inl e))

/-! ## Unfolding lemmas and `LEVEL = flatten LEVELG` -/

/-- `LEVELG` is empty on the empty forest and when the budget is exhausted. -/
theorem LEVELG_stop (f st : α → Bool) (hm : Bool) (forest : List (T α)) (b : Int)
    (h : forest = [] ∨ (hm = true ∧ b < 1)) : LEVELG f st hm forest b = [] := by
  rw [LEVELG, dif_pos h]

/-- The inner budget test of `LEVELG` is redundant: the recursive call performs it anyway. -/
theorem LEVELG_step (f st : α → Bool) (hm : Bool) (forest : List (T α)) (b : Int)
    (h : ¬ (forest = [] ∨ (hm = true ∧ b < 1))) :
    LEVELG f st hm forest b = FILT f forest :: LEVELG f st hm (GC st forest) (dec hm b) := by
  rw [LEVELG, dif_neg h]
  by_cases h2 : hm = true ∧ b - 1 < 1
  · rw [if_pos h2, LEVELG_stop]
    right
    obtain ⟨h3, h4⟩ := h2
    exact ⟨h3, by simpa [dec, h3] using h4⟩
  · rw [if_neg h2]

/-- `LEVEL` is empty on the empty forest and when the budget is exhausted. -/
theorem LEVEL_stop (f st : α → Bool) (hm : Bool) (forest : List (T α)) (b : Int)
    (h : forest = [] ∨ (hm = true ∧ b < 1)) : LEVEL f st hm forest b = [] := by
  rw [LEVEL, dif_pos h]

/-- The inner budget test of `LEVEL` is redundant as well. -/
theorem LEVEL_step (f st : α → Bool) (hm : Bool) (forest : List (T α)) (b : Int)
    (h : ¬ (forest = [] ∨ (hm = true ∧ b < 1))) :
    LEVEL f st hm forest b = FILT f forest ++ LEVEL f st hm (GC st forest) (dec hm b) := by
  rw [LEVEL, dif_neg h]
  by_cases h2 : hm = true ∧ b - 1 < 1
  · rw [if_pos h2, LEVEL_stop _ _ _ [] _ (Or.inl rfl), LEVEL_stop]
    right
    obtain ⟨h3, h4⟩ := h2
    exact ⟨h3, by simpa [dec, h3] using h4⟩
  · rw [if_neg h2]

/-- `LEVEL = flatten LEVELG`, by induction on a bound `n` of the size of the forest. -/
theorem LEVEL_eq_flatten_aux (f st : α → Bool) (hm : Bool) :
    ∀ (n : Nat) (forest : List (T α)) (b : Int), sizeF forest ≤ n →
      LEVEL f st hm forest b = (LEVELG f st hm forest b).flatten := by
  intro n
  induction n with
  | zero =>
    intro forest b hn
    have : forest = [] := by
      by_contra hne
      have := sizeF_pos hne
      omega
    rw [LEVEL_stop _ _ _ _ _ (Or.inl this), LEVELG_stop _ _ _ _ _ (Or.inl this)]
    rfl
  | succ n ih =>
    intro forest b hn
    by_cases h : forest = [] ∨ (hm = true ∧ b < 1)
    · rw [LEVEL_stop _ _ _ _ _ h, LEVELG_stop _ _ _ _ _ h]
      rfl
    · rw [LEVEL_step _ _ _ _ _ h, LEVELG_step _ _ _ _ _ h, List.flatten_cons]
      have hne : forest ≠ [] := fun e => h (Or.inl e)
      have := sizeF_GC_lt st hne
      rw [ih (GC st forest) (dec hm b) (by omega)]

/-- **LEVEL / LEVELG relationship.**  The flat level-order listing is the concatenation of the
groups of the grouped level-order listing. -/
theorem LEVEL_eq_flatten (f st : α → Bool) (hm : Bool) (forest : List (T α)) (b : Int) :
    LEVEL f st hm forest b = (LEVELG f st hm forest b).flatten :=
  LEVEL_eq_flatten_aux f st hm _ forest b le_rfl

/-! ## Annotations, admitted nodes, budgets (as in `L5_restricted_traversals.lean`) -/

/-- A node is admitted iff (`m = none` or depth `< m`) and no node on its path satisfies `st`. -/
def admitted (m : Option Nat) (x : Ann α) : Prop :=
  (m = none ∨ ∃ k, m = some k ∧ x.depth < k) ∧ x.stopped = false

/-- Boolean form of `admitted`. -/
def admittedB (m : Option Nat) (x : Ann α) : Bool :=
  (match m with
    | none => true
    | some k => decide (x.depth < k)) && !x.stopped

/-- `admittedB` decides `admitted`. -/
theorem admittedB_iff (m : Option Nat) (x : Ann α) : admittedB m x = true ↔ admitted m x := by
  cases m <;> simp [admittedB, admitted]

instance (m : Option Nat) (x : Ann α) : Decidable (admitted m x) :=
  decidable_of_iff _ (admittedB_iff m x)

/-- The selection predicate: admitted and passing `filter_`. -/
def keep (f : α → Bool) (m : Option Nat) (x : Ann α) : Bool := admittedB m x && f x.label

/-- "budget of m". -/
def budget : Option Nat → Int
  | none => 0
  | some k => k

/-- Remaining budget at relative depth `d`. -/
def bud : Option Nat → Nat → Int
  | none, _ => 0
  | some k, d => (k : Int) - d

/-- At depth `0` the remaining budget is the "budget of m". -/
theorem bud_zero (m : Option Nat) : bud m 0 = budget m := by
  cases m <;> simp [bud, budget]

/-- Decrementing the budget corresponds to going one level deeper. -/
theorem dec_bud (m : Option Nat) (d : Nat) : dec m.isSome (bud m d) = bud m (d + 1) := by
  cases m <;> simp [dec, bud]
  omega

/-- The budget test of the specification functions fails exactly in the depth-dead region. -/
theorem blocked_iff (m : Option Nat) (d : Nat) :
    (m.isSome = true ∧ bud m d < 1) ↔ ∃ k, m = some k ∧ k ≤ d := by
  cases m with
  | none => simp
  | some k =>
    simp [bud]
    omega

/-! ## The unrestricted annotated levels of a tree

A "pending" node of a level is a pair `(t, s)`: a subtree `t` together with the stopped-flag `s`
of its parent's path (`false` for the start node).  All pending nodes of one level have the same
depth `d`. -/

/-- The annotation of the root of a pending node at depth `d`. -/
def ann (st : α → Bool) (d : Nat) (p : T α × Bool) : Ann α :=
  ⟨p.1.label, d, p.2 || st p.1.label⟩

/-- The pending nodes of the next level: all children, in the order of their parents and then in
sibling order, each carrying the stopped-flag of its parent. -/
def kidsP (st : α → Bool) (ps : List (T α × Bool)) : List (T α × Bool) :=
  ps.flatMap (fun p => p.1.children.map (fun c => (c, p.2 || st p.1.label)))

/-- The trees of the next level's pending nodes are the children of the trees of this level. -/
theorem kidsP_fst (st : α → Bool) (ps : List (T α × Bool)) :
    (kidsP st ps).map Prod.fst = (ps.map Prod.fst).flatMap T.children := by
  induction ps with
  | nil => simp [kidsP]
  | cons p ps ih =>
    simp only [kidsP, List.flatMap_cons, List.map_append, List.map_cons] at *
    rw [ih]
    simp [Function.comp_def]

/-- The next level of a non-empty level is strictly smaller (termination of `levelsP`). -/
theorem sizeF_kidsP_lt (st : α → Bool) {ps : List (T α × Bool)} (h : ps ≠ []) :
    sizeF ((kidsP st ps).map Prod.fst) < sizeF (ps.map Prod.fst) := by
  rw [kidsP_fst]
  have := sizeF_kids (ps.map Prod.fst)
  have : 0 < ps.length := List.length_pos_of_ne_nil h
  simp only [List.length_map] at *
  omega

/-- `levelsP ps d`: the list of levels (level `k` = annotated nodes at depth `d + k`, in the order
of their parents and then sibling order) of the forest of pending nodes `ps` sitting at depth `d`. -/
def levelsP (st : α → Bool) (ps : List (T α × Bool)) (d : Nat) : List (List (Ann α)) :=
  if h : ps = [] then [] else ps.map (ann st d) :: levelsP st (kidsP st ps) (d + 1)
termination_by sizeF (ps.map Prod.fst)
decreasing_by exact sizeF_kidsP_lt st h

/-- `levelsAll t`: the list of levels of `t`; level `k` = the annotated nodes at depth `k`. -/
def levelsAll (st : α → Bool) (t : T α) : List (List (Ann α)) := levelsP st [(t, false)] 0

/-- No pending nodes, no levels. -/
theorem levelsP_nil (st : α → Bool) (d : Nat) : levelsP st ([] : List (T α × Bool)) d = [] := by
  rw [levelsP, dif_pos rfl]

/-- Defining equation of `levelsP` on a non-empty list of pending nodes: the current level followed
by the levels of the children. -/
theorem levelsP_cons (st : α → Bool) {ps : List (T α × Bool)} (h : ps ≠ []) (d : Nat) :
    levelsP st ps d = ps.map (ann st d) :: levelsP st (kidsP st ps) (d + 1) := by
  rw [levelsP, dif_neg h]

/-! ## Groups of admitted nodes -/

/-- `groups f m L`: from the list of levels `L` keep of every level the admitted nodes, drop the
levels without admitted node, then filter every remaining group by `f` and map it to labels. -/
def groups (f : α → Bool) (m : Option Nat) (L : List (List (Ann α))) : List (List α) :=
  ((L.map (fun lvl => lvl.filter (admittedB m))).filter (fun g => !g.isEmpty)).map
    (fun g => (g.filter (fun x => f x.label)).map Ann.label)

/-- No levels, no groups. -/
theorem groups_nil (f : α → Bool) (m : Option Nat) : groups f m [] = [] := rfl

/-- A level without admitted node contributes no group. -/
theorem groups_cons_dead (f : α → Bool) (m : Option Nat) (lvl : List (Ann α))
    (L : List (List (Ann α))) (h : lvl.filter (admittedB m) = []) :
    groups f m (lvl :: L) = groups f m L := by
  simp [groups, h]

/-- A level with at least one admitted node contributes exactly one group: its admitted nodes,
filtered by `f`, as labels. -/
theorem groups_cons_live (f : α → Bool) (m : Option Nat) (lvl : List (Ann α))
    (L : List (List (Ann α))) (h : lvl.filter (admittedB m) ≠ []) :
    groups f m (lvl :: L) =
      ((lvl.filter (admittedB m)).filter (fun x => f x.label)).map Ann.label :: groups f m L := by
  have : ((lvl.filter (admittedB m)).isEmpty) = false := by
    simpa [List.isEmpty_iff] using h
  simp only [groups, List.map_cons, List.filter_cons, this]
  simp

/-- Selecting by `keep` is selecting the admitted nodes and then those passing `f`. -/
theorem filter_keep (f : α → Bool) (m : Option Nat) (lvl : List (Ann α)) :
    lvl.filter (keep f m) = (lvl.filter (admittedB m)).filter (fun x => f x.label) := by
  rw [List.filter_filter]
  congr 1
  funext x
  simp [keep, Bool.and_comm]

/-- The concatenation of the groups is the `keep`-selected part of the concatenated levels. -/
theorem groups_flatten (f : α → Bool) (m : Option Nat) (L : List (List (Ann α))) :
    (groups f m L).flatten = (L.flatten.filter (keep f m)).map Ann.label := by
  induction L with
  | nil => simp [groups]
  | cons lvl L ih =>
    by_cases h : lvl.filter (admittedB m) = []
    · rw [groups_cons_dead f m lvl L h, ih, List.flatten_cons, List.filter_append,
        filter_keep f m lvl, h]
      simp
    · rw [groups_cons_live f m lvl L h, List.flatten_cons, ih, List.flatten_cons,
        List.filter_append, filter_keep f m lvl, List.map_append]

/-! ## Live pending nodes -/

/-- The trees of the pending nodes that are not stopped (neither on the path nor at the root). -/
def liveT (st : α → Bool) (ps : List (T α × Bool)) : List (T α) :=
  (ps.filter (fun p => !(p.2 || st p.1.label))).map Prod.fst

/-- `liveT` distributes over concatenation. -/
theorem liveT_append (st : α → Bool) (ps qs : List (T α × Bool)) :
    liveT st (ps ++ qs) = liveT st ps ++ liveT st qs := by
  simp [liveT]

/-- A stopped pending node is not live. -/
theorem liveT_cons_dead (st : α → Bool) (p : T α × Bool) (ps : List (T α × Bool))
    (hp : (p.2 || st p.1.label) = true) : liveT st (p :: ps) = liveT st ps := by
  unfold liveT
  rw [List.filter_cons, hp]
  rfl

/-- An unstopped pending node is live. -/
theorem liveT_cons_live (st : α → Bool) (p : T α × Bool) (ps : List (T α × Bool))
    (hp : (p.2 || st p.1.label) = false) : liveT st (p :: ps) = p.1 :: liveT st ps := by
  unfold liveT
  rw [List.filter_cons, hp]
  rfl

/-- The live ones among the children of a node with flag `s`: none if `s`, else the children not
satisfying `st`. -/
theorem liveT_children (st : α → Bool) (cs : List (T α)) (s : Bool) :
    liveT st (cs.map (fun c => (c, s))) = if s = true then [] else NS st cs := by
  cases s with
  | true => simp [liveT]
  | false =>
    simp only [liveT, NS, List.filter_map, List.map_map]
    simp [Function.comp_def]

/-- The live pending nodes of the next level are the stop-pruned grandchildren `GC` of the live
pending nodes of this level. -/
theorem liveT_kidsP (st : α → Bool) (ps : List (T α × Bool)) :
    liveT st (kidsP st ps) = GC st (liveT st ps) := by
  induction ps with
  | nil => simp [liveT, kidsP, GC]
  | cons p ps ih =>
    have hk : kidsP st (p :: ps) =
        p.1.children.map (fun c => (c, p.2 || st p.1.label)) ++ kidsP st ps := by
      simp [kidsP]
    rw [hk, liveT_append, ih, liveT_children]
    by_cases hp : (p.2 || st p.1.label) = true
    · rw [liveT_cons_dead st p ps hp, if_pos hp]
      rfl
    · rw [liveT_cons_live st p ps (by simpa using hp), if_neg hp]
      simp [GC]

/-- The admitted nodes of the level of `ps` at a non-blocked depth `d` are the annotations of the
live pending nodes. -/
theorem level_admitted_live (st : α → Bool) (m : Option Nat) (ps : List (T α × Bool)) (d : Nat)
    (hb : ¬ (m.isSome = true ∧ bud m d < 1)) :
    (ps.map (ann st d)).filter (admittedB m) =
      (liveT st ps).map (fun t => (⟨t.label, d, false⟩ : Ann α)) := by
  have hd : ∀ s : Bool, ∀ a : α, admittedB m ⟨a, d, s⟩ = !s := by
    intro s a
    cases m with
    | none => simp [admittedB]
    | some k =>
      simp [bud] at hb
      simp [admittedB]
      intro _; omega
  induction ps with
  | nil => simp [liveT]
  | cons p ps ih =>
    by_cases hp : (p.2 || st p.1.label) = true
    · rw [liveT_cons_dead st p ps hp, List.map_cons, List.filter_cons, ih]
      simp [ann, hd, hp]
    · have hp' : (p.2 || st p.1.label) = false := by simpa using hp
      rw [liveT_cons_live st p ps hp', List.map_cons, List.filter_cons, ih]
      simp [ann, hd, hp']

/-- At a blocked depth no node of the level is admitted. -/
theorem level_admitted_blocked (st : α → Bool) (m : Option Nat) (ps : List (T α × Bool)) (d : Nat)
    (hb : m.isSome = true ∧ bud m d < 1) :
    (ps.map (ann st d)).filter (admittedB m) = [] := by
  obtain ⟨k, hk, hkd⟩ := (blocked_iff m d).1 hb
  subst hk
  simp only [List.filter_eq_nil_iff, List.mem_map]
  rintro x ⟨p, _, rfl⟩
  have : ¬ d < k := by omega
  simp [ann, admittedB, this]

/-- Once a level is blocked by the depth bound or has no live pending node, no deeper level
contributes a group. -/
theorem groups_dead (f st : α → Bool) (m : Option Nat) :
    ∀ (n : Nat) (ps : List (T α × Bool)) (d : Nat), sizeF (ps.map Prod.fst) ≤ n →
      (liveT st ps = [] ∨ (m.isSome = true ∧ bud m d < 1)) →
      groups f m (levelsP st ps d) = [] := by
  intro n
  induction n with
  | zero =>
    intro ps d hn _
    have : ps = [] := by
      by_contra hne
      have : ps.map Prod.fst ≠ [] := by simpa using hne
      have := sizeF_pos this
      omega
    rw [this, levelsP_nil]; rfl
  | succ n ih =>
    intro ps d hn hdead
    by_cases hps : ps = []
    · rw [hps, levelsP_nil]; rfl
    · rw [levelsP_cons st hps]
      have hlt := sizeF_kidsP_lt st hps
      have hnext : liveT st (kidsP st ps) = [] ∨ (m.isSome = true ∧ bud m (d + 1) < 1) := by
        rcases hdead with h | ⟨h1, h2⟩
        · left; rw [liveT_kidsP, h]; rfl
        · right
          refine ⟨h1, ?_⟩
          rw [← dec_bud]
          simp only [dec, h1, if_true]
          omega
      have hlvl : (ps.map (ann st d)).filter (admittedB m) = [] := by
        by_cases hb : m.isSome = true ∧ bud m d < 1
        · exact level_admitted_blocked st m ps d hb
        · rcases hdead with h | h
          · rw [level_admitted_live st m ps d hb, h]; rfl
          · exact absurd h hb
      rw [groups_cons_dead f m _ _ hlvl]
      exact ih _ _ (by omega) hnext

/-- Generalised level-order lemma: for pending nodes `ps` at depth `d`, `LEVELG` of the live
pending trees with the remaining budget is the list of admitted groups of the levels of `ps`. -/
theorem LEVELG_gen (f st : α → Bool) (m : Option Nat) :
    ∀ (n : Nat) (ps : List (T α × Bool)) (d : Nat), sizeF (ps.map Prod.fst) ≤ n →
      LEVELG f st m.isSome (liveT st ps) (bud m d) = groups f m (levelsP st ps d) := by
  intro n
  induction n with
  | zero =>
    intro ps d hn
    have : ps = [] := by
      by_contra hne
      have : ps.map Prod.fst ≠ [] := by simpa using hne
      have := sizeF_pos this
      omega
    rw [this, levelsP_nil, LEVELG_stop _ _ _ _ _ (Or.inl (by simp [liveT]))]; rfl
  | succ n ih =>
    intro ps d hn
    by_cases h : liveT st ps = [] ∨ (m.isSome = true ∧ bud m d < 1)
    · rw [LEVELG_stop _ _ _ _ _ h, groups_dead f st m _ ps d le_rfl h]
    · have hps : ps ≠ [] := by
        rintro rfl
        exact h (Or.inl (by simp [liveT]))
      have hb : ¬ (m.isSome = true ∧ bud m d < 1) := fun e => h (Or.inr e)
      have hl : liveT st ps ≠ [] := fun e => h (Or.inl e)
      have hlt := sizeF_kidsP_lt st hps
      rw [LEVELG_step _ _ _ _ _ h, levelsP_cons st hps, dec_bud, ← liveT_kidsP,
        ih (kidsP st ps) (d + 1) (by omega)]
      have hlvl := level_admitted_live st m ps d hb
      have hne : (ps.map (ann st d)).filter (admittedB m) ≠ [] := by
        rw [hlvl]; simpa using hl
      rw [groups_cons_live f m _ _ hne, hlvl]
      congr 1
      simp [FILT, List.filter_map, Function.comp_def]

/-! ## Main theorems (level order) -/

/-- **L5 (level order, grouped).**  `LEVELG (NS [t]) (budget of m)` is obtained from the list of
levels of `t` (annotated nodes per depth, in the order of their parents and then sibling order) by
keeping in each level the admitted nodes, dropping the levels that have no admitted node (so there
is exactly one group per level that has at least one admitted node), and then filtering each group
by `f` and mapping it to labels. -/
theorem L5_level (f st : α → Bool) (m : Option Nat) (t : T α) :
    LEVELG f st m.isSome (NS st [t]) (budget m) = groups f m (levelsAll st t) := by
  have h := LEVELG_gen f st m _ [(t, false)] 0 le_rfl
  rw [bud_zero] at h
  rw [levelsAll, ← h]
  congr 1
  simp [liveT, NS, List.filter_cons]
  by_cases hs : st t.label = true <;> simp [hs]

/-- **L5 (level order, grouped), explicit Prop form.**  Same as `L5_level` with `groups` unfolded
and the admission test written with the proposition `admitted m x`. -/
theorem L5_level' (f st : α → Bool) (m : Option Nat) (t : T α) :
    LEVELG f st m.isSome (NS st [t]) (budget m) =
      ((((levelsAll st t).map (fun lvl => lvl.filter (fun x => decide (admitted m x)))).filter
        (fun g => decide (g ≠ []))).map
        (fun g => (g.filter (fun x => f x.label)).map Ann.label)) := by
  rw [L5_level, groups]
  have h1 : (admittedB m : Ann α → Bool) = fun x => decide (admitted m x) := by
    funext x
    simp [← admittedB_iff]
  have h2 : (fun g : List (Ann α) => !g.isEmpty) = fun g => decide (g ≠ []) := by
    funext g
    cases g <;> simp
  rw [h1, h2]

/-- **L5 (level order, flat).**  `LEVEL (NS [t]) (budget of m)` is the concatenation of the groups
of `L5_level`. -/
theorem L5_level_flat (f st : α → Bool) (m : Option Nat) (t : T α) :
    LEVEL f st m.isSome (NS st [t]) (budget m) = (groups f m (levelsAll st t)).flatten := by
  rw [LEVEL_eq_flatten, L5_level]

/-- **L5 (level order, flat, filter form).**  `LEVEL (NS [t]) (budget of m)` is the level-order
listing of all annotated nodes of `t` (the concatenation of the levels), restricted to the nodes
that are admitted and pass `f`, projected to labels. -/
theorem L5_level_flat_filter (f st : α → Bool) (m : Option Nat) (t : T α) :
    LEVEL f st m.isSome (NS st [t]) (budget m) =
      ((levelsAll st t).flatten.filter (fun x => admittedB m x && f x.label)).map Ann.label := by
  rw [L5_level_flat, groups_flatten]
  rfl

/-! ## Sanity of `levelsAll`: depths, non-empty levels -/

/-- The `k`-th level of `levelsP ps d` is non-empty and consists of nodes annotated with depth
`d + k`. -/
theorem levelsP_getElem? (st : α → Bool) :
    ∀ (k : Nat) (ps : List (T α × Bool)) (d : Nat) (lvl : List (Ann α)),
      (levelsP st ps d)[k]? = some lvl → lvl ≠ [] ∧ ∀ x ∈ lvl, x.depth = d + k := by
  intro k
  induction k with
  | zero =>
    intro ps d lvl h
    by_cases hps : ps = []
    · rw [hps, levelsP_nil] at h; simp at h
    · rw [levelsP_cons st hps] at h
      simp at h
      subst h
      refine ⟨by simpa using hps, ?_⟩
      intro x hx
      rw [List.mem_map] at hx
      obtain ⟨p, _, rfl⟩ := hx
      rfl
  | succ k ih =>
    intro ps d lvl h
    by_cases hps : ps = []
    · rw [hps, levelsP_nil] at h; simp at h
    · rw [levelsP_cons st hps, List.getElem?_cons_succ] at h
      obtain ⟨h1, h2⟩ := ih _ _ _ h
      refine ⟨h1, fun x hx => ?_⟩
      rw [h2 x hx]; omega

/-- The `k`-th level of `levelsAll t` is non-empty and consists of nodes of depth `k`. -/
theorem levelsAll_getElem? (st : α → Bool) (t : T α) (k : Nat) (lvl : List (Ann α))
    (h : (levelsAll st t)[k]? = some lvl) : lvl ≠ [] ∧ ∀ x ∈ lvl, x.depth = k := by
  have := levelsP_getElem? st k _ 0 lvl h
  simpa using this

/-! ## Link to the pre-order development (`L5_restricted_traversals.lean`)

The definitions `preT`, `preF`, `preAllT`, `preAllF`, `preAll` and the theorem `L5_pre` (with its
auxiliary lemmas) are copied verbatim from the accepted file, to keep this file self-contained. -/

mutual
/-- `PRE` on a single tree. -/
def preT (f st : α → Bool) (hm : Bool) : T α → Int → List α
  | .node a cs, b =>
    if hm = true ∧ b < 1 then [] else
    if st a = true then [] else
    (if f a = true then [a] else []) ++ preF f st hm cs (dec hm b)
/-- `PRE` on a forest. -/
def preF (f st : α → Bool) (hm : Bool) : List (T α) → Int → List α
  | [], _ => []
  | t :: ts, b => preT f st hm t b ++ preF f st hm ts b
end

mutual
/-- Unrestricted annotated pre-order of a tree started at depth `d` with stopped-flag `s`. -/
def preAllT (st : α → Bool) : T α → Nat → Bool → List (Ann α)
  | .node a cs, d, s => ⟨a, d, s || st a⟩ :: preAllF st cs (d + 1) (s || st a)
/-- Unrestricted annotated pre-order of a forest. -/
def preAllF (st : α → Bool) : List (T α) → Nat → Bool → List (Ann α)
  | [], _, _ => []
  | t :: ts, d, s => preAllT st t d s ++ preAllF st ts d s
end

/-- `preAll t`: unrestricted pre-order listing of all nodes of `t` with annotations. -/
def preAll (st : α → Bool) (t : T α) : List (Ann α) := preAllT st t 0 false

/-- At depth `d` with flag `s` nothing can be admitted any more. -/
def dead (m : Option Nat) (d : Nat) (s : Bool) : Prop :=
  s = true ∨ ∃ k, m = some k ∧ k ≤ d

/-- Deadness is inherited by the children (one level deeper, flag only grows). -/
theorem dead_succ {m : Option Nat} {d : Nat} {s : Bool} (h : dead m d s) (x : Bool) :
    dead m (d + 1) (s || x) := by
  rcases h with h | ⟨k, hk, hd⟩
  · left; simp [h]
  · right; exact ⟨k, hk, by omega⟩

/-- A node sitting in a dead position is never selected. -/
theorem keep_dead (f : α → Bool) {m : Option Nat} {d : Nat} {s : Bool} (h : dead m d s)
    (a : α) (x : Bool) : keep f m ⟨a, d, s || x⟩ = false := by
  rcases h with h | ⟨k, hk, hd⟩
  · simp [keep, admittedB, h]
  · subst hk
    simp [keep, admittedB]
    intro h1; omega

mutual
/-- Nothing of the annotated pre-order of a tree started in a dead position is selected. -/
theorem preAllT_dead (f st : α → Bool) (m : Option Nat) :
    ∀ (t : T α) (d : Nat) (s : Bool), dead m d s → (preAllT st t d s).filter (keep f m) = []
  | .node a cs, d, s, h => by
    rw [preAllT, List.filter_cons, keep_dead f h,
      preAllF_dead f st m cs (d + 1) (s || st a) (dead_succ h _)]
    simp
/-- Nothing of the annotated pre-order of a forest started in a dead position is selected. -/
theorem preAllF_dead (f st : α → Bool) (m : Option Nat) :
    ∀ (ts : List (T α)) (d : Nat) (s : Bool), dead m d s → (preAllF st ts d s).filter (keep f m) = []
  | [], _, _, _ => by simp [preAllF]
  | t :: ts, d, s, h => by
    rw [preAllF, List.filter_append, preAllT_dead f st m t d s h, preAllF_dead f st m ts d s h]
    rfl
end

/-- If the budget test passes at depth `d`, an unstopped node at depth `d` is selected iff it passes
`f`. -/
theorem keep_live (f : α → Bool) (m : Option Nat) (d : Nat) (a : α)
    (h : ¬ (m.isSome = true ∧ bud m d < 1)) : keep f m ⟨a, d, false⟩ = f a := by
  cases m with
  | none => simp [keep, admittedB]
  | some k =>
    simp [bud] at h
    simp [keep, admittedB]
    intro _; omega

mutual
/-- Generalised L5 (pre), one tree: at any depth offset `d`, `PRE` of the tree is the selected part
of its annotated pre-order started at depth `d`. -/
theorem preT_gen (f st : α → Bool) (m : Option Nat) :
    ∀ (t : T α) (d : Nat),
      preT f st m.isSome t (bud m d) = ((preAllT st t d false).filter (keep f m)).map Ann.label
  | .node a cs, d => by
    rw [preT]
    by_cases hb : m.isSome = true ∧ bud m d < 1
    · rw [if_pos hb, preAllT_dead f st m _ d false (Or.inr ((blocked_iff m d).1 hb))]
      rfl
    · rw [if_neg hb]
      by_cases hs : st a = true
      · rw [if_pos hs, preAllT, List.filter_cons]
        have hd : dead m (d + 1) (false || st a) := Or.inl (by simp [hs])
        rw [preAllF_dead f st m cs _ _ hd]
        simp [keep, admittedB, hs]
      · rw [if_neg hs, preAllT, dec_bud, preF_gen f st m cs (d + 1)]
        have hs' : st a = false := by simpa using hs
        simp only [hs', Bool.or_false, List.filter_cons, keep_live f m d a hb]
        by_cases hf : f a = true <;> simp [hf]
/-- Generalised L5 (pre), forests: same as `preT_gen` for a forest of siblings at depth `d`. -/
theorem preF_gen (f st : α → Bool) (m : Option Nat) :
    ∀ (ts : List (T α)) (d : Nat),
      preF f st m.isSome ts (bud m d) = ((preAllF st ts d false).filter (keep f m)).map Ann.label
  | [], _ => by simp [preF, preAllF]
  | t :: ts, d => by
    rw [preF, preAllF, preT_gen f st m t d, preF_gen f st m ts d]
    simp
end

/-- **L5 (pre-order)** (copied from the accepted file): `PRE [t] (budget of m)` is the annotated
pre-order listing of `t` restricted to the admitted nodes that pass `f`, projected to labels. -/
theorem L5_pre (f st : α → Bool) (m : Option Nat) (t : T α) :
    preF f st m.isSome [t] (budget m) =
      ((preAll st t).filter (fun x => admittedB m x && f x.label)).map Ann.label := by
  have := preF_gen f st m [t] 0
  rw [bud_zero] at this
  rw [this]
  simp [preAllF, preAll]
  rfl

/-! ### The levels are a rearrangement of the pre-order -/

/-- The annotated pre-order of a pending node: its root annotation followed by the pre-order of its
children. -/
theorem preAllT_eq (st : α → Bool) (t : T α) (d : Nat) (s : Bool) :
    preAllT st t d s = ann st d (t, s) :: preAllF st t.children (d + 1) (s || st t.label) := by
  cases t with
  | node a cs => simp [preAllT, ann, T.label, T.children]

/-- The annotated pre-order of a forest is the concatenation of the pre-orders of its trees. -/
theorem preAllF_eq_flatMap (st : α → Bool) (ts : List (T α)) (d : Nat) (s : Bool) :
    preAllF st ts d s = ts.flatMap (fun t => preAllT st t d s) := by
  induction ts with
  | nil => simp [preAllF]
  | cons t ts ih => simp [preAllF, ih]

/-- `map g` is `flatMap` of the singletons `[g p]`. -/
theorem map_eq_flatMap_singleton {β γ : Type} (g : β → γ) (l : List β) :
    l.map g = l.flatMap (fun p => [g p]) := by
  induction l with
  | nil => rfl
  | cons p ps ih => simp [List.flatMap_cons, ih]

/-- The concatenated levels of pending nodes `ps` at depth `d` are a permutation of the
concatenated annotated pre-orders of the pending nodes. -/
theorem levelsP_flatten_perm (st : α → Bool) :
    ∀ (n : Nat) (ps : List (T α × Bool)) (d : Nat), sizeF (ps.map Prod.fst) ≤ n →
      List.Perm (levelsP st ps d).flatten (ps.flatMap (fun p => preAllT st p.1 d p.2)) := by
  intro n
  induction n with
  | zero =>
    intro ps d hn
    have : ps = [] := by
      by_contra hne
      have : ps.map Prod.fst ≠ [] := by simpa using hne
      have := sizeF_pos this
      omega
    rw [this, levelsP_nil]; simp
  | succ n ih =>
    intro ps d hn
    by_cases hps : ps = []
    · rw [hps, levelsP_nil]; simp
    · have hlt := sizeF_kidsP_lt st hps
      have ih' := ih (kidsP st ps) (d + 1) (by omega)
      have hk : (kidsP st ps).flatMap (fun q => preAllT st q.1 (d + 1) q.2) =
          ps.flatMap (fun p => preAllF st p.1.children (d + 1) (p.2 || st p.1.label)) := by
        simp only [kidsP, List.flatMap_assoc, List.flatMap_map, preAllF_eq_flatMap]
      have hr : ps.flatMap (fun p => preAllT st p.1 d p.2) =
          ps.flatMap (fun p => [ann st d p] ++
            preAllF st p.1.children (d + 1) (p.2 || st p.1.label)) := by
        congr 1
        funext p
        rw [preAllT_eq]
        rfl
      have hm : ps.map (ann st d) = ps.flatMap (fun p => [ann st d p]) :=
        map_eq_flatMap_singleton _ ps
      rw [levelsP_cons st hps, List.flatten_cons, hr]
      rw [hk] at ih'
      refine (List.Perm.append_left _ ih').trans ?_
      rw [hm]
      exact List.flatMap_append_perm _ _ _

/-- The concatenation of the levels of `t` is a permutation of the annotated pre-order listing
`preAll t` of the pre-order and post-order development: `levelsAll` lists exactly the annotated nodes of
`t`, each once. -/
theorem levelsAll_flatten_perm (st : α → Bool) (t : T α) :
    List.Perm (levelsAll st t).flatten (preAll st t) := by
  have := levelsP_flatten_perm st _ [(t, false)] 0 le_rfl
  simpa [levelsAll, preAll] using this

/-- **Level order vs pre-order.**  `LEVEL (NS [t]) (budget of m)` is a permutation of the
restricted pre-order listing `PRE [t] (budget of m)` for the same parameters. -/
theorem L5_level_perm_pre (f st : α → Bool) (m : Option Nat) (t : T α) :
    List.Perm (LEVEL f st m.isSome (NS st [t]) (budget m)) (preF f st m.isSome [t] (budget m)) := by
  rw [L5_level_flat_filter, L5_pre]
  exact ((levelsAll_flatten_perm st t).filter _).map _

/-- **Membership.**  A label is listed by `LEVEL (NS [t]) (budget of m)` iff it is the label of an
admitted node `x` of `t` with `f x`. -/
theorem L5_level_mem (f st : α → Bool) (m : Option Nat) (t : T α) (a : α) :
    a ∈ LEVEL f st m.isSome (NS st [t]) (budget m) ↔
      ∃ x ∈ preAll st t, admitted m x ∧ f x.label = true ∧ x.label = a := by
  rw [(L5_level_perm_pre f st m t).mem_iff, L5_pre]
  simp only [List.mem_map, List.mem_filter, Bool.and_eq_true, admittedB_iff]
  constructor
  · rintro ⟨x, ⟨hx, h1, h2⟩, rfl⟩
    exact ⟨x, hx, h1, h2, rfl⟩
  · rintro ⟨x, hx, h1, h2, rfl⟩
    exact ⟨x, ⟨hx, h1, h2⟩, rfl⟩

/-! ## Without a bound the budget is irrelevant -/

/-- Without a depth bound `LEVELG` does not depend on the budget (induction on a size bound). -/
theorem LEVELG_unbounded_budget_irrelevant_aux (f st : α → Bool) :
    ∀ (n : Nat) (forest : List (T α)) (b b' : Int), sizeF forest ≤ n →
      LEVELG f st false forest b = LEVELG f st false forest b' := by
  intro n
  induction n with
  | zero =>
    intro forest b b' hn
    have : forest = [] := by
      by_contra hne
      have := sizeF_pos hne
      omega
    rw [LEVELG_stop _ _ _ _ _ (Or.inl this), LEVELG_stop _ _ _ _ _ (Or.inl this)]
  | succ n ih =>
    intro forest b b' hn
    by_cases h : forest = []
    · rw [LEVELG_stop _ _ _ _ _ (Or.inl h), LEVELG_stop _ _ _ _ _ (Or.inl h)]
    · have := sizeF_GC_lt st h
      rw [LEVELG_step _ _ _ _ b (by simp [h]), LEVELG_step _ _ _ _ b' (by simp [h])]
      rfl

/-- Without a depth bound `LEVELG` does not depend on the budget. -/
theorem LEVELG_unbounded_budget_irrelevant (f st : α → Bool) (forest : List (T α)) (b b' : Int) :
    LEVELG f st false forest b = LEVELG f st false forest b' :=
  LEVELG_unbounded_budget_irrelevant_aux f st _ forest b b' le_rfl

/-- Without a depth bound `LEVEL` does not depend on the budget. -/
theorem LEVEL_unbounded_budget_irrelevant (f st : α → Bool) (forest : List (T α)) (b b' : Int) :
    LEVEL f st false forest b = LEVEL f st false forest b' := by
  rw [LEVEL_eq_flatten, LEVEL_eq_flatten, LEVELG_unbounded_budget_irrelevant f st forest b b']

end L5
