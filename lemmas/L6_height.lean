import Mathlib

/-!
# L6 : height of an ordered rose tree = maximal relative depth

Model: ordered rose trees `inductive T | node : List T → T`.

Definitions (all by mutual structural recursion over `(T, List T)`):

* `T.height t`       : `height (node []) = 0`, `height (node cs) = 1 + max (heights of cs)` for `cs ≠ []`.
                        Implemented through `T.heightL cs = max_{c ∈ cs} (height c + 1)` (`0` for `[]`);
                        the textbook form is recovered in `height_nil`, `height_eq_foldr`, `height_cons`.
* `T.depthsBelow t`  : pre-order list of the depths, relative to the root of `t` (root has depth 0),
                        of ALL nodes of `t`.  The closed form
                        `depthsBelow (node cs) = 0 :: (cs.flatMap depthsBelow).map (· + 1)`
                        is proved in `depthsBelow_node`.
* `T.Sub s t`        : `s` is a (not necessarily proper) subtree of `t`.

Main results (nothing is missing; (a), (b) and the optional (c) are all proved):

* `T.L6a`  : every `d ∈ depthsBelow t` satisfies `d ≤ height t`.
* `T.L6b`  : `height t ∈ depthsBelow t`.
* `T.L6_max` : `height t` is the maximum of `depthsBelow t` (combination of (a) and (b)).
* `T.L6c`  : uniqueness of the recursive characterisation of `height` on the subtrees of `t`.
-/

/-- Ordered rose trees: a node carries the ordered list of its children. -/
inductive T where
  | node : List T → T

namespace T

/-! ## Definitions -/

mutual
  /-- Height of a tree: number of edges on the longest downward path from the root. -/
  def height : T → Nat
    | node cs => heightL cs
  /-- `heightL cs = max_{c ∈ cs} (height c + 1)`, and `0` for the empty list.
  This is the height of a node whose children list is `cs`. -/
  def heightL : List T → Nat
    | [] => 0
    | c :: cs => max (height c + 1) (heightL cs)
end

mutual
  /-- Depths (relative to the root of the tree, the root having depth `0`) of all nodes of the
  tree, in pre-order. -/
  def depthsBelow : T → List Nat
    | node cs => 0 :: (depthsBelowL cs).map (· + 1)
  /-- Concatenation of `depthsBelow c` for `c` in the forest `cs`. -/
  def depthsBelowL : List T → List Nat
    | [] => []
    | c :: cs => depthsBelow c ++ depthsBelowL cs
end

/-- `Sub s t` : `s` is a subtree of `t` (`t` itself, or a child of a subtree of `t`). -/
inductive Sub : T → T → Prop
  | refl (t : T) : Sub t t
  | child {c : T} {cs : List T} {t : T} : c ∈ cs → Sub (node cs) t → Sub c t

/-! ## The definitions agree with the textbook ones -/

/-- `heightL` is the `max`-fold of `height c + 1` over the children. -/
theorem heightL_eq_foldr (cs : List T) :
    heightL cs = (cs.map (fun c => height c + 1)).foldr max 0 := by
  induction cs with
  | nil => simp [heightL]
  | cons c cs ih => simp [heightL, ih]

/-- A leaf has height `0`. -/
@[simp] theorem height_nil : height (node []) = 0 := by
  simp [height, heightL]

/-- For a non-empty list of children, the height is `1 +` the maximum of the children's heights. -/
theorem height_eq_foldr (cs : List T) (hcs : cs ≠ []) :
    height (node cs) = 1 + (cs.map height).foldr max 0 := by
  have key : ∀ (c : T) (cs : List T),
      heightL (c :: cs) = 1 + ((c :: cs).map height).foldr max 0 := by
    intro c cs
    induction cs generalizing c with
    | nil => simp [heightL]; omega
    | cons c' cs ih =>
      have := ih c'
      simp only [heightL, List.map_cons, List.foldr_cons] at this ⊢
      omega
  cases cs with
  | nil => exact absurd rfl hcs
  | cons c cs => simpa [height] using key c cs

/-- Recursive form: `height (node (c :: cs)) = max (height c + 1) (height (node cs))`. -/
theorem height_cons (c : T) (cs : List T) :
    height (node (c :: cs)) = max (height c + 1) (height (node cs)) := by
  simp [height, heightL]

/-- `depthsBelowL` is the `flatMap` of `depthsBelow`. -/
theorem depthsBelowL_eq_flatMap (cs : List T) :
    depthsBelowL cs = cs.flatMap depthsBelow := by
  induction cs with
  | nil => simp [depthsBelowL]
  | cons c cs ih => simp [depthsBelowL, ih]

/-- Closed form of `depthsBelow`: the root has depth `0`; every node of a child subtree is one
level deeper than it is inside that child. -/
theorem depthsBelow_node (cs : List T) :
    depthsBelow (node cs) = 0 :: (cs.flatMap depthsBelow).map (· + 1) := by
  simp [depthsBelow, depthsBelowL_eq_flatMap]

/-- Membership in `depthsBelowL`. -/
theorem mem_depthsBelowL {d : Nat} {cs : List T} :
    d ∈ depthsBelowL cs ↔ ∃ c ∈ cs, d ∈ depthsBelow c := by
  simp [depthsBelowL_eq_flatMap, List.mem_flatMap]

/-! ## Basic facts about `heightL` -/

/-- Every child is strictly lower than its parent. -/
theorem height_succ_le_heightL {c : T} {cs : List T} (hc : c ∈ cs) :
    height c + 1 ≤ heightL cs := by
  induction cs with
  | nil => cases hc
  | cons c' cs ih =>
    simp only [heightL]
    rcases List.mem_cons.1 hc with rfl | h
    · exact le_max_left _ _
    · exact le_trans (ih h) (le_max_right _ _)

/-- Some child realises the height of a non-leaf. -/
theorem exists_heightL_eq {cs : List T} (hcs : cs ≠ []) :
    ∃ c ∈ cs, heightL cs = height c + 1 := by
  induction cs with
  | nil => exact absurd rfl hcs
  | cons c' cs ih =>
    simp only [heightL]
    rcases le_total (heightL cs) (height c' + 1) with h | h
    · exact ⟨c', List.mem_cons_self, max_eq_left h⟩
    · have hne : cs ≠ [] := by
        rintro rfl
        simp [heightL] at h
      obtain ⟨c, hc, e⟩ := ih hne
      exact ⟨c, List.mem_cons_of_mem _ hc, by rw [max_eq_right h, e]⟩

/-! ## L6 (a) -/

mutual
  /-- **L6 (a)**: every relative depth occurring in `t` is at most `height t`. -/
  theorem L6a : ∀ (t : T) (d : Nat), d ∈ depthsBelow t → d ≤ height t
    | node cs, d, hd => by
      simp only [depthsBelow, List.mem_cons, List.mem_map] at hd
      simp only [height]
      rcases hd with rfl | ⟨e, he, rfl⟩
      · exact Nat.zero_le _
      · exact L6aL cs e he
  /-- Forest version of `L6a`: depths inside a forest `cs`, plus one, are at most `heightL cs`. -/
  theorem L6aL : ∀ (cs : List T) (d : Nat), d ∈ depthsBelowL cs → d + 1 ≤ heightL cs
    | [], d, hd => by simp [depthsBelowL] at hd
    | c :: cs, d, hd => by
      simp only [depthsBelowL, List.mem_append] at hd
      simp only [heightL]
      rcases hd with h | h
      · exact le_trans (Nat.succ_le_succ (L6a c d h)) (le_max_left _ _)
      · exact le_trans (L6aL cs d h) (le_max_right _ _)
end

/-! ## L6 (b) -/

mutual
  /-- **L6 (b)**: `height t` is itself the relative depth of some node of `t`. -/
  theorem L6b : ∀ (t : T), height t ∈ depthsBelow t
    | node [] => by simp [depthsBelow, height, heightL]
    | node (c :: cs) => by
      obtain ⟨d, hd, e⟩ := L6bL (c :: cs) (List.cons_ne_nil _ _)
      simp only [depthsBelow, height, List.mem_cons, List.mem_map]
      exact Or.inr ⟨d, hd, e⟩
  /-- Forest version of `L6b`: in a non-empty forest some depth realises `heightL`. -/
  theorem L6bL : ∀ (cs : List T), cs ≠ [] → ∃ d ∈ depthsBelowL cs, d + 1 = heightL cs
    | [], h => absurd rfl h
    | c :: cs, _ => by
      simp only [heightL, depthsBelowL, List.mem_append]
      rcases le_total (heightL cs) (height c + 1) with h | h
      · exact ⟨height c, Or.inl (L6b c), (max_eq_left h).symm⟩
      · have hne : cs ≠ [] := by
          rintro rfl
          simp [heightL] at h
        obtain ⟨d, hd, e⟩ := L6bL cs hne
        exact ⟨d, Or.inr hd, by rw [max_eq_right h, e]⟩
end

/-- **L6 (a)+(b)**: `height t` is the greatest element of `depthsBelow t`, i.e. the maximal
relative depth of a node of `t` = number of edges on the longest downward path. -/
theorem L6_max (t : T) : IsGreatest {d | d ∈ depthsBelow t} (height t) :=
  ⟨L6b t, fun d hd => L6a t d hd⟩

/-- Same as `L6_max`, phrased with `List.maximum`. -/
theorem L6_maximum (t : T) : (depthsBelow t).maximum = (height t : WithBot Nat) := by
  apply le_antisymm
  · apply List.maximum_le_of_forall_le
    intro d hd
    exact WithBot.coe_le_coe.2 (L6a t d hd)
  · exact List.le_maximum_of_mem' (L6b t)

/-! ## L6 (c) : uniqueness of the recursive characterisation -/

mutual
  /-- Auxiliary statement for `L6c`, by structural recursion on the subtree `s`. -/
  theorem L6c_aux (t : T) (h : T → Nat)
      (hleaf : Sub (node []) t → h (node []) = 0)
      (hge : ∀ cs, Sub (node cs) t → ∀ c ∈ cs, h c + 1 ≤ h (node cs))
      (hex : ∀ cs, Sub (node cs) t → cs ≠ [] → ∃ c ∈ cs, h (node cs) = h c + 1) :
      ∀ s : T, Sub s t → h s = height s
    | node cs, hs => by
      have ih : ∀ c ∈ cs, h c = height c :=
        L6c_auxL t h hleaf hge hex cs (fun c hc => Sub.child hc hs)
      simp only [height]
      by_cases hcs : cs = []
      · subst hcs
        simpa [heightL] using hleaf hs
      · apply le_antisymm
        · obtain ⟨c, hc, e⟩ := hex cs hs hcs
          rw [e, ih c hc]
          exact height_succ_le_heightL hc
        · obtain ⟨c, hc, e⟩ := exists_heightL_eq hcs
          rw [e, ← ih c hc]
          exact hge cs hs c hc
  /-- Forest version of `L6c_aux`. -/
  theorem L6c_auxL (t : T) (h : T → Nat)
      (hleaf : Sub (node []) t → h (node []) = 0)
      (hge : ∀ cs, Sub (node cs) t → ∀ c ∈ cs, h c + 1 ≤ h (node cs))
      (hex : ∀ cs, Sub (node cs) t → cs ≠ [] → ∃ c ∈ cs, h (node cs) = h c + 1) :
      ∀ cs : List T, (∀ c ∈ cs, Sub c t) → ∀ c ∈ cs, h c = height c
    | [], _, c, hc => by cases hc
    | c' :: cs, hsub, c, hc => by
      rcases List.mem_cons.1 hc with e | hc'
      · rw [e]
        exact L6c_aux t h hleaf hge hex c' (hsub c' List.mem_cons_self)
      · exact L6c_auxL t h hleaf hge hex cs
          (fun x hx => hsub x (List.mem_cons_of_mem _ hx)) c hc'
end

/-- **L6 (c)**: uniqueness of the recursive characterisation of `height`.
Let `h` be any function such that, on the subtrees of `t`:
(1) `h` of a leaf is `0` (only needed if a leaf occurs in `t`, which is always the case);
(2) `h n ≥ h c + 1` for every child `c` of a subtree `n`;
(3) every non-leaf subtree `n` has some child `c` with `h n = h c + 1`.
Then `h` coincides with `height` on every subtree of `t`. -/
theorem L6c (t : T) (h : T → Nat)
    (hleaf : Sub (node []) t → h (node []) = 0)
    (hge : ∀ cs, Sub (node cs) t → ∀ c ∈ cs, h c + 1 ≤ h (node cs))
    (hex : ∀ cs, Sub (node cs) t → cs ≠ [] → ∃ c ∈ cs, h (node cs) = h c + 1) :
    ∀ s : T, Sub s t → h s = height s :=
  L6c_aux t h hleaf hge hex

/-- `height` itself satisfies the three hypotheses of `L6c` (so the characterisation is
non-vacuous: `height` is *the* unique such function). -/
theorem height_satisfies_char :
    height (node []) = 0 ∧
    (∀ cs, ∀ c ∈ cs, height c + 1 ≤ height (node cs)) ∧
    (∀ cs, cs ≠ [] → ∃ c ∈ cs, height (node cs) = height c + 1) :=
  ⟨height_nil, fun _ _ hc => by simpa [height] using height_succ_le_heightL hc,
   fun cs hcs => by simpa [height] using exists_heightL_eq hcs⟩

end T
