#!/bin/bash
# type-checks every Lean lemma file; writes STATUS.json (file -> ok/failed, no sorry/axiom scan)
cd "$(dirname "$0")"
echo "{" > STATUS.json.tmp
first=1
for f in *.lean; do
  if grep -nE '\b(sorry|admit|native_decide)\b|^\s*axiom\b|^\s*unsafe\b' "$f" >/dev/null; then st="rejected: contains sorry/admit/axiom/native_decide/unsafe";
  elif timeout 900 lean "$f" > "$f.log" 2>&1 && ! grep -q "error" "$f.log"; then st="ok"; else st="failed"; fi
  [ $first = 1 ] || echo "," >> STATUS.json.tmp
  first=0
  printf ' "%s": "%s"' "$f" "$st" >> STATUS.json.tmp
  rm -f "$f.log"
done
echo "" >> STATUS.json.tmp; echo "}" >> STATUS.json.tmp
mv STATUS.json.tmp STATUS.json
cat STATUS.json
