#!/bin/bash
# type-checks every Lean lemma file (in parallel); writes STATUS.json (file -> ok/failed/rejected).
# A file is rejected without being checked when it mentions sorry/admit/native_decide or declares an axiom / unsafe.
cd "$(dirname "$0")"
check_one() {
  f="$1"
  if grep -nE '\b(sorry|admit|native_decide)\b|^\s*axiom\b|^\s*unsafe\b' "$f" >/dev/null; then st="rejected: contains sorry/admit/axiom/native_decide/unsafe";
  elif timeout 900 lean "$f" > "$f.log" 2>&1 && ! grep -q "error" "$f.log"; then st="ok"; else st="failed"; fi
  rm -f "$f.log"
  printf '%s' "$st" > "$f.status"
}
export -f check_one
ls *.lean | xargs -P 8 -I{} bash -c 'check_one {}'
echo "{" > STATUS.json.tmp
first=1
for f in *.lean; do
  [ $first = 1 ] || echo "," >> STATUS.json.tmp
  first=0
  printf ' "%s": "%s"' "$f" "$(cat "$f.status")" >> STATUS.json.tmp
  rm -f "$f.status"
done
echo "" >> STATUS.json.tmp; echo "}" >> STATUS.json.tmp
mv STATUS.json.tmp STATUS.json
cat STATUS.json
