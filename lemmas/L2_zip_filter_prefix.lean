import Mathlib.Data.List.Basic
import Mathlib.Tactic

/-!
# L2: filter-over-zip by equality is the common prefix

Python original: `tuple(si for si, ei in zip(start, end) if si is ei)`.
The statement is exactly the one given in the task (no weakening).
-/

namespace L2

variable {α : Type*} [DecidableEq α]

/-- **L2 (zip/filter = common prefix).**
Let `s t : List α`.  Assume that the set of positions (below `min s.length t.length`) at which
`s` and `t` hold equal elements is downward closed: whenever `s` and `t` agree at position `j`,
they also agree at every earlier position `i < j`.
Then keeping the first components of those pairs of `s.zip t` whose two components are equal
yields exactly a prefix `s.take k` of `s`, where `k ≤ min s.length t.length` is the length of the
common prefix: `s` and `t` agree at every position `i < k`, and if `k` is still a valid position
of both lists, they disagree at position `k`. -/
theorem zip_filter_prefix (s t : List α)
    (h : ∀ i j, i < j → j < min s.length t.length → s[j]? = t[j]? → s[i]? = t[i]?) :
    ∃ k, k ≤ min s.length t.length ∧
      ((s.zip t).filter (fun p => p.1 = p.2)).map Prod.fst = s.take k ∧
      (∀ i < k, s[i]? = t[i]?) ∧
      (k < min s.length t.length → s[k]? ≠ t[k]?) := by
  induction s generalizing t with
  | nil => exact ⟨0, by simp⟩
  | cons a s ih =>
    cases t with
    | nil => exact ⟨0, by simp⟩
    | cons b t =>
      -- the hypothesis transfers to the tails
      have h' : ∀ i j, i < j → j < min s.length t.length → s[j]? = t[j]? → s[i]? = t[i]? := by
        intro i j hij hj hEq
        have := h (i + 1) (j + 1) (by omega)
          (by simp only [List.length_cons]; omega) (by simpa using hEq)
        simpa using this
      obtain ⟨k, hk, hfilter, hagree, hdis⟩ := ih t h'
      by_cases hab : a = b
      · subst hab
        refine ⟨k + 1, by simp only [List.length_cons]; omega, ?_, ?_, ?_⟩
        · simp [hfilter]
        · intro i hi
          cases i with
          | zero => simp
          | succ i => simpa using hagree i (by omega)
        · intro hlt
          have := hdis (by simp only [List.length_cons] at hlt; omega)
          simpa using this
      · -- heads differ: by downward closure no later position can agree, so `k = 0`
        have hk0 : k = 0 := by
          by_contra hne
          have h0 : s[0]? = t[0]? := hagree 0 (by omega)
          have := h 0 1 (by omega) (by simp only [List.length_cons]; omega) (by simpa using h0)
          simp at this
          exact hab this
        subst hk0
        refine ⟨0, by omega, ?_, ?_, ?_⟩
        · simpa [List.filter_cons, hab] using hfilter
        · intro i hi; omega
        · intro _; simpa using hab

end L2
