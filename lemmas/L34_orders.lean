import Mathlib

/-!
# L3 / L4 : traversal orders of ordered rose trees

Model: `T α` = ordered rose tree, `node a cs` has label `a` and ordered children `cs`.

Design notes (definition of `levels`).
* `pre`, `post` are defined by (nested) structural recursion, mutually with their forest versions
  `preF`, `postF`.
* `levels` is defined *structurally*:  `levels (node a cs) = [a] :: levelsF cs` and
  `levelsF (t :: ts) = zipApp (levels t) (levelsF ts)`, where `zipApp` is the "long zip" that
  appends two lists of levels pointwise (keeping the tail of the longer one).  So level `k` of a
  forest is the concatenation, over the trees of the forest left to right, of their level `k`.
  This needs no termination argument and makes the permutation proofs short.
* To show that this really is the breadth-first specification of the task
  ("level (k+1) = concatenation, over the nodes of level k in order, of their children"), the file
  ALSO defines the queue-style `bfs : List (T α) → List (List α)` by well-founded recursion on the
  total size of the forest
      bfs []  = []
      bfs f   = f.map label :: bfs (f.flatMap children)        (f ≠ [])
  and proves `levels t = bfs [t]` and `levelsF ts = bfs ts` (`levels_eq_bfs`, `levelsF_eq_bfs`).
* `zigzag t` reverses the levels of odd index (1,3,5,..); it is defined with a Boolean flag
  (`zz`), and `zigzag_eq_mapIdx` shows it equals the `mapIdx` formulation.

Everything asked in TASK.txt (required and desired parts) is proved; nothing is missing.
Main theorems:
  L3 : `pre_perm_post`, `levelOrder_perm_pre`, `levelOrder_perm_post`, `L3`, `L3_nodup`, `L3_mem`
  L4 : `levels_flatten`, `zigzag_length`, `zigzag_getElem`, `zigzag_flatten_perm`, `L4`
  spec: `bfs_eq`, `levels_eq_bfs`, `levelsF_eq_bfs`
-/

universe u

namespace L34

/-- Ordered rose trees with labels in `α`. -/
inductive T (α : Type u) : Type u
  | node : α → List (T α) → T α

variable {α : Type u}

/-- label of the root -/
def label : T α → α
  | .node a _ => a

/-- ordered children of the root -/
def children : T α → List (T α)
  | .node _ cs => cs

mutual
/-- pre-order: node first, then the children's subtrees left to right -/
def pre : T α → List α
  | .node a cs => a :: preF cs
/-- pre-order of a forest -/
def preF : List (T α) → List α
  | [] => []
  | t :: ts => pre t ++ preF ts
end

mutual
/-- post-order: the children's subtrees left to right, then the node -/
def post : T α → List α
  | .node a cs => postF cs ++ [a]
/-- post-order of a forest -/
def postF : List (T α) → List α
  | [] => []
  | t :: ts => post t ++ postF ts
end

/-- pointwise append of two lists of levels, keeping the tail of the longer one -/
def zipApp : List (List α) → List (List α) → List (List α)
  | [], ys => ys
  | x :: xs, [] => x :: xs
  | x :: xs, y :: ys => (x ++ y) :: zipApp xs ys

mutual
/-- `levels t` : level `k` = labels of the nodes at depth `k`, parents' order then sibling order -/
def levels : T α → List (List α)
  | .node a cs => [a] :: levelsF cs
/-- levels of a forest: level `k` = concatenation of the level `k` of each tree, left to right -/
def levelsF : List (T α) → List (List α)
  | [] => []
  | t :: ts => zipApp (levels t) (levelsF ts)
end

/-- breadth-first (level) order -/
def levelOrder (t : T α) : List α := (levels t).flatten

/-- reverse every second list; the flag says whether the head is to be reversed -/
def zz : Bool → List (List α) → List (List α)
  | _, [] => []
  | b, l :: ls => (if b then l.reverse else l) :: zz (!b) ls

/-- zigzag order: levels with the lists of index 1,3,5,.. reversed -/
def zigzag (t : T α) : List (List α) := zz false (levels t)

/-! ### zipApp -/

@[simp] theorem zipApp_nil_left (ys : List (List α)) : zipApp [] ys = ys := by
  simp [zipApp]

@[simp] theorem zipApp_nil_right (xs : List (List α)) : zipApp xs [] = xs := by
  cases xs <;> simp [zipApp]

/-- flattening a pointwise-appended list of levels is a permutation of the two flattenings -/
theorem zipApp_flatten_perm :
    ∀ xs ys : List (List α), (zipApp xs ys).flatten.Perm (xs.flatten ++ ys.flatten)
  | [], ys => by simp
  | x :: xs, [] => by simp
  | x :: xs, y :: ys => by
      have ih := zipApp_flatten_perm xs ys
      simp only [zipApp, List.flatten_cons, List.append_assoc]
      refine List.Perm.append_left x ?_
      -- y ++ flatten (zipApp xs ys) ~ flatten xs ++ (y ++ flatten ys)
      refine ((List.Perm.append_left y ih).trans ?_)
      rw [← List.append_assoc, ← List.append_assoc]
      exact List.Perm.append_right _ List.perm_append_comm

/-! ### L3 -/

mutual
/-- **L3 (required part)**: the pre-order and the post-order listing of a tree are permutations
of each other. -/
theorem pre_perm_post : ∀ t : T α, (pre t).Perm (post t)
  | .node a cs => by
      have ih := preF_perm_postF cs
      simp only [pre, post]
      exact (List.Perm.cons a ih).trans (List.perm_append_singleton a (postF cs)).symm
/-- forest version of `pre_perm_post` -/
theorem preF_perm_postF : ∀ ts : List (T α), (preF ts).Perm (postF ts)
  | [] => by simp [preF, postF]
  | t :: ts => by
      simp only [preF, postF]
      exact (pre_perm_post t).append (preF_perm_postF ts)
end

mutual
/-- **L3**: the level-order listing of a tree is a permutation of its pre-order listing. -/
theorem levelOrder_perm_pre : ∀ t : T α, (levelOrder t).Perm (pre t)
  | .node a cs => by
      have ih := levelsF_flatten_perm_preF cs
      simp only [levelOrder, levels, pre, List.flatten_cons, List.singleton_append]
      exact List.Perm.cons a ih
/-- forest version of `levelOrder_perm_pre` -/
theorem levelsF_flatten_perm_preF : ∀ ts : List (T α), (levelsF ts).flatten.Perm (preF ts)
  | [] => by simp [levelsF, preF]
  | t :: ts => by
      simp only [levelsF, preF]
      exact (zipApp_flatten_perm _ _).trans
        ((levelOrder_perm_pre t).append (levelsF_flatten_perm_preF ts))
end

/-- **L3**: the level-order listing of a tree is a permutation of its post-order listing. -/
theorem levelOrder_perm_post (t : T α) : (levelOrder t).Perm (post t) :=
  (levelOrder_perm_pre t).trans (pre_perm_post t)

/-- **L3** (all three at once): pre-order, post-order and level-order are permutations of each
other. -/
theorem L3 (t : T α) :
    (pre t).Perm (post t) ∧ (pre t).Perm (levelOrder t) ∧ (post t).Perm (levelOrder t) :=
  ⟨pre_perm_post t, (levelOrder_perm_pre t).symm, (levelOrder_perm_post t).symm⟩

/-- **L3 corollary**: if the labels are pairwise distinct (`(pre t).Nodup`) then the post-order
and the level-order also list every node exactly once (no duplicates). -/
theorem L3_nodup (t : T α) (h : (pre t).Nodup) : (post t).Nodup ∧ (levelOrder t).Nodup :=
  ⟨(pre_perm_post t).nodup_iff.mp h, (levelOrder_perm_pre t).nodup_iff.mpr h⟩

/-- **L3 corollary**: the three orders enumerate the same set of labels (and, being permutations,
each label with the same multiplicity). -/
theorem L3_mem (t : T α) (a : α) :
    (a ∈ pre t ↔ a ∈ post t) ∧ (a ∈ pre t ↔ a ∈ levelOrder t) :=
  ⟨(pre_perm_post t).mem_iff, (levelOrder_perm_pre t).symm.mem_iff⟩

/-- **L3 corollary**: every label occurs the same number of times in the three orders. -/
theorem L3_count [DecidableEq α] (t : T α) (a : α) :
    (pre t).count a = (post t).count a ∧ (pre t).count a = (levelOrder t).count a :=
  ⟨(pre_perm_post t).count_eq a, ((levelOrder_perm_pre t).count_eq a).symm⟩

/-! ### L4 -/

/-- **L4**: flattening the levels gives the level order (true by definition). -/
theorem levels_flatten (t : T α) : (levels t).flatten = levelOrder t := rfl

@[simp] theorem zz_length : ∀ (b : Bool) (ls : List (List α)), (zz b ls).length = ls.length
  | _, [] => by simp [zz]
  | b, l :: ls => by simp [zz, zz_length (!b) ls]

/-- entry `k` of `zz b ls`: reversed iff `b` and `k` even, or `¬ b` and `k` odd -/
theorem zz_getElem : ∀ (b : Bool) (ls : List (List α)) (k : ℕ) (hk : k < (zz b ls).length),
    (zz b ls)[k] =
      if (k % 2 = 1) ≠ (b = true) then (ls[k]'(by simpa using hk)).reverse
      else ls[k]'(by simpa using hk)
  | _, [], k, hk => by simp [zz] at hk
  | b, l :: ls, 0, hk => by cases b <;> simp [zz]
  | b, l :: ls, k + 1, hk => by
      have hk' : k < (zz (!b) ls).length := by simpa [zz] using hk
      have ih := zz_getElem (!b) ls k hk'
      simp only [zz, List.getElem_cons_succ]
      rw [ih]
      have : ((k + 1) % 2 = 1) ↔ ¬ (k % 2 = 1) := by omega
      cases b <;> simp [this]

theorem zz_flatten_perm : ∀ (b : Bool) (ls : List (List α)), (zz b ls).flatten.Perm ls.flatten
  | _, [] => by simp [zz]
  | b, l :: ls => by
      simp only [zz, List.flatten_cons]
      refine List.Perm.append ?_ (zz_flatten_perm (!b) ls)
      cases b
      · simp
      · simp

/-- **L4**: the zigzag listing has as many levels as `levels t`. -/
theorem zigzag_length (t : T α) : (zigzag t).length = (levels t).length := zz_length _ _

/-- **L4**: level `k` of the zigzag listing is level `k` of `levels t`, reversed iff `k` is odd. -/
theorem zigzag_getElem (t : T α) (k : ℕ) (hk : k < (zigzag t).length) :
    (zigzag t)[k] =
      if k % 2 = 1 then ((levels t)[k]'(by simpa [zigzag] using hk)).reverse
      else (levels t)[k]'(by simpa [zigzag] using hk) := by
  have hk' : k < (zz false (levels t)).length := hk
  show (zz false (levels t))[k]'hk' = _
  rw [zz_getElem false (levels t) k hk']
  simp

/-- **L4**: each level of the zigzag listing is a permutation of the corresponding level (same
nodes per level). -/
theorem zigzag_getElem_perm (t : T α) (k : ℕ) (hk : k < (zigzag t).length) :
    ((zigzag t)[k]).Perm ((levels t)[k]'(by simpa [zigzag] using hk)) := by
  rw [zigzag_getElem t k hk]
  split
  · exact List.reverse_perm _
  · exact List.Perm.refl _

/-- **L4**: the flattened zigzag listing is a permutation of the level order. -/
theorem zigzag_flatten_perm (t : T α) : (zigzag t).flatten.Perm (levelOrder t) :=
  zz_flatten_perm false (levels t)

/-- the flag-based definition of zigzag agrees with the index-based one. -/
theorem zigzag_eq_mapIdx (t : T α) :
    zigzag t = (levels t).mapIdx (fun k l => if k % 2 = 1 then l.reverse else l) := by
  apply List.ext_getElem
  · simp [zigzag_length]
  · intro k h1 h2
    rw [zigzag_getElem t k h1]
    simp

/-- **L4** (all parts at once). -/
theorem L4 (t : T α) :
    (levels t).flatten = levelOrder t ∧
    ((zigzag t).map (fun l => l)).length = (levels t).length ∧
    (∀ (k : ℕ) (hk : k < (zigzag t).length),
      (zigzag t)[k] =
        if k % 2 = 1 then ((levels t)[k]'(by simpa [zigzag] using hk)).reverse
        else (levels t)[k]'(by simpa [zigzag] using hk)) ∧
    (zigzag t).flatten.Perm (levelOrder t) :=
  ⟨rfl, by simp [zigzag_length], zigzag_getElem t, zigzag_flatten_perm t⟩

/-! ### `levels` agrees with the queue-style breadth-first specification -/

mutual
/-- number of nodes of a tree -/
def size : T α → ℕ
  | .node _ cs => sizeF cs + 1
/-- number of nodes of a forest -/
def sizeF : List (T α) → ℕ
  | [] => 0
  | t :: ts => size t + sizeF ts
end

theorem sizeF_append : ∀ xs ys : List (T α), sizeF (xs ++ ys) = sizeF xs + sizeF ys
  | [], ys => by simp [sizeF]
  | x :: xs, ys => by simp [sizeF, sizeF_append xs ys, Nat.add_assoc]

theorem size_eq (t : T α) : size t = sizeF (children t) + 1 := by
  cases t; simp [size, children]

theorem sizeF_flatMap_children :
    ∀ xs : List (T α), sizeF (xs.flatMap children) + xs.length = sizeF xs
  | [] => by simp [sizeF]
  | x :: xs => by
      have ih := sizeF_flatMap_children xs
      simp only [List.flatMap_cons, sizeF_append, sizeF, List.length_cons, size_eq x]
      omega

/-- queue-style breadth-first levels of a forest: the labels of the current forest, then the
levels of the forest made of all children (in order). -/
def bfs : List (T α) → List (List α)
  | [] => []
  | t :: ts => ((t :: ts).map label) :: bfs ((t :: ts).flatMap children)
termination_by f => sizeF f
decreasing_by
  have := sizeF_flatMap_children (t :: ts)
  simp only [List.length_cons] at this
  omega

/-- defining equation of `bfs`: level 0 = labels of the forest; the following levels are the
levels of the forest of all children, i.e. level (k+1) is the concatenation, over the nodes of
level k in order, of their children. -/
theorem bfs_eq (f : List (T α)) (h : f ≠ []) :
    bfs f = f.map label :: bfs (f.flatMap children) := by
  cases f with
  | nil => exact absurd rfl h
  | cons t ts => rw [bfs]

@[simp] theorem bfs_nil : bfs ([] : List (T α)) = [] := by rw [bfs]

theorem bfs_append_aux : ∀ (n : ℕ) (xs ys : List (T α)), sizeF xs + sizeF ys ≤ n →
    bfs (xs ++ ys) = zipApp (bfs xs) (bfs ys)
  | n, [], ys, _ => by simp
  | n, x :: xs, [], _ => by simp
  | 0, x :: xs, y :: ys, h => by
      simp only [sizeF, size_eq x] at h; omega
  | n + 1, x :: xs, y :: ys, h => by
      have h1 := sizeF_flatMap_children (x :: xs)
      have h2 := sizeF_flatMap_children (y :: ys)
      simp only [List.length_cons] at h1 h2
      have ih := bfs_append_aux n ((x :: xs).flatMap children) ((y :: ys).flatMap children)
        (by omega)
      rw [bfs_eq (x :: xs) (by simp), bfs_eq (y :: ys) (by simp),
        bfs_eq (x :: xs ++ y :: ys) (by simp)]
      simp only [zipApp, List.map_append, List.flatMap_append, ih]

/-- `bfs` of a concatenated forest is the pointwise append of the two `bfs`. -/
theorem bfs_append (xs ys : List (T α)) : bfs (xs ++ ys) = zipApp (bfs xs) (bfs ys) :=
  bfs_append_aux _ xs ys (le_refl _)

mutual
/-- the structural `levels` coincides with the queue-style breadth-first levels. -/
theorem levels_eq_bfs : ∀ t : T α, levels t = bfs [t]
  | .node a cs => by
      rw [bfs_eq _ (by simp)]
      simp [levels, label, children, levelsF_eq_bfs cs]
/-- forest version of `levels_eq_bfs`. -/
theorem levelsF_eq_bfs : ∀ ts : List (T α), levelsF ts = bfs ts
  | [] => by simp [levelsF]
  | t :: ts => by
      have := bfs_append [t] ts
      simp only [List.singleton_append] at this
      rw [this, levelsF, levels_eq_bfs t, levelsF_eq_bfs ts]
end

/-- unfolding of `levels` in specification form: level 0 is the root label, and the deeper levels
are obtained by repeatedly replacing the current forest by the forest of all its children. -/
theorem levels_node (a : α) (cs : List (T α)) : levels (.node a cs) = [a] :: bfs cs := by
  simp [levels, levelsF_eq_bfs]

end L34
