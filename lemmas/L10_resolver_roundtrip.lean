import Mathlib

/-!
# L10 : resolver round trip in an abstract tree

Abstract model of path resolution in a tree of named nodes.

* `NamedTree N` : nodes `N` with `parent`, `children`, `name`, `depth` and the well-formedness
  conditions of the task (children/parent agreement, duplicate-free child lists, unique sibling
  names, no name among `""`, `"."`, `".."`, well-founded parent relation witnessed by `depth`).
* `step`  : one path component (`".."` ↦ parent, `""`/`"."` ↦ stay, other ↦ first child so named).
* `get`   : fold of `step` over a list of components, `none` absorbing.
* `anc k n` : the `k`-th ancestor of `n`, if it exists.
* chains are lists `c₀ :: l` with `List.IsChain (fun a b => b ∈ children a)`; the endpoint of the
  chain is `(c₀ :: l).getLast _`, and `[name c₁, …, name c_m]` is `l.map name`.

Proved (all statements of the task, nothing weakened):
`get_down` (down), `get_up` (up), `get_walk` (walk), `get_abs` (abs),
plus the supporting facts `get_append`, `step_name`, and the existence results
`exists_root_chain` / `exists_abs_path` (every node has an absolute path that resolves to it,
this is where well-foundedness via `depth` is used).
-/

/-- A tree of named nodes with the well-formedness conditions of the task. -/
structure NamedTree (N : Type) where
  parent : N → Option N
  children : N → List N
  name : N → String
  depth : N → Nat
  /-- `children` and `parent` agree. -/
  mem_children : ∀ c p, c ∈ children p ↔ parent c = some p
  /-- child lists have no duplicates -/
  nodup_children : ∀ p, (children p).Nodup
  /-- sibling names are unique -/
  name_inj : ∀ p c₁ c₂, c₁ ∈ children p → c₂ ∈ children p → name c₁ = name c₂ → c₁ = c₂
  /-- no node is named `""`, `"."` or `".."` -/
  name_ne_empty : ∀ n, name n ≠ ""
  name_ne_dot : ∀ n, name n ≠ "."
  name_ne_dotdot : ∀ n, name n ≠ ".."
  /-- well-foundedness of the parent relation, witnessed by a depth function -/
  depth_child : ∀ c p, parent c = some p → depth c = depth p + 1
  depth_root : ∀ r, parent r = none → depth r = 0

namespace NamedTree

variable {N : Type} (T : NamedTree N)

/-- The child relation used for chains: `b` is a child of `a`. -/
def IsChildOf (a b : N) : Prop := b ∈ T.children a

/-- One path component. -/
def step (n : N) (s : String) : Option N :=
  if s = ".." then T.parent n
  else if s = "" ∨ s = "." then some n
  else (T.children n).find? (fun c => decide (T.name c = s))

/-- Resolve a list of components starting at `n`; `none` is absorbing. -/
def get : N → List String → Option N
  | n, [] => some n
  | n, s :: rest => (T.step n s).bind (fun m => get m rest)

/-- `get` is exactly the monadic left fold of `step` (so the definition above is "fold step"). -/
theorem get_eq_foldlM (n : N) (comps : List String) :
    T.get n comps = comps.foldlM T.step n := by
  induction comps generalizing n with
  | nil => rfl
  | cons s rest ih =>
    simp only [get, List.foldlM_cons]
    cases h : T.step n s with
    | none => rfl
    | some m => simpa using ih m

/-- The `k`-th ancestor of `n`, if it exists. -/
def anc : Nat → N → Option N
  | 0, n => some n
  | k + 1, n => (T.parent n).bind (anc k)

/-- Resolving a concatenated path is resolving the first part and then the second. -/
theorem get_append (n : N) (l₁ l₂ : List String) :
    T.get n (l₁ ++ l₂) = (T.get n l₁).bind (fun m => T.get m l₂) := by
  induction l₁ generalizing n with
  | nil => simp [get]
  | cons s rest ih =>
    simp only [List.cons_append, get]
    cases h : T.step n s with
    | none => rfl
    | some m => simpa using ih m

/-- Stepping from `n` by the name of one of its children `c` yields exactly `c`. -/
theorem step_name {n c : N} (hc : c ∈ T.children n) : T.step n (T.name c) = some c := by
  unfold step
  rw [if_neg (T.name_ne_dotdot c)]
  rw [if_neg (by
    rintro (h | h)
    · exact T.name_ne_empty c h
    · exact T.name_ne_dot c h)]
  cases h : (T.children n).find? (fun d => decide (T.name d = T.name c)) with
  | none =>
    have := List.find?_eq_none.mp h c hc
    simp at this
  | some d =>
    have hd : T.name d = T.name c := by simpa using List.find?_some h
    have hmem : d ∈ T.children n := List.mem_of_find?_eq_some h
    rw [T.name_inj n d c hmem hc hd]

/-- Stepping by `".."` is taking the parent. -/
theorem step_dotdot (n : N) : T.step n ".." = T.parent n := by
  simp [step]

/-- **(down)** If `n = c₀, c₁, …, c_m` is a chain of children (`c_{k+1} ∈ children c_k`), then
resolving `[name c₁, …, name c_m]` from `n` reaches `c_m`, the last node of the chain. -/
theorem get_down (n : N) (l : List N) (h : List.IsChain T.IsChildOf (n :: l)) :
    T.get n (l.map T.name) = some ((n :: l).getLast (List.cons_ne_nil _ _)) := by
  induction l generalizing n with
  | nil => simp [get]
  | cons c rest ih =>
    rw [List.isChain_cons_cons] at h
    obtain ⟨hc, hrest⟩ := h
    simp only [List.map_cons, get]
    rw [T.step_name hc]
    simpa using ih c hrest

/-- **(up)** Resolving `k` copies of `".."` from `n` gives the `k`-th ancestor of `n`
(and fails exactly when that ancestor does not exist). -/
theorem get_up (n : N) (k : Nat) : T.get n (List.replicate k "..") = T.anc k n := by
  induction k generalizing n with
  | zero => simp [get, anc]
  | succ k ih =>
    simp only [List.replicate_succ, get, anc, step_dotdot]
    cases h : T.parent n with
    | none => rfl
    | some p => simpa using ih p

/-- **(walk)** Let `c` be a common ancestor-or-self of `a` and `b`: `c` is the `j`-th ancestor of
`a`, and `c = d₀, d₁, …, d_m = b` is a chain of children. Then the Walker-spelled relative path
`".." × j ++ [name d₁, …, name d_m]` resolved from `a` reaches `b`. -/
theorem get_walk (a c : N) (j : Nat) (l : List N) (hup : T.anc j a = some c)
    (hdown : List.IsChain T.IsChildOf (c :: l)) :
    T.get a (List.replicate j ".." ++ l.map T.name)
      = some ((c :: l).getLast (List.cons_ne_nil _ _)) := by
  rw [get_append, get_up, hup]
  simpa using T.get_down c l hdown

/-- **(abs)** From the root `r` of `b` (reached by the chain `r = d₀, …, d_m = b`), the absolute
path `[name d₁, …, name d_m]` (what remains after the root component) resolves to `b`. -/
theorem get_abs (r : N) (l : List N) (_hr : T.parent r = none)
    (h : List.IsChain T.IsChildOf (r :: l)) :
    T.get r (l.map T.name) = some ((r :: l).getLast (List.cons_ne_nil _ _)) :=
  T.get_down r l h

/-- Every node `b` is the endpoint of a child chain starting at a root (uses well-foundedness of
the parent relation through `depth`). -/
theorem exists_root_chain (b : N) :
    ∃ (r : N) (l : List N), T.parent r = none ∧ List.IsChain T.IsChildOf (r :: l) ∧
      (r :: l).getLast (List.cons_ne_nil _ _) = b := by
  induction hd : T.depth b generalizing b with
  | zero =>
    cases hp : T.parent b with
    | none => exact ⟨b, [], hp, by simp, by simp⟩
    | some p =>
      have := T.depth_child b p hp
      omega
  | succ d ih =>
    cases hp : T.parent b with
    | none =>
      have := T.depth_root b hp
      omega
    | some p =>
      have hdp := T.depth_child b p hp
      obtain ⟨r, l, hr, hch, hlast⟩ := ih p (by omega)
      refine ⟨r, l ++ [b], hr, ?_, ?_⟩
      · have : r :: (l ++ [b]) = (r :: l) ++ [b] := rfl
        rw [this, List.isChain_append]
        refine ⟨hch, by simp, ?_⟩
        intro x hx y hy
        have hx' : x = p := by
          rw [List.getLast?_eq_some_getLast (List.cons_ne_nil _ _)] at hx
          simp only [Option.mem_def, Option.some.injEq] at hx
          rw [← hx, hlast]
        have hy' : y = b := by simpa using hy.symm
        subst hx' hy'
        exact (T.mem_children _ _).mpr hp
      · simp

/-- Every node has an absolute path (a root plus a list of names) that resolves to it. -/
theorem exists_abs_path (b : N) :
    ∃ (r : N) (comps : List String), T.parent r = none ∧ T.get r comps = some b := by
  obtain ⟨r, l, hr, hch, hlast⟩ := T.exists_root_chain b
  exact ⟨r, l.map T.name, hr, by rw [T.get_abs r l hr hch, hlast]⟩

end NamedTree
