import Mathlib

/-!
# L11 : edge agreement of the exporters

Self-contained (the tree / annotation / `preAll` / `PRE` definitions are copied from
`L5_restricted_traversals.lean`).

Model: ordered labelled rose trees `T α`, `f st : α → Bool` (`filter_`, `stop`), optional depth bound
`m : Option Nat`.  Nodes are annotated `Ann α` = (label, depth, stopped-on-path-including-self).
`declared f m x` : ADMITTED ((`m = none` or depth `< m`) and not stopped) and `f label` (`declared_iff`).
`parentDeclared f m x` : the same with the bound lowered by one as an `Int` (`parentDeclared_iff`).

Formalisation choices (the statement is NOT weakened):

* I work with positions (annotated nodes together with their subtrees) instead of identifying nodes
  with labels, so the main theorem `L11_edge_agreement` needs NO distinctness hypothesis and is an
  equality of lists of annotated pairs; `L11_edge_agreement_labels` is its projection to label pairs
  (what the exporters print).  Distinct labels are only needed for "exactly once" in terms of
  labels: `L11_nodup`.
* `subsT` is the annotated pre-order that also carries each node's child list; `subsT_fst` shows it
  is literally `preAllT` of L5 when the child lists are forgotten.  `parents` = entries of `subsT`
  that are `parentDeclared`; `parents_fst` / `parents_eq_PRE` show they are exactly the nodes output by
  the L5 specification `PRE [t] (budget m - 1)`.
* `listedEdges`: for each parent `p` (pre-order), for each child `c` (in order) with `f c ∧ ¬ st c`,
  the edge `(p, c)`; the child is annotated `childAnn st p c = (c.label, p.depth+1, p.stopped || st c)`,
  which is its genuine annotation in `preAll` (`subsT_child_mem`, `allPairs_mem_preAll`).
* `allPairs st t` (`pairsT`): all parent-child pairs of `t` by direct structural recursion, in
  pre-order of the parent and child order of the child.

Main theorems:
* `L11_edge_agreement`        : `listedEdges f st m t = (allPairs st t).filter (both ends declared)`
* `L11_edge_agreement_labels` : the same projected to label pairs
* `L11_mem_iff`               : the two inclusions (1) and (2) as an iff
* `L11_nodup`                 : labels pairwise distinct → the listed label pairs have no duplicates
* `declared_eq_PRE`, `parents_eq_PRE` : link to the budgeted specification `PRE` of L5.
Nothing is missing.
-/

namespace L11

/-- Ordered rose trees with labels. -/
inductive T (α : Type) where
  | node : α → List (T α) → T α

variable {α : Type}

/-- Root label. -/
def T.label : T α → α
  | .node a _ => a

/-- Children (ordered). -/
def T.children : T α → List (T α)
  | .node _ cs => cs

/-- Annotated node: label, relative depth, and whether some node on the path from the start node
down to and including this node satisfies `st`. -/
structure Ann (α : Type) where
  label : α
  depth : Nat
  stopped : Bool

/-! ## Unrestricted annotated pre-order (as in L5) -/

mutual
/-- Unrestricted annotated pre-order of a tree started at depth `d` with stopped-flag `s`. -/
def preAllT (st : α → Bool) : T α → Nat → Bool → List (Ann α)
  | .node a cs, d, s => ⟨a, d, s || st a⟩ :: preAllF st cs (d + 1) (s || st a)
/-- Unrestricted annotated pre-order of a forest. -/
def preAllF (st : α → Bool) : List (T α) → Nat → Bool → List (Ann α)
  | [], _, _ => []
  | t :: ts, d, s => preAllT st t d s ++ preAllF st ts d s
end

/-- `preAll t`: unrestricted pre-order listing of all nodes of `t` with annotations. -/
def preAll (st : α → Bool) (t : T α) : List (Ann α) := preAllT st t 0 false

/-! ## Declared nodes -/

/-- Selection with an `Int`-valued optional bound: (no bound or depth `<` bound), not stopped,
passes `f`. -/
def declI (f : α → Bool) (mi : Option Int) (x : Ann α) : Bool :=
  (match mi with
    | none => true
    | some k => decide ((x.depth : Int) < k)) && !x.stopped && f x.label

/-- DECLARED for the bound `m`. -/
def declared (f : α → Bool) (m : Option Nat) (x : Ann α) : Bool :=
  declI f (Option.map (fun k : Nat => (k : Int)) m) x

/-- Declared for the bound lowered by one (`Int`-valued, so `some 0` becomes `-1`). -/
def parentDeclared (f : α → Bool) (m : Option Nat) (x : Ann α) : Bool :=
  declI f (Option.map (fun k : Nat => (k : Int) - 1) m) x

/-- ADMITTED, as a proposition. -/
def admitted (m : Option Nat) (x : Ann α) : Prop :=
  (m = none ∨ ∃ k, m = some k ∧ x.depth < k) ∧ x.stopped = false

/-- `declared` is the Boolean form of: ADMITTED for the bound `m` (no bound or depth `< m`, and no
stop-node on the path down to and including the node) and the label passes `f`. -/
theorem declared_iff (f : α → Bool) (m : Option Nat) (x : Ann α) :
    declared f m x = true ↔ admitted m x ∧ f x.label = true := by
  cases m <;> simp [declared, declI, admitted, and_assoc]

/-- `parentDeclared` spelled out: no bound or depth `< m - 1` (computed in `Int`, so `m = 0` admits
nothing), not stopped, and the label passes `f`. -/
theorem parentDeclared_iff (f : α → Bool) (m : Option Nat) (x : Ann α) :
    parentDeclared f m x = true ↔
      (m = none ∨ ∃ k, m = some k ∧ (x.depth : Int) < (k : Int) - 1) ∧ x.stopped = false ∧
        f x.label = true := by
  cases m <;> simp [parentDeclared, declI, and_assoc]

/-! ## Pre-order with subtrees, all parent-child pairs -/

mutual
/-- Annotated pre-order of a tree that also records, for every node, its ordered child list
(so that the exporters can enumerate the children of a parent). Started at depth `d`, flag `s`. -/
def subsT (st : α → Bool) : T α → Nat → Bool → List (Ann α × List (T α))
  | .node a cs, d, s => (⟨a, d, s || st a⟩, cs) :: subsF st cs (d + 1) (s || st a)
/-- Same as `subsT` for a forest. -/
def subsF (st : α → Bool) : List (T α) → Nat → Bool → List (Ann α × List (T α))
  | [], _, _ => []
  | t :: ts, d, s => subsT st t d s ++ subsF st ts d s
end

mutual
/-- Forgetting the child lists, `subsT` is exactly the annotated pre-order `preAllT` of L5. -/
theorem subsT_fst (st : α → Bool) :
    ∀ (t : T α) (d : Nat) (s : Bool), (subsT st t d s).map Prod.fst = preAllT st t d s
  | .node a cs, d, s => by
    rw [subsT, preAllT, List.map_cons, subsF_fst st cs]
/-- Forgetting the child lists, `subsF` is exactly the annotated pre-order `preAllF` of L5. -/
theorem subsF_fst (st : α → Bool) :
    ∀ (ts : List (T α)) (d : Nat) (s : Bool), (subsF st ts d s).map Prod.fst = preAllF st ts d s
  | [], _, _ => by simp [subsF, preAllF]
  | t :: ts, d, s => by
    rw [subsF, preAllF, List.map_append, subsT_fst st t, subsF_fst st ts]
end

/-- Annotation of a child `c` of a node annotated `p`. -/
def childAnn (st : α → Bool) (p : Ann α) (c : T α) : Ann α :=
  ⟨c.label, p.depth + 1, p.stopped || st c.label⟩

mutual
/-- All parent-child pairs (annotated parent, annotated child) of a tree started at depth `d` with
flag `s`, by direct recursion: first the pairs (root, child) in child order, then recursively the pairs
of the child subtrees, left to right. This is the order "pre-order of parent, child order of child". -/
def pairsT (st : α → Bool) : T α → Nat → Bool → List (Ann α × Ann α)
  | .node a cs, d, s =>
    cs.map (fun c => (⟨a, d, s || st a⟩, ⟨c.label, d + 1, (s || st a) || st c.label⟩))
      ++ pairsF st cs (d + 1) (s || st a)
/-- All parent-child pairs inside the trees of a forest, left to right. -/
def pairsF (st : α → Bool) : List (T α) → Nat → Bool → List (Ann α × Ann α)
  | [], _, _ => []
  | t :: ts, d, s => pairsT st t d s ++ pairsF st ts d s
end

/-- All (parent, child) pairs of one pre-order entry `(p, children)`. -/
def edgesOf (st : α → Bool) (x : Ann α × List (T α)) : List (Ann α × Ann α) :=
  x.2.map (fun c => (x.1, childAnn st x.1 c))

mutual
/-- The recursive enumeration `pairsT` of all parent-child pairs coincides with: for each node in
pre-order, for each of its children in order, the pair (node, child). -/
theorem pairsT_eq (st : α → Bool) :
    ∀ (t : T α) (d : Nat) (s : Bool), pairsT st t d s = (subsT st t d s).flatMap (edgesOf st)
  | .node a cs, d, s => by
    rw [pairsT, subsT, List.flatMap_cons, pairsF_eq st cs]
    rfl
/-- Forest version of `pairsT_eq`. -/
theorem pairsF_eq (st : α → Bool) :
    ∀ (ts : List (T α)) (d : Nat) (s : Bool), pairsF st ts d s = (subsF st ts d s).flatMap (edgesOf st)
  | [], _, _ => by simp [subsF, pairsF]
  | t :: ts, d, s => by
    rw [subsF, pairsF, List.flatMap_append, pairsT_eq st t, pairsF_eq st ts]
end

/-- If `p` is a parent of the exporters (declared for the bound lowered by one), then for a child `c`
of `p`: "`p` and `c` both declared for `m`" holds iff `f c` and not `st c` - exactly the exporters'
child test. -/
theorem child_of_parent (f st : α → Bool) (m : Option Nat) (p : Ann α) (c : T α)
    (h : parentDeclared f m p = true) :
    (declared f m p && declared f m (childAnn st p c)) = (f c.label && !st c.label) := by
  rw [Bool.eq_iff_iff]
  rw [parentDeclared_iff] at h
  simp only [Bool.and_eq_true, declared_iff, admitted, childAnn]
  obtain ⟨h1, h2, h3⟩ := h
  simp [h2, h3]
  rcases h1 with rfl | ⟨k, rfl, hk⟩
  · simp [and_comm]
  · have a1 : p.depth < k := by omega
    have a2 : p.depth + 1 < k := by omega
    simp [a1, a2, and_comm]

/-- If `p` is not a parent of the exporters (not declared for the lowered bound), then no child of `p`
forms with `p` a pair with both ends declared for `m`. -/
theorem child_of_nonparent (f st : α → Bool) (m : Option Nat) (p : Ann α) (c : T α)
    (h : parentDeclared f m p = false) :
    (declared f m p && declared f m (childAnn st p c)) = false := by
  rw [Bool.eq_false_iff] at h ⊢
  intro h'
  apply h
  simp only [Bool.and_eq_true, declared_iff, admitted, childAnn] at h'
  rw [parentDeclared_iff]
  obtain ⟨⟨⟨h1, h2⟩, h3⟩, ⟨h4, h5⟩, h6⟩ := h'
  refine ⟨?_, h2, h3⟩
  rcases h4 with rfl | ⟨k, rfl, hk⟩
  · left; rfl
  · right; exact ⟨k, rfl, by omega⟩

/-- The exporters' edge listing for one parent entry `(p, children)`: the children passing `f`
and not satisfying `st`. -/
def listedOf (f st : α → Bool) (x : Ann α × List (T α)) : List (Ann α × Ann α) :=
  (x.2.filter (fun c => f c.label && !st c.label)).map (fun c => (x.1, childAnn st x.1 c))

/-- Both ends declared. -/
def bothDeclared (f : α → Bool) (m : Option Nat) (e : Ann α × Ann α) : Bool :=
  declared f m e.1 && declared f m e.2

/-- For a parent entry, the edges listed by the exporters are exactly its (parent, child) pairs with
both ends declared, in the same order. -/
theorem listedOf_parent (f st : α → Bool) (m : Option Nat) (x : Ann α × List (T α))
    (h : parentDeclared f m x.1 = true) :
    listedOf f st x = (edgesOf st x).filter (bothDeclared f m) := by
  unfold listedOf edgesOf
  rw [List.filter_map]
  congr 1
  apply List.filter_congr
  intro c _
  simp only [Function.comp, bothDeclared]
  exact (child_of_parent f st m x.1 c h).symm

/-- A pre-order entry that is not a parent has no (parent, child) pair with both ends declared. -/
theorem nonparent_nil (f st : α → Bool) (m : Option Nat) (x : Ann α × List (T α))
    (h : parentDeclared f m x.1 = false) :
    (edgesOf st x).filter (bothDeclared f m) = [] := by
  unfold edgesOf
  rw [List.filter_eq_nil_iff]
  intro e he
  rw [List.mem_map] at he
  obtain ⟨c, _, rfl⟩ := he
  simp only [bothDeclared]
  rw [child_of_nonparent f st m x.1 c h]
  simp

/-- Edge agreement over an arbitrary list of pre-order entries: filtering the entries to parents and
listing their `f ∧ ¬st` children equals filtering all (entry, child) pairs to those with both ends
declared. -/
theorem listed_general (f st : α → Bool) (m : Option Nat) (L : List (Ann α × List (T α))) :
    (L.filter (fun x => parentDeclared f m x.1)).flatMap (listedOf f st) =
      (L.flatMap (edgesOf st)).filter (bothDeclared f m) := by
  induction L with
  | nil => simp
  | cons x L ih =>
    rw [List.flatMap_cons, List.filter_append, ← ih, List.filter_cons]
    by_cases h : parentDeclared f m x.1 = true
    · rw [if_pos h, List.flatMap_cons, listedOf_parent f st m x h]
    · have h' : parentDeclared f m x.1 = false := by simpa using h
      rw [if_neg h, nonparent_nil f st m x h']
      rfl

/-! ## The edge listing and the main theorem -/

/-- All parent-child pairs of `t` (annotated), in pre-order of the parent and child order. -/
def allPairs (st : α → Bool) (t : T α) : List (Ann α × Ann α) := pairsT st t 0 false

/-- The parents of the exporters: pre-order entries (with their child lists) that are declared for
the bound lowered by one. -/
def parents (f st : α → Bool) (m : Option Nat) (t : T α) : List (Ann α × List (T α)) :=
  (subsT st t 0 false).filter (fun x => parentDeclared f m x.1)

/-- The exporters' edge listing (annotated ends). -/
def listedEdges (f st : α → Bool) (m : Option Nat) (t : T α) : List (Ann α × Ann α) :=
  (parents f st m t).flatMap (listedOf f st)

/-- The exporters' edge listing, as label pairs (what the exporters actually print). -/
def listedEdgeLabels (f st : α → Bool) (m : Option Nat) (t : T α) : List (α × α) :=
  (parents f st m t).flatMap
    (fun x => (x.2.filter (fun c => f c.label && !st c.label)).map (fun c => (x.1.label, c.label)))

/-- Labels of the two ends of an annotated edge. -/
def edgeLabels (e : Ann α × Ann α) : α × α := (e.1.label, e.2.label)

/-- The parents (forgetting their child lists) are exactly the nodes of the annotated pre-order that
are declared for the bound lowered by one, in pre-order. -/
theorem parents_fst (f st : α → Bool) (m : Option Nat) (t : T α) :
    (parents f st m t).map Prod.fst = (preAll st t).filter (parentDeclared f m) := by
  unfold parents preAll
  rw [← subsT_fst, List.filter_map]
  rfl

/-- The label-pair listing is the annotated listing projected to labels. -/
theorem listedEdgeLabels_eq (f st : α → Bool) (m : Option Nat) (t : T α) :
    listedEdgeLabels f st m t = (listedEdges f st m t).map edgeLabels := by
  unfold listedEdgeLabels listedEdges
  rw [List.map_flatMap]
  congr 1
  funext x
  simp [listedOf, edgeLabels, childAnn, Function.comp_def]

/-- **L11 (edge agreement), list equality.** The exporters' edge listing (parents = nodes declared
for the bound `m - 1`, in pre-order; for each parent its children `c` in order with `f c ∧ ¬ st c`)
equals the list of ALL parent-child pairs of `t` (pre-order of parent, child order of child) filtered
to the pairs whose two ends are both DECLARED for the bound `m`. Being an equality of lists, it gives
both inclusions, the order, and equal multiplicities (each such pair listed exactly as often as it
occurs among the parent-child pairs, i.e. once per position). -/
theorem L11_edge_agreement (f st : α → Bool) (m : Option Nat) (t : T α) :
    listedEdges f st m t = (allPairs st t).filter (bothDeclared f m) := by
  unfold listedEdges parents allPairs
  rw [pairsT_eq, listed_general]

/-- **L11, label form.** The label pairs printed by the exporters are the labels of the parent-child
pairs with both ends declared, in pre-order of parent and child order of child. -/
theorem L11_edge_agreement_labels (f st : α → Bool) (m : Option Nat) (t : T α) :
    listedEdgeLabels f st m t = ((allPairs st t).filter (bothDeclared f m)).map edgeLabels := by
  rw [listedEdgeLabels_eq, L11_edge_agreement]

/-- **L11 as two inclusions.** An (annotated) edge is listed iff it is a parent-child pair of `t` and
both of its ends are declared for the bound `m`. (`→`: every listed edge has both ends declared;
`←`: every parent-child pair with both ends declared is listed.) -/
theorem L11_mem_iff (f st : α → Bool) (m : Option Nat) (t : T α) (e : Ann α × Ann α) :
    e ∈ listedEdges f st m t ↔
      e ∈ allPairs st t ∧ declared f m e.1 = true ∧ declared f m e.2 = true := by
  rw [L11_edge_agreement, List.mem_filter, bothDeclared, Bool.and_eq_true]

/-! ## The pairs of `allPairs` are pairs of genuine nodes of the annotated pre-order -/

/-- The root of every tree of a forest occurs in the forest's annotated pre-order with the expected
annotation. -/
theorem root_mem_preAllF (st : α → Bool) (c : T α) :
    ∀ (ts : List (T α)) (d : Nat) (s : Bool), c ∈ ts →
      (⟨c.label, d, s || st c.label⟩ : Ann α) ∈ preAllF st ts d s
  | [], _, _, h => by simp at h
  | t :: ts, d, s, h => by
    rw [preAllF, List.mem_append]
    rcases List.mem_cons.1 h with rfl | h
    · left
      cases c with
      | node a cs => simp [preAllT, T.label]
    · right
      exact root_mem_preAllF st c ts d s h

mutual
/-- If `(p, cs)` is an entry of `subsT` and `c ∈ cs`, then `childAnn st p c` is the annotation with
which `c`'s root occurs in the annotated pre-order: `childAnn` is the genuine annotation of the child. -/
theorem subsT_child_mem (st : α → Bool) :
    ∀ (t : T α) (d : Nat) (s : Bool) (p : Ann α) (cs : List (T α)) (c : T α),
      (p, cs) ∈ subsT st t d s → c ∈ cs → childAnn st p c ∈ preAllT st t d s
  | .node a cs0, d, s, p, cs, c, h, hc => by
    rw [subsT, List.mem_cons] at h
    rw [preAllT, List.mem_cons]
    right
    rcases h with h | h
    · obtain ⟨rfl, rfl⟩ := Prod.mk.inj h
      exact root_mem_preAllF st c cs (d + 1) (s || st a) hc
    · exact subsF_child_mem st cs0 (d + 1) (s || st a) p cs c h hc
/-- Forest version of `subsT_child_mem`. -/
theorem subsF_child_mem (st : α → Bool) :
    ∀ (ts : List (T α)) (d : Nat) (s : Bool) (p : Ann α) (cs : List (T α)) (c : T α),
      (p, cs) ∈ subsF st ts d s → c ∈ cs → childAnn st p c ∈ preAllF st ts d s
  | [], _, _, _, _, _, h, _ => by simp [subsF] at h
  | t :: ts, d, s, p, cs, c, h, hc => by
    rw [subsF, List.mem_append] at h
    rw [preAllF, List.mem_append]
    rcases h with h | h
    · left; exact subsT_child_mem st t d s p cs c h hc
    · right; exact subsF_child_mem st ts d s p cs c h hc
end

/-- Both ends of every pair of `allPairs st t` occur (with exactly these annotations) in the
annotated pre-order `preAll st t` of L5: the pairs relate genuine annotated nodes of `t`. -/
theorem allPairs_mem_preAll (st : α → Bool) (t : T α) (e : Ann α × Ann α)
    (h : e ∈ allPairs st t) : e.1 ∈ preAll st t ∧ e.2 ∈ preAll st t := by
  unfold allPairs at h
  rw [pairsT_eq, List.mem_flatMap] at h
  obtain ⟨x, hx, he⟩ := h
  unfold edgesOf at he
  rw [List.mem_map] at he
  obtain ⟨c, hc, rfl⟩ := he
  unfold preAll
  refine ⟨?_, subsT_child_mem st t 0 false x.1 x.2 c hx hc⟩
  rw [← subsT_fst]
  exact List.mem_map_of_mem hx

/-! ## Exactly once: with pairwise distinct labels the listing has no duplicates -/

mutual
/-- Labels of a tree in pre-order. -/
def labelsT : T α → List α
  | .node a cs => a :: labelsF cs
/-- Labels of a forest in pre-order. -/
def labelsF : List (T α) → List α
  | [] => []
  | t :: ts => labelsT t ++ labelsF ts
end

mutual
/-- The child ends of all parent-child pairs of a tree are, up to permutation, the labels of all
non-root nodes of the tree (every non-root node is a child exactly once). -/
theorem pairsT_snd_perm (st : α → Bool) :
    ∀ (t : T α) (d : Nat) (s : Bool),
      ((pairsT st t d s).map (fun e => e.2.label)).Perm (labelsF t.children)
  | .node a cs, d, s => by
    have h := pairsF_snd_perm st cs (d + 1) (s || st a)
    rw [pairsT, List.map_append, List.map_map]
    exact h
/-- Forest version: the roots of the forest together with the child ends of all parent-child pairs
inside the forest are a permutation of all labels of the forest. -/
theorem pairsF_snd_perm (st : α → Bool) :
    ∀ (ts : List (T α)) (d : Nat) (s : Bool),
      (ts.map T.label ++ (pairsF st ts d s).map (fun e => e.2.label)).Perm (labelsF ts)
  | [], _, _ => by simp [pairsF, labelsF]
  | .node a cs :: ts, d, s => by
    have h1 := pairsT_snd_perm st (.node a cs) d s
    have h2 := pairsF_snd_perm st ts d s
    rw [pairsF, labelsF, labelsT, List.map_append, List.map_cons]
    simp only [T.children, T.label] at h1 ⊢
    rw [List.cons_append, List.cons_append]
    refine List.Perm.cons _ ?_
    refine List.perm_append_comm_assoc _ _ _ |>.trans ?_
    exact List.Perm.append h1 h2
end

/-- If the labels of `t` are pairwise distinct, the label pairs of all parent-child pairs are pairwise
distinct (each parent-child pair is determined by its labels and occurs once). -/
theorem allPairs_labels_nodup (st : α → Bool) (t : T α) (h : (labelsT t).Nodup) :
    ((allPairs st t).map edgeLabels).Nodup := by
  have h1 := pairsT_snd_perm st t 0 false
  have h2 : (labelsF t.children).Nodup := by
    cases t with
    | node a cs =>
      rw [labelsT, List.nodup_cons] at h
      exact h.2
  have h3 := h1.nodup_iff.2 h2
  apply List.Nodup.of_map Prod.snd
  rw [List.map_map]
  exact h3

/-- **L11, exactly once.** If the labels of `t` are pairwise distinct, the exporters' edge listing
(label pairs) has no duplicates; with `L11_edge_agreement_labels` / `L11_mem_iff` every parent-child
pair with both ends declared is therefore listed exactly once. -/
theorem L11_nodup (f st : α → Bool) (m : Option Nat) (t : T α) (h : (labelsT t).Nodup) :
    (listedEdgeLabels f st m t).Nodup := by
  rw [L11_edge_agreement_labels]
  exact (allPairs_labels_nodup st t h).sublist (List.filter_sublist.map _)

/-! ## Link to the budgeted specification `PRE` of L5

The parents (resp. the declared nodes) are exactly what the budgeted pre-order specification `PRE`
of L5 returns when started with budget `m - 1` (resp. `m`). -/

/-- Budget decrement: with a bound the budget decreases by one, without it is a dummy `0`. -/
def dec (hm : Bool) (b : Int) : Int := if hm then b - 1 else 0

mutual
/-- `PRE` on a single tree (copied from L5). -/
def preT (f st : α → Bool) (hm : Bool) : T α → Int → List α
  | .node a cs, b =>
    if hm = true ∧ b < 1 then [] else
    if st a = true then [] else
    (if f a = true then [a] else []) ++ preF f st hm cs (dec hm b)
/-- `PRE` on a forest (copied from L5). -/
def preF (f st : α → Bool) (hm : Bool) : List (T α) → Int → List α
  | [], _ => []
  | t :: ts, b => preT f st hm t b ++ preF f st hm ts b
end

/-- "budget of m". -/
def budget : Option Nat → Int
  | none => 0
  | some k => k

/-- Remaining budget at relative depth `d` for an `Int`-valued bound. -/
def budI : Option Int → Nat → Int
  | none, _ => 0
  | some k, d => k - d

/-- Decrementing the budget corresponds to going one level deeper. -/
theorem dec_budI (mi : Option Int) (d : Nat) :
    dec mi.isSome (budI mi d) = budI mi (d + 1) := by
  cases mi <;> simp [dec, budI]
  omega

/-- At depth `d` with flag `s` nothing can be selected any more. -/
def deadI (mi : Option Int) (d : Nat) (s : Bool) : Prop :=
  s = true ∨ ∃ k, mi = some k ∧ k ≤ (d : Int)

/-- Deadness is inherited by the children. -/
theorem deadI_succ {mi : Option Int} {d : Nat} {s : Bool} (h : deadI mi d s) (x : Bool) :
    deadI mi (d + 1) (s || x) := by
  rcases h with h | ⟨k, hk, hd⟩
  · left; simp [h]
  · right; exact ⟨k, hk, by push_cast; omega⟩

/-- A node in a dead position is never selected. -/
theorem declI_dead (f : α → Bool) {mi : Option Int} {d : Nat} {s : Bool} (h : deadI mi d s)
    (a : α) (x : Bool) : declI f mi ⟨a, d, s || x⟩ = false := by
  rcases h with h | ⟨k, hk, hd⟩
  · simp [declI, h]
  · subst hk
    simp [declI]
    intro h1; omega

mutual
/-- Nothing of the annotated pre-order of a tree started in a dead position is selected. -/
theorem preAllT_dead (f st : α → Bool) (mi : Option Int) :
    ∀ (t : T α) (d : Nat) (s : Bool), deadI mi d s → (preAllT st t d s).filter (declI f mi) = []
  | .node a cs, d, s, h => by
    rw [preAllT, List.filter_cons, declI_dead f h,
      preAllF_dead f st mi cs (d + 1) (s || st a) (deadI_succ h _)]
    simp
/-- Nothing of the annotated pre-order of a forest started in a dead position is selected. -/
theorem preAllF_dead (f st : α → Bool) (mi : Option Int) :
    ∀ (ts : List (T α)) (d : Nat) (s : Bool), deadI mi d s →
      (preAllF st ts d s).filter (declI f mi) = []
  | [], _, _, _ => by simp [preAllF]
  | t :: ts, d, s, h => by
    rw [preAllF, List.filter_append, preAllT_dead f st mi t d s h, preAllF_dead f st mi ts d s h]
    rfl
end

/-- The budget test of `PRE` fails exactly in the depth-dead region. -/
theorem blockedI_iff (mi : Option Int) (d : Nat) :
    (mi.isSome = true ∧ budI mi d < 1) ↔ ∃ k, mi = some k ∧ k ≤ (d : Int) := by
  cases mi with
  | none => simp
  | some k =>
    simp [budI]
    omega

/-- If the budget test passes at depth `d`, an unstopped node at depth `d` is selected iff it
passes `f`. -/
theorem declI_live (f : α → Bool) (mi : Option Int) (d : Nat) (a : α)
    (h : ¬ (mi.isSome = true ∧ budI mi d < 1)) : declI f mi ⟨a, d, false⟩ = f a := by
  cases mi with
  | none => simp [declI]
  | some k =>
    simp [budI] at h
    simp [declI]
    intro _; omega

mutual
/-- Generalised L5 (pre) for an `Int`-valued bound, one tree at depth offset `d`. -/
theorem preT_genI (f st : α → Bool) (mi : Option Int) :
    ∀ (t : T α) (d : Nat),
      preT f st mi.isSome t (budI mi d) = ((preAllT st t d false).filter (declI f mi)).map Ann.label
  | .node a cs, d => by
    rw [preT]
    by_cases hb : mi.isSome = true ∧ budI mi d < 1
    · rw [if_pos hb, preAllT_dead f st mi _ d false (Or.inr ((blockedI_iff mi d).1 hb))]
      rfl
    · rw [if_neg hb]
      by_cases hs : st a = true
      · rw [if_pos hs, preAllT, List.filter_cons]
        have hd : deadI mi (d + 1) (false || st a) := Or.inl (by simp [hs])
        rw [preAllF_dead f st mi cs _ _ hd]
        simp [declI, hs]
      · rw [if_neg hs, preAllT, dec_budI, preF_genI f st mi cs (d + 1)]
        have hs' : st a = false := by simpa using hs
        simp only [hs', Bool.or_false, List.filter_cons, declI_live f mi d a hb]
        by_cases hf : f a = true <;> simp [hf]
/-- Generalised L5 (pre) for an `Int`-valued bound, forest at depth offset `d`. -/
theorem preF_genI (f st : α → Bool) (mi : Option Int) :
    ∀ (ts : List (T α)) (d : Nat),
      preF f st mi.isSome ts (budI mi d) = ((preAllF st ts d false).filter (declI f mi)).map Ann.label
  | [], _ => by simp [preF, preAllF]
  | t :: ts, d => by
    rw [preF, preAllF, preT_genI f st mi t d, preF_genI f st mi ts d]
    simp
end

/-- Without a depth bound `PRE` on a tree does not depend on the budget. -/
theorem preT_unbounded_budget_irrelevant (f st : α → Bool) (t : T α) (b b' : Int) :
    preT f st false t b = preT f st false t b' := by
  cases t with
  | node a cs => simp [preT, dec]

/-- L5 (pre) for an `Int`-valued bound `mi`: `PRE [t]` started with budget `mi` is the annotated
pre-order filtered by `declI f mi`, projected to labels. -/
theorem PRE_eq_filter (f st : α → Bool) (mi : Option Int) (t : T α) :
    preF f st mi.isSome [t] (budI mi 0) = ((preAll st t).filter (declI f mi)).map Ann.label := by
  rw [preF_genI]
  simp [preAllF, preAll]

/-- The declared nodes for the bound `m` are exactly the output of the budgeted specification
`PRE [t] (budget m)` (this is `L5_pre`). -/
theorem declared_eq_PRE (f st : α → Bool) (m : Option Nat) (t : T α) :
    preF f st m.isSome [t] (budget m) = ((preAll st t).filter (declared f m)).map Ann.label := by
  have h := PRE_eq_filter f st (Option.map (fun k : Nat => (k : Int)) m) t
  rw [Option.isSome_map] at h
  have hb : budI (Option.map (fun k : Nat => (k : Int)) m) 0 = budget m := by
    cases m <;> simp [budI, budget]
  rw [hb] at h
  have hd : declared f m = declI f (Option.map (fun k : Nat => (k : Int)) m) := by
    funext x; rfl
  rw [hd]
  exact h

/-- The parents of the exporters are exactly the output of the budgeted specification `PRE [t]`
started with the budget lowered by one, `budget m - 1` - i.e. `parents` mirrors "declared nodes
computed with the bound lowered by one". -/
theorem parents_eq_PRE (f st : α → Bool) (m : Option Nat) (t : T α) :
    preF f st m.isSome [t] (budget m - 1) =
      ((parents f st m t).map Prod.fst).map Ann.label := by
  rw [parents_fst]
  have h := PRE_eq_filter f st (Option.map (fun k : Nat => (k : Int) - 1) m) t
  rw [Option.isSome_map] at h
  cases m with
  | none =>
    simp only [Option.isSome_none, preF, List.append_nil] at h ⊢
    rw [preT_unbounded_budget_irrelevant f st t _
      (budI (Option.map (fun k : Nat => (k : Int) - 1) none) 0)]
    exact h
  | some k =>
    have hb : budI (Option.map (fun k : Nat => (k : Int) - 1) (some k)) 0 = budget (some k) - 1 := by
      simp [budI, budget]
    rw [hb] at h
    exact h

end L11
