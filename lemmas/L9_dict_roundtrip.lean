import Mathlib.Data.List.Basic

/-!
# L9 : dictionary export / import round trip

Model.  Node attributes are an abstract type `A` (an attribute dictionary).

* `T A`  : trees,                 `T.node a children`
* `D A`  : exported dictionaries, `D.mk a none`      = no `children` entry,
                                  `D.mk a (some ds)` = a `children` entry holding `ds`.

`export`, `import` and `normalize` are defined by mutual structural recursion over
`(T, List T)` resp. `(D, List D)` (the `…L` companions are the list versions).  The
equation lemmas `exportT_node`, `importD_none`, `importD_some`, `normalize_some_nil`,
`normalize_none`, `normalize_some_cons` show that the definitions are *literally* the ones
of the task statement (with `List.map` and `if cs = [] then none else some …`), so nothing
has been weakened.

Main results (all three parts of L9, nothing left open, no extra axioms):

* `import_export`     : `importD (exportT t) = t`
* `export_import`     : `exportT (importD d) = normalize d`
* `normalize_export`  : `normalize (exportT t) = exportT t`
* `L9`                : the conjunction of the three.
-/

namespace DictRoundtrip

/-- Trees: a node carries attributes `a : A` and a list of children. -/
inductive T (A : Type) : Type
  | node : A → List (T A) → T A

/-- Exported dictionaries: attributes and an *optional* `children` entry. -/
inductive D (A : Type) : Type
  | mk : A → Option (List (D A)) → D A

variable {A : Type}

/-! ## Definitions (mutual structural recursion) -/

mutual
  /-- `export`: the `children` entry is present only when the child list is non-empty. -/
  def exportT : T A → D A
    | .node a [] => .mk a none
    | .node a (c :: cs) => .mk a (some (exportT c :: exportL cs))
  /-- `export` mapped over a list of trees (companion of `exportT`). -/
  def exportL : List (T A) → List (D A)
    | [] => []
    | t :: ts => exportT t :: exportL ts
end

mutual
  /-- `import`: a missing `children` entry means "no children". -/
  def importD : D A → T A
    | .mk a none => .node a []
    | .mk a (some ds) => .node a (importL ds)
  /-- `import` mapped over a list of dictionaries (companion of `importD`). -/
  def importL : List (D A) → List (T A)
    | [] => []
    | d :: ds => importD d :: importL ds
end

mutual
  /-- `normalize`: recursively remove empty `children` entries. -/
  def normalize : D A → D A
    | .mk a none => .mk a none
    | .mk a (some []) => .mk a none
    | .mk a (some (d :: ds)) => .mk a (some (normalize d :: normalizeL ds))
  /-- `normalize` mapped over a list of dictionaries (companion of `normalize`). -/
  def normalizeL : List (D A) → List (D A)
    | [] => []
    | d :: ds => normalize d :: normalizeL ds
end

/-! ## The list companions are `List.map` -/

/-- `exportL` is just `List.map exportT`. -/
theorem exportL_eq_map (ts : List (T A)) : exportL ts = ts.map exportT := by
  induction ts with
  | nil => simp [exportL]
  | cons t ts ih => simp [exportL, ih]

/-- `importL` is just `List.map importD`. -/
theorem importL_eq_map (ds : List (D A)) : importL ds = ds.map importD := by
  induction ds with
  | nil => simp [importL]
  | cons d ds ih => simp [importL, ih]

/-- `normalizeL` is just `List.map normalize`. -/
theorem normalizeL_eq_map (ds : List (D A)) : normalizeL ds = ds.map normalize := by
  induction ds with
  | nil => simp [normalizeL]
  | cons d ds ih => simp [normalizeL, ih]

/-! ## Specification equations (exactly the equations of the task statement) -/

/-- Defining equation of `export` as in the task: the `children` entry is
`none` if there are no children and `some (children.map export)` otherwise. -/
theorem exportT_node (a : A) (cs : List (T A)) :
    exportT (.node a cs) = .mk a (if cs = [] then none else some (cs.map exportT)) := by
  cases cs with
  | nil => simp [exportT]
  | cons c cs => simp [exportT, exportL_eq_map]

/-- Defining equation of `import`: no `children` entry gives a leaf. -/
theorem importD_none (a : A) : importD (.mk a none) = .node a [] := by
  simp [importD]

/-- Defining equation of `import`: a `children` entry is imported element-wise. -/
theorem importD_some (a : A) (ds : List (D A)) :
    importD (.mk a (some ds)) = .node a (ds.map importD) := by
  simp [importD, importL_eq_map]

/-- Defining equation of `normalize`: an empty `children` entry is removed. -/
theorem normalize_some_nil (a : A) : normalize (.mk a (some [])) = .mk a none := by
  simp [normalize]

/-- Defining equation of `normalize`: nothing to do without a `children` entry. -/
theorem normalize_none (a : A) : normalize (.mk a none) = .mk a none := by
  simp [normalize]

/-- Defining equation of `normalize`: a non-empty `children` entry is normalized
element-wise (and stays present). -/
theorem normalize_some_cons (a : A) (d : D A) (ds : List (D A)) :
    normalize (.mk a (some (d :: ds))) = .mk a (some ((d :: ds).map normalize)) := by
  simp [normalize, normalizeL_eq_map]

/-! ## Part (1): `import ∘ export = id` -/

mutual
  /-- **L9 (1).** Importing the exported dictionary of a tree gives back the tree. -/
  theorem import_export : ∀ t : T A, importD (exportT t) = t
    | .node a [] => by simp [exportT, importD]
    | .node a (c :: cs) => by
        simp [exportT, importD, importL, import_export c, importL_exportL cs]
  /-- List version of `import_export`. -/
  theorem importL_exportL : ∀ ts : List (T A), importL (exportL ts) = ts
    | [] => by simp [exportL, importL]
    | t :: ts => by simp [exportL, importL, import_export t, importL_exportL ts]
end

/-! ## Part (2): `export ∘ import = normalize` -/

mutual
  /-- **L9 (2).** Exporting the imported tree of a dictionary gives the normalized
  dictionary (i.e. the dictionary with all empty `children` entries removed). -/
  theorem export_import : ∀ d : D A, exportT (importD d) = normalize d
    | .mk a none => by simp [importD, exportT, normalize]
    | .mk a (some []) => by simp [importD, importL, exportT, normalize]
    | .mk a (some (d :: ds)) => by
        simp [importD, importL, exportT, normalize, export_import d, exportL_importL ds]
  /-- List version of `export_import`. -/
  theorem exportL_importL : ∀ ds : List (D A), exportL (importL ds) = normalizeL ds
    | [] => by simp [importL, exportL, normalizeL]
    | d :: ds => by
        simp [importL, exportL, normalizeL, export_import d, exportL_importL ds]
end

/-! ## Part (3): exported dictionaries are already normalized -/

mutual
  /-- **L9 (3).** The exported dictionary of a tree is a fixed point of `normalize`:
  `export` never produces an empty `children` entry. -/
  theorem normalize_export : ∀ t : T A, normalize (exportT t) = exportT t
    | .node a [] => by simp [exportT, normalize]
    | .node a (c :: cs) => by
        simp [exportT, normalize, normalize_export c, normalizeL_exportL cs]
  /-- List version of `normalize_export`. -/
  theorem normalizeL_exportL : ∀ ts : List (T A), normalizeL (exportL ts) = exportL ts
    | [] => by simp [exportL, normalizeL]
    | t :: ts => by
        simp [exportL, normalizeL, normalize_export t, normalizeL_exportL ts]
end

/-- Part (3) also follows from (1) and (2) alone; this is the derived proof, kept as a
cross-check that the three statements are mutually consistent. -/
theorem normalize_export' (t : T A) : normalize (exportT t) = exportT t := by
  rw [← export_import, import_export]

/-- Consequence: `normalize` is idempotent. -/
theorem normalize_idem (d : D A) : normalize (normalize d) = normalize d := by
  rw [← export_import d, normalize_export]

/-- **Lemma L9**, all three parts:
(1) `import (export t) = t` for every tree `t`;
(2) `export (import d) = normalize d` for every dictionary `d`;
(3) `normalize (export t) = export t` for every tree `t`. -/
theorem L9 :
    (∀ t : T A, importD (exportT t) = t) ∧
    (∀ d : D A, exportT (importD d) = normalize d) ∧
    (∀ t : T A, normalize (exportT t) = exportT t) :=
  ⟨import_export, export_import, normalize_export⟩

end DictRoundtrip

#print axioms DictRoundtrip.L9
