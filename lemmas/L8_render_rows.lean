/-
# L8 : closed-form reading of the row specification of the tree renderer

## Model and modelling decisions (please read)

* Trees are ordered rose trees `T α` (`node label children`).
* **`ci = id`.**  The specification applies an arbitrary "childiter" function `ci` to the
  children list of every visited node.  An arbitrary `ci : List (T α) → List (T α)` destroys
  structural recursion (its output need not consist of sub-terms), so - as explicitly allowed by
  the task - the tree modelled here is the tree *after* childiter has been applied at every node,
  i.e. `children t` below stands for `ci (children t)` of the original tree.  All statements
  ("last element of ci (children a_k)", "pre-order through ci-ordered children") are to be read
  with that substitution.
* `admits m l` is the Boolean version of `m = none ∨ l < m.get` (`admit_iff`).
* The specification
    rows t flags level  = (flags, label t) ::
        (if admits (level+1) ∧ children t ≠ [] then krows (children t) flags (level+1) else [])
    krows kids flags level = concatenation over i < kids.length of
        rows kids[i] (flags ++ [decide (i+1 ≠ kids.length)]) level
  is defined by mutual structural recursion (`rows` / `krows`); `krows` walks down the list and
  uses "the rest is non-empty" as flag.  `krows_eq_indexed` / `rows_node` prove that this is
  literally the indexed concatenation of the specification (`zipIdx` pairs every child with its
  index `i`, the flag is `decide (i+1 ≠ kids.length)`).
* Nodes are addressed by *positions* (`List Nat` = list of child indices from the start node;
  the length of a position is the relative depth).  Positions rather than node values are needed
  because equal subtrees may occur several times.  `subAt t p` is the node at position `p`,
  `paths m t 0` is the list of visited positions.  `paths` is pinned down completely by
  `mem_paths` (it contains exactly the valid positions of depth `< max m 1`, no bound for
  `m = none`) and `paths_sorted` (strictly increasing in the lexicographic order = pre-order;
  in particular no duplicates).

## Results (everything is proved, nothing is left open)

* `rows_eq_paths`   : `rows m t [] 0 = (paths m t 0).map (fun p => (flagsAlong t p, labelAt t p))`
                      - the master closed form: row number `i` belongs to position number `i`.
* `L8a`, `L8a_mem`, `L8a_root` : part (a)  (flags.length = depth; start node has empty flags).
* `L8b`             : part (b)  (flags[k] = true iff the depth-(k+1) ancestor-or-self is not the
                      last child of the depth-k ancestor).
* `L8c`             : part (c)  (labels of the rows = pre-order labels of the tree pruned to
                      depth `< max m 1`);  `subAt_prune` shows that `prune d` keeps exactly the
                      nodes of depth `≤ d`; `L8c_paths` links the pre-order listing with `paths`.
Nothing from the task is missing.
-/
import Mathlib

namespace L8

/-- Ordered, labelled rose trees. -/
inductive T (α : Type) where
  | node : α → List (T α) → T α

variable {α : Type}

/-- Label of the root of a tree. -/
def T.label : T α → α | .node a _ => a

/-- Children list of the root (already in childiter order, see header: `ci = id`). -/
def T.children : T α → List (T α) | .node _ cs => cs

/-- `admits m l` : level `l` is admitted by the optional bound `m`
(`m = none ∨ l < m.get`, as a `Bool`). -/
def admits : Option Nat → Nat → Bool
  | none, _ => true
  | some k, l => decide (l < k)

/-- `admits` is exactly the proposition `m = none ∨ l < m.get` of the specification. -/
theorem admit_iff (m : Option Nat) (l : Nat) :
    admits m l = true ↔ m = none ∨ ∃ k, m = some k ∧ l < k := by
  cases m <;> simp [admits]

mutual
/-- The row specification: the row of `t` followed (if the next level is admitted and there are
children) by the rows of the children. -/
def rows (m : Option Nat) : T α → List Bool → Nat → List (List Bool × α)
  | .node a cs, flags, level =>
    (flags, a) ::
      (if admits m (level+1) = true ∧ cs ≠ [] then krows m cs flags (level+1) else [])
/-- Rows of a list of siblings: each child gets `flags` extended by "it has a following sibling".
(See `krows_eq_indexed` for the index formulation of the specification.) -/
def krows (m : Option Nat) : List (T α) → List Bool → Nat → List (List Bool × α)
  | [], _, _ => []
  | c :: rest, flags, level =>
    rows m c (flags ++ [decide (rest ≠ [])]) level ++ krows m rest flags level
end

mutual
/-- Induction principle for rose trees: a property holds for all trees if it holds for a node
whenever it holds for all its children. -/
theorem T.ind {P : T α → Prop} (h : ∀ a cs, (∀ c ∈ cs, P c) → P (.node a cs)) : ∀ t, P t
  | .node a cs => h a cs (T.indL h cs)
/-- Auxiliary list part of `T.ind`. -/
theorem T.indL {P : T α → Prop} (h : ∀ a cs, (∀ c ∈ cs, P c) → P (.node a cs)) :
    ∀ cs : List (T α), ∀ c ∈ cs, P c
  | [] => by simp
  | c :: cs => by
    intro x hx
    rcases List.mem_cons.1 hx with hx | hx
    · rw [hx]; exact T.ind h c
    · exact T.indL h cs x hx
end

/-- `krows` on a suffix `kids` (starting at index `i`) of a sibling list of total length `n`
is the concatenation over the suffix of `rows kid (flags ++ [index+1 ≠ n])`. -/
theorem krows_aux (m : Option Nat) (n : Nat) (flags : List Bool) (level : Nat) :
    ∀ (kids : List (T α)) (i : Nat), i + kids.length = n →
      krows m kids flags level =
        (kids.zipIdx i).flatMap
          (fun ci => rows m ci.1 (flags ++ [decide (ci.2 + 1 ≠ n)]) level)
  | [], _, _ => by simp [krows]
  | c :: rest, i, h => by
    have h' : (i + 1) + rest.length = n := by simp at h; omega
    rw [krows, krows_aux m n flags level rest (i+1) h']
    simp only [List.zipIdx_cons, List.flatMap_cons]
    congr 4
    rw [decide_eq_decide, ← h']
    cases rest <;> simp

/-- Faithfulness to the specification: `krows kids flags level` is the concatenation, over the
indices `i < kids.length` in order, of `rows kids[i] (flags ++ [decide (i+1 ≠ kids.length)]) level`
(`kids.zipIdx` is the list of pairs `(kids[i], i)`). -/
theorem krows_eq_indexed (m : Option Nat) (kids : List (T α)) (flags : List Bool) (level : Nat) :
    krows m kids flags level =
      kids.zipIdx.flatMap
        (fun ci => rows m ci.1 (flags ++ [decide (ci.2 + 1 ≠ kids.length)]) level) :=
  krows_aux m kids.length flags level kids 0 (by simp)

/-- The specification equation of `rows` with the indexed form of `krows` unfolded. -/
theorem rows_node (m : Option Nat) (a : α) (cs : List (T α)) (flags : List Bool) (level : Nat) :
    rows m (.node a cs) flags level =
      (flags, a) :: (if admits m (level+1) = true ∧ cs ≠ [] then
        cs.zipIdx.flatMap
          (fun ci => rows m ci.1 (flags ++ [decide (ci.2 + 1 ≠ cs.length)]) (level+1))
        else []) := by
  rw [rows, krows_eq_indexed]

/-! ## Positions -/

mutual
/-- Positions (child-index paths relative to `t`) visited by `rows m t _ level`, in visiting
order. -/
def paths (m : Option Nat) : T α → Nat → List (List Nat)
  | .node _ cs, level =>
    [] :: (if admits m (level+1) = true ∧ cs ≠ [] then kpaths m cs 0 (level+1) else [])
/-- Positions visited below a list of siblings whose first element has index `i`. -/
def kpaths (m : Option Nat) : List (T α) → Nat → Nat → List (List Nat)
  | [], _, _ => []
  | c :: rest, i, level => (paths m c level).map (i :: ·) ++ kpaths m rest (i+1) level
end

/-- `kpaths` is the concatenation over the children (with their indices) of the child's
positions, each prefixed by the child's index. -/
theorem kpaths_eq (m : Option Nat) (level : Nat) :
    ∀ (kids : List (T α)) (i : Nat),
      kpaths m kids i level =
        (kids.zipIdx i).flatMap (fun ci => (paths m ci.1 level).map (ci.2 :: ·))
  | [], _ => by simp [kpaths]
  | c :: rest, i => by
    rw [kpaths, kpaths_eq m level rest (i+1)]
    simp only [List.zipIdx_cons, List.flatMap_cons]

/-- Unfolding equation of `paths` at a node. -/
theorem paths_node (m : Option Nat) (a : α) (cs : List (T α)) (level : Nat) :
    paths m (.node a cs) level =
      [] :: (if admits m (level+1) = true ∧ cs ≠ [] then
        cs.zipIdx.flatMap (fun ci => (paths m ci.1 (level+1)).map (ci.2 :: ·))
        else []) := by
  rw [paths, kpaths_eq]

/-- The node at position `p` below `t` (`none` if `p` leaves the tree). -/
def subAt : T α → List Nat → Option (T α)
  | t, [] => some t
  | .node _ cs, i :: p =>
    match cs[i]? with
    | some c => subAt c p
    | none => none

/-- Label of the node at position `p` (junk value for invalid positions). -/
def labelAt : T α → List Nat → α
  | t, [] => t.label
  | .node a cs, i :: p =>
    match cs[i]? with
    | some c => labelAt c p
    | none => a

/-- Closed form of the flags of the node at position `p = [i₀, …, i_{d-1}]`: entry `k` is
`i_k + 1 ≠ (number of children of the node at position [i₀ … i_{k-1}])`. -/
def flagsAlong : T α → List Nat → List Bool
  | _, [] => []
  | .node _ cs, i :: p =>
    decide (i + 1 ≠ cs.length) ::
      (match cs[i]? with
       | some c => flagsAlong c p
       | none => [])

/-- Generalised master lemma: for arbitrary initial `flags` and `level`, the rows are the visited
positions mapped to `(flags ++ closed-form flags, label at position)`. -/
theorem rows_paths_gen (m : Option Nat) (t : T α) : ∀ (flags : List Bool) (level : Nat),
    rows m t flags level =
      (paths m t level).map (fun p => (flags ++ flagsAlong t p, labelAt t p)) := by
  induction t using T.ind with
  | h a cs ih =>
    intro flags level
    rw [rows_node, paths_node]
    simp only [List.map_cons, flagsAlong, labelAt, T.label, List.append_nil]
    congr 1
    split_ifs with hc
    · rw [List.map_flatMap]
      apply List.flatMap_congr
      rintro ⟨c, i⟩ hci
      have hget : cs[i]? = some c := List.mem_zipIdx_iff_getElem?.1 hci
      have hmem : c ∈ cs := List.mem_of_getElem? hget
      simp only [List.map_map]
      rw [ih c hmem]
      apply List.map_congr_left
      intro q _
      simp [flagsAlong, labelAt, hget]
    · rfl

/-- **Master closed form.** The rows produced from the start node `t` (empty flags, level 0)
are, in order, the visited positions `p` mapped to (closed-form flags along `p`, label of the
node at `p`). -/
theorem rows_eq_paths (m : Option Nat) (t : T α) :
    rows m t [] 0 = (paths m t 0).map (fun p => (flagsAlong t p, labelAt t p)) := by
  simpa using rows_paths_gen m t [] 0

/-- `admits m` is downward closed in the level. -/
theorem admit_mono (m : Option Nat) {l l' : Nat} (h : l ≤ l') (h' : admits m l' = true) :
    admits m l = true := by
  cases m with
  | none => rfl
  | some k => simp only [admits, decide_eq_true_eq] at *; omega

/-- Membership of `i :: q` in an index-prefixed concatenation over the children. -/
theorem mem_flatMap_zipIdx {β : Type} (f : β → List (List Nat)) (cs : List β) (i : Nat)
    (q : List Nat) :
    (i :: q) ∈ cs.zipIdx.flatMap (fun ci => (f ci.1).map (ci.2 :: ·)) ↔
      ∃ c, cs[i]? = some c ∧ q ∈ f c := by
  simp only [List.mem_flatMap, List.mem_map, Prod.exists, List.mem_zipIdx_iff_getElem?]
  constructor
  · rintro ⟨c, j, hj, q', hq', heq⟩
    simp only [List.cons.injEq] at heq
    obtain ⟨rfl, rfl⟩ := heq
    exact ⟨c, hj, hq'⟩
  · rintro ⟨c, hc, hq⟩
    exact ⟨c, i, hc, q, hq, rfl⟩

/-- A position is visited from `t` at `level` iff it is a valid position of `t` and it is empty
or its absolute level `level + depth` is admitted. -/
theorem mem_paths_gen (m : Option Nat) (t : T α) : ∀ (p : List Nat) (level : Nat),
    p ∈ paths m t level ↔
      (subAt t p).isSome = true ∧ (p = [] ∨ admits m (level + p.length) = true) := by
  induction t using T.ind with
  | h a cs ih =>
    intro p level
    rw [paths_node]
    cases p with
    | nil => simp [subAt]
    | cons i q =>
      simp only [List.mem_cons, reduceCtorEq, false_or, subAt, List.length_cons]
      have hne : ∀ c, cs[i]? = some c → cs ≠ [] := by
        rintro c hc rfl; simp at hc
      constructor
      · intro h
        split_ifs at h with hc
        · obtain ⟨c, hget, hq⟩ :=
            (mem_flatMap_zipIdx (fun c => paths m c (level+1)) cs i q).1 h
          have := (ih c (List.mem_of_getElem? hget) q (level+1)).1 hq
          rw [hget]
          refine ⟨this.1, ?_⟩
          rcases this.2 with rfl | h2
          · simpa using hc.1
          · rw [← h2]; congr 1; omega
        · simp at h
      · rintro ⟨h1, h2⟩
        cases hget : cs[i]? with
        | none => rw [hget] at h1; simp at h1
        | some c =>
          rw [hget] at h1
          have hadm : admits m (level + 1) = true := admit_mono m (by omega) h2
          rw [if_pos ⟨hadm, hne c hget⟩]
          refine (mem_flatMap_zipIdx (fun c => paths m c (level+1)) cs i q).2 ⟨c, hget, ?_⟩
          refine (ih c (List.mem_of_getElem? hget) q (level+1)).2 ⟨h1, Or.inr ?_⟩
          rw [← h2]; congr 1; omega

/-- `inBound m d` : depth `d` is `< max m 1` (no restriction for `m = none`). -/
def inBound : Option Nat → Nat → Prop
  | none, _ => True
  | some k, d => d < max k 1

/-- The visited positions are exactly the valid positions of the tree whose depth is
`< max m 1`. -/
theorem mem_paths (m : Option Nat) (t : T α) (p : List Nat) :
    p ∈ paths m t 0 ↔ (∃ x, subAt t p = some x) ∧ inBound m p.length := by
  rw [mem_paths_gen, Option.isSome_iff_exists]
  apply and_congr Iff.rfl
  cases m with
  | none => simp [admits, inBound]
  | some k =>
    simp only [admits, inBound, decide_eq_true_eq, zero_add]
    rw [← List.length_eq_zero_iff]
    omega

/-- The visited positions are listed in strictly increasing lexicographic order, i.e. in
pre-order (a node before its descendants, siblings' subtrees left to right), without
repetition.  Together with `mem_paths` this determines `paths m t 0` uniquely. -/
theorem paths_sorted (m : Option Nat) (t : T α) : ∀ level : Nat,
    (paths m t level).Pairwise (· < ·) := by
  induction t using T.ind with
  | h a cs ih =>
    intro level
    rw [paths_node, List.pairwise_cons]
    constructor
    · intro p hp
      split_ifs at hp with hc
      · cases p with
        | nil =>
          simp only [List.mem_flatMap, List.mem_map] at hp
          obtain ⟨_, _, _, _, h⟩ := hp
          simp at h
        | cons i q => exact List.nil_lt_cons i q
      · simp at hp
    · split_ifs with hc
      · rw [List.pairwise_flatMap]
        constructor
        · rintro ⟨c, i⟩ hci
          have hget : cs[i]? = some c := List.mem_zipIdx_iff_getElem?.1 hci
          rw [List.pairwise_map]
          exact (ih c (List.mem_of_getElem? hget) (level+1)).imp
            (fun h => List.cons_lt_cons_iff.2 (Or.inr ⟨rfl, h⟩))
        · have h1 : (cs.zipIdx.map Prod.snd).Pairwise (· < ·) := by
            rw [List.zipIdx_map_snd]; exact List.pairwise_lt_range'
          rw [List.pairwise_map] at h1
          refine h1.imp ?_
          rintro ⟨c, i⟩ ⟨c', i'⟩ hlt x hx y hy
          simp only [List.mem_map] at hx hy
          obtain ⟨x', _, rfl⟩ := hx
          obtain ⟨y', _, rfl⟩ := hy
          exact List.cons_lt_cons_iff.2 (Or.inl hlt)
      · exact List.Pairwise.nil

/-! ## Closed-form facts about `labelAt` and `flagsAlong` -/

/-- For a valid position, `labelAt` is the label of the node at that position. -/
theorem labelAt_eq : ∀ (p : List Nat) (t x : T α), subAt t p = some x → labelAt t p = x.label
  | [], t, x, h => by
    simp only [subAt, Option.some.injEq] at h; subst h; rfl
  | i :: q, .node a cs, x, h => by
    simp only [subAt, labelAt] at h ⊢
    cases hget : cs[i]? with
    | none => rw [hget] at h; simp at h
    | some c => rw [hget] at h; exact labelAt_eq q c x h

/-- For a valid position, the closed-form flag list has one entry per level: its length is the
depth. -/
theorem flagsAlong_length : ∀ (p : List Nat) (t x : T α), subAt t p = some x →
    (flagsAlong t p).length = p.length
  | [], _, _, _ => rfl
  | i :: q, .node a cs, x, h => by
    simp only [subAt, flagsAlong, List.length_cons] at h ⊢
    cases hget : cs[i]? with
    | none => rw [hget] at h; simp at h
    | some c => rw [hget] at h; simp only [flagsAlong_length q c x h]

/-- For a valid position `p` and `k < depth`: with `ak` the ancestor at depth `k` (position
`p.take k`) and `ak1` the ancestor-or-self at depth `k+1`, `ak1` is child number `p[k]` of `ak`
and entry `k` of the closed-form flags is `p[k] + 1 ≠ number of children of ak`. -/
theorem flagsAlong_getElem : ∀ (p : List Nat) (t x : T α), subAt t p = some x →
    ∀ (k : Nat) (hk : k < p.length), ∃ ak ak1 : T α,
      subAt t (p.take k) = some ak ∧ ak.children[p[k]]? = some ak1 ∧
      subAt t (p.take (k+1)) = some ak1 ∧
      (flagsAlong t p)[k]? = some (decide (p[k] + 1 ≠ ak.children.length))
  | [], _, _, _, k, hk => by simp at hk
  | i :: q, .node a cs, x, h, k, hk => by
    simp only [subAt] at h
    cases hget : cs[i]? with
    | none => rw [hget] at h; simp at h
    | some c =>
      rw [hget] at h
      cases k with
      | zero =>
        refine ⟨.node a cs, c, ?_, ?_, ?_, ?_⟩
        · simp [subAt]
        · simpa [T.children] using hget
        · simp [subAt, hget]
        · simp only [flagsAlong, T.children, List.getElem?_cons_zero, List.getElem_cons_zero]
          congr
      | succ k =>
        have hk' : k < q.length := by simpa using hk
        obtain ⟨ak, ak1, h1, h2, h3, h4⟩ := flagsAlong_getElem q c x h k hk'
        refine ⟨ak, ak1, ?_, ?_, ?_, ?_⟩
        · simpa [subAt, hget] using h1
        · simpa using h2
        · simpa [subAt, hget] using h3
        · simpa [flagsAlong, hget] using h4

/-! ## Part (a) -/

/-- **L8 (a), indexwise.** The `i`-th row belongs to the `i`-th visited position `p`: `p` is a
valid position, the row carries the label of the node `x` at `p`, and its flag list has length
`p.length`, the relative depth of `x`. -/
theorem L8a (m : Option Nat) (t : T α) (i : Nat) (p : List Nat)
    (hp : (paths m t 0)[i]? = some p) :
    ∃ (x : T α) (fl : List Bool), subAt t p = some x ∧
      (rows m t [] 0)[i]? = some (fl, x.label) ∧ fl.length = p.length := by
  obtain ⟨⟨x, hx⟩, _⟩ := (mem_paths m t p).1 (List.mem_of_getElem? hp)
  refine ⟨x, flagsAlong t p, hx, ?_, flagsAlong_length p t x hx⟩
  rw [rows_eq_paths, List.getElem?_map, hp, Option.map_some, labelAt_eq p t x hx]

/-- **L8 (a), membership form.** Every produced row is the row of some node `x` at a valid
position `p` of depth `< max m 1`; it carries `x`'s label and exactly `depth = p.length` flags.
Rows and visited positions are equinumerous. -/
theorem L8a_mem (m : Option Nat) (t : T α) :
    (rows m t [] 0).length = (paths m t 0).length ∧
    ∀ r ∈ rows m t [] 0, ∃ (p : List Nat) (x : T α), subAt t p = some x ∧
      inBound m p.length ∧ r.2 = x.label ∧ r.1.length = p.length := by
  rw [rows_eq_paths]
  refine ⟨by simp, ?_⟩
  intro r hr
  obtain ⟨p, hp, rfl⟩ := List.mem_map.1 hr
  obtain ⟨⟨x, hx⟩, hb⟩ := (mem_paths m t p).1 hp
  exact ⟨p, x, hx, hb, labelAt_eq p t x hx, flagsAlong_length p t x hx⟩

/-- **L8 (a), start node.** The first row is the start node's, with empty flags (depth 0). -/
theorem L8a_root (m : Option Nat) (t : T α) :
    (rows m t [] 0).head? = some ([], t.label) ∧ (paths m t 0).head? = some [] := by
  cases t with
  | node a cs => simp [rows, paths, T.label]

/-! ## Part (b) -/

/-- **L8 (b).** Let the `i`-th row `(fl, lab)` belong to position `p` (depth `d = p.length`), and
let `k < d`.  With `ak` the ancestor at depth `k` (`a_0 = t`) and `ak1` the ancestor-or-self at
depth `k+1`, `ak1` is the child of `ak` with index `p[k]`, and
`fl[k] = true` iff `p[k] + 1 ≠ (children ak).length`, i.e. iff `ak1` is not the last child of
`ak` (it has a following sibling in childiter order). -/
theorem L8b (m : Option Nat) (t : T α) (i : Nat) (p : List Nat) (fl : List Bool) (lab : α)
    (hp : (paths m t 0)[i]? = some p) (hr : (rows m t [] 0)[i]? = some (fl, lab))
    (k : Nat) (hk : k < p.length) :
    ∃ ak ak1 : T α,
      subAt t (p.take k) = some ak ∧ ak.children[p[k]]? = some ak1 ∧
      subAt t (p.take (k+1)) = some ak1 ∧
      fl[k]? = some (decide (p[k] + 1 ≠ ak.children.length)) := by
  obtain ⟨⟨x, hx⟩, _⟩ := (mem_paths m t p).1 (List.mem_of_getElem? hp)
  rw [rows_eq_paths, List.getElem?_map, hp, Option.map_some, Option.some.injEq,
    Prod.mk.injEq] at hr
  rw [← hr.1]
  exact flagsAlong_getElem p t x hx k hk

/-- **L8 (b), propositional reading** of the flag: `fl[k] = true ↔` the depth-`(k+1)`
ancestor-or-self is not the last child of the depth-`k` ancestor. -/
theorem L8b_iff (m : Option Nat) (t : T α) (i : Nat) (p : List Nat) (fl : List Bool) (lab : α)
    (hp : (paths m t 0)[i]? = some p) (hr : (rows m t [] 0)[i]? = some (fl, lab))
    (k : Nat) (hk : k < p.length) :
    ∃ (ak : T α) (b : Bool), subAt t (p.take k) = some ak ∧ fl[k]? = some b ∧
      (b = true ↔ p[k] + 1 ≠ ak.children.length) := by
  obtain ⟨ak, _, h1, _, _, h4⟩ := L8b m t i p fl lab hp hr k hk
  exact ⟨ak, _, h1, h4, by simp⟩

/-! ## Part (c) -/

mutual
/-- Pre-order listing of the labels of a tree. -/
def pre : T α → List α
  | .node a cs => a :: preL cs
/-- Pre-order listing of a forest. -/
def preL : List (T α) → List α
  | [] => []
  | c :: cs => pre c ++ preL cs
end

mutual
/-- `prune d t` : the tree `t` cut below relative depth `d` (keeps the nodes of depth `≤ d`). -/
def prune : Nat → T α → T α
  | 0, .node a _ => .node a []
  | d+1, .node a cs => .node a (pruneL d cs)
/-- `prune d` applied to every tree of a list. -/
def pruneL : Nat → List (T α) → List (T α)
  | _, [] => []
  | d, c :: cs => prune d c :: pruneL d cs
end

/-- `preL` is `flatMap pre`. -/
theorem preL_eq : ∀ cs : List (T α), preL cs = cs.flatMap pre
  | [] => by simp [preL]
  | c :: cs => by simp [preL, preL_eq cs]

/-- `pruneL d` is `map (prune d)`. -/
theorem pruneL_eq (d : Nat) : ∀ cs : List (T α), pruneL d cs = cs.map (prune d)
  | [] => by simp [pruneL]
  | c :: cs => by simp [pruneL, pruneL_eq d cs]

/-- Textbook equation of pre-order: root label, then the pre-orders of the children in order. -/
theorem pre_node (a : α) (cs : List (T α)) : pre (.node a cs) = a :: cs.flatMap pre := by
  rw [pre, preL_eq]

/-- Textbook equation of pruning: pruning to depth `d+1` prunes every child to depth `d`. -/
theorem prune_succ (d : Nat) (a : α) (cs : List (T α)) :
    prune (d+1) (.node a cs) = .node a (cs.map (prune d)) := by
  rw [prune, pruneL_eq]

/-- `prune d t` contains exactly the nodes of `t` at depth `≤ d`, at the same positions
(the node at position `p` being the correspondingly pruned subtree). -/
theorem subAt_prune : ∀ (p : List Nat) (d : Nat) (t : T α),
    subAt (prune d t) p =
      if p.length ≤ d then (subAt t p).map (prune (d - p.length)) else none
  | [], d, t => by simp [subAt]
  | i :: q, 0, .node a cs => by simp [subAt, prune]
  | i :: q, d+1, .node a cs => by
    simp only [prune, subAt, pruneL_eq, List.getElem?_map, List.length_cons,
      Nat.add_le_add_iff_right, Nat.add_sub_add_right]
    cases hget : cs[i]? with
    | none => simp
    | some c => simp [subAt_prune q d c]

mutual
/-- With a bound `some k`, the labels of the rows from `level` are the pre-order of the tree
pruned to depth `k - 1 - level`. -/
theorem rows_labels_some (k : Nat) : ∀ (t : T α) (flags : List Bool) (level : Nat),
    (rows (some k) t flags level).map Prod.snd = pre (prune (k - 1 - level) t)
  | .node a cs, flags, level => by
    rw [rows]
    cases h : k - 1 - level with
    | zero =>
      have : admits (some k) (level+1) = false := by simp [admits]; omega
      simp [prune, pre, preL, this]
    | succ d =>
      have : admits (some k) (level+1) = true := by simp [admits]; omega
      have hd : d = k - 1 - (level+1) := by omega
      simp only [this, true_and, prune, pre, List.map_cons]
      congr 1
      by_cases hcs : cs = []
      · subst hcs; simp [pruneL, preL]
      · rw [if_pos hcs, krows_labels_some k cs flags (level+1), hd]
/-- List part of `rows_labels_some`. -/
theorem krows_labels_some (k : Nat) : ∀ (cs : List (T α)) (flags : List Bool) (level : Nat),
    (krows (some k) cs flags level).map Prod.snd = preL (pruneL (k - 1 - level) cs)
  | [], _, _ => by simp [krows, pruneL, preL]
  | c :: rest, flags, level => by
    simp only [krows, pruneL, preL, List.map_append, rows_labels_some k c,
      krows_labels_some k rest]
end

mutual
/-- Without a bound, the labels of the rows are the pre-order of the whole tree. -/
theorem rows_labels_none : ∀ (t : T α) (flags : List Bool) (level : Nat),
    (rows none t flags level).map Prod.snd = pre t
  | .node a cs, flags, level => by
    rw [rows]
    simp only [admits, true_and, pre, List.map_cons]
    congr 1
    by_cases hcs : cs = []
    · subst hcs; simp [preL]
    · rw [if_pos hcs, krows_labels_none cs flags (level+1)]
/-- List part of `rows_labels_none`. -/
theorem krows_labels_none : ∀ (cs : List (T α)) (flags : List Bool) (level : Nat),
    (krows none cs flags level).map Prod.snd = preL cs
  | [], _, _ => by simp [krows, preL]
  | c :: rest, flags, level => by
    simp only [krows, preL, List.map_append, rows_labels_none c, krows_labels_none rest]
end

/-- The tree pruned to depth `< max m 1` (i.e. `≤ max m 1 - 1`); unpruned if `m = none`. -/
def pruned (m : Option Nat) (t : T α) : T α :=
  match m with
  | none => t
  | some k => prune (max k 1 - 1) t

/-- **L8 (c).** The labels of the rows, in order, are the pre-order listing of the tree pruned
to depth `< max m 1` (children being in childiter order, see header). -/
theorem L8c (m : Option Nat) (t : T α) :
    (rows m t [] 0).map Prod.snd = pre (pruned m t) := by
  cases m with
  | none => exact rows_labels_none t [] 0
  | some k =>
    rw [rows_labels_some, pruned]
    congr 2
    omega

/-- Link between (c) and the positions: the pre-order listing of the pruned tree is the list of
labels at the visited positions, in order. -/
theorem L8c_paths (m : Option Nat) (t : T α) :
    pre (pruned m t) = (paths m t 0).map (labelAt t) := by
  rw [← L8c, rows_eq_paths, List.map_map]
  rfl

/-! ## Sanity check on a concrete tree -/

/-- A concrete instance: the tree `r(a(c, d), b)` rendered without bound and with bound 2. -/
example :
    rows none (T.node "r" [.node "a" [.node "c" [], .node "d" []], .node "b" []]) [] 0 =
      [([], "r"), ([true], "a"), ([true, true], "c"), ([true, false], "d"), ([false], "b")] ∧
    rows (some 2) (T.node "r" [.node "a" [.node "c" [], .node "d" []], .node "b" []]) [] 0 =
      [([], "r"), ([true], "a"), ([false], "b")] ∧
    rows (some 0) (T.node "r" [.node "a" [.node "c" [], .node "d" []], .node "b" []]) [] 0 =
      [([], "r")] := by
  simp [rows, krows, admits]

end L8
