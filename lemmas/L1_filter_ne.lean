import Mathlib.Data.List.Basic
import Mathlib.Data.List.Nodup

/-- L1: on a duplicate-free list, filtering out `x` removes exactly the position of `x`. -/
theorem filter_ne_eq_eraseIdx {α : Type} [DecidableEq α] (l : List α) (x : α) (k : Nat)
    (hnd : l.Nodup) (hk : k < l.length) (hx : l[k]'hk = x) :
    l.filter (fun c => decide (c ≠ x)) = l.eraseIdx k := by
  induction l generalizing k with
  | nil => simp at hk
  | cons a t ih =>
    have hn := List.nodup_cons.mp hnd
    cases k with
    | zero =>
      simp at hx
      subst hx
      simp [List.filter_cons]
      intro y hy hya
      subst hya
      exact hn.1 hy
    | succ k =>
      simp at hx hk
      have hax : a ≠ x := by
        intro h
        subst h
        exact hn.1 (hx ▸ List.getElem_mem hk)
      have := ih k hn.2 hk hx
      simpa [List.filter_cons, hax] using this
