import Mathlib.Logic.Function.Basic
import Mathlib.Tactic

/-!
# L7: escaping of double quotes and backslashes is injective and invertible

`esc` models Python's `re.sub('["\\\\]', lambda m: '\\' + m.group(0), s)` on `List Char`:
every `"` or `\` is prefixed with a backslash, every other character is kept.
`unesc` is the left-to-right reader: backslash followed by `c` yields `c`,
any other character yields itself.

Proved (all parts, nothing missing):
* (a) `unesc_esc`        : `unesc (esc s) = s`
* (b) `esc_injective`    : `Function.Injective esc`
* (c) `no_unescaped_quote` : the scanner that consumes `\` + next char as a pair never
      consumes a `"` singly in `esc s` (and, stronger, `singles_esc_not_special`: it never
      singly consumes a `"` or a `\`, so in particular there is no dangling backslash).
-/

namespace L7

/-- The characters that get escaped: double quote and backslash. -/
def special (c : Char) : Prop := c = '"' ∨ c = '\\'

instance : DecidablePred special := fun c => by unfold special; infer_instance

/-- Escape: every `"` or `\` is replaced by `\` followed by that character. -/
def esc : List Char → List Char
  | [] => []
  | c :: s => if special c then '\\' :: c :: esc s else c :: esc s

/-- Unescape: reading left to right, `\` followed by `c` yields `c`;
any other character (including a trailing lone `\`) yields itself. -/
def unesc : List Char → List Char
  | [] => []
  | [c] => [c]
  | c :: d :: s => if c = '\\' then d :: unesc s else c :: unesc (d :: s)

/-- The natural scanner: walks left to right, consuming `\` + next char as a pair;
returns the list of characters that were consumed singly (not as part of a pair). -/
def singles : List Char → List Char
  | [] => []
  | [c] => [c]
  | c :: d :: s => if c = '\\' then singles s else c :: singles (d :: s)

theorem unesc_cons_of_ne {c : Char} (h : c ≠ '\\') (t : List Char) :
    unesc (c :: t) = c :: unesc t := by
  cases t with
  | nil => simp [unesc]
  | cons d s => simp [unesc, h]

theorem singles_cons_of_ne {c : Char} (h : c ≠ '\\') (t : List Char) :
    singles (c :: t) = c :: singles t := by
  cases t with
  | nil => simp [singles]
  | cons d s => simp [singles, h]

/-- (a) Unescaping an escaped string gives back the original string. -/
theorem unesc_esc (s : List Char) : unesc (esc s) = s := by
  induction s with
  | nil => simp [esc, unesc]
  | cons c s ih =>
    by_cases hc : special c
    · simp [esc, hc, unesc, ih]
    · have hne : c ≠ '\\' := fun h => hc (Or.inr h)
      simp [esc, hc, unesc_cons_of_ne hne, ih]

/-- (b) Escaping is injective: two strings with the same escaped form are equal. -/
theorem esc_injective : Function.Injective esc :=
  Function.LeftInverse.injective unesc_esc

/-- (c, strong form) In `esc s`, the pair-consuming scanner never consumes a special
character (`"` or `\`) singly: every `"` and every `\` is part of an escape pair. -/
theorem singles_esc_not_special (s : List Char) : ∀ c ∈ singles (esc s), ¬ special c := by
  induction s with
  | nil => simp [esc, singles]
  | cons c s ih =>
    by_cases hc : special c
    · simpa [esc, hc, singles] using ih
    · have hne : c ≠ '\\' := fun h => hc (Or.inr h)
      intro x hx
      simp only [esc, hc, if_false, singles_cons_of_ne hne, List.mem_cons] at hx
      rcases hx with rfl | hx
      · exact hc
      · exact ih x hx

/-- (c) `esc s` contains no unescaped double quote: the scanner that consumes
`\` + next char as a pair never consumes a `"` on its own. -/
theorem no_unescaped_quote (s : List Char) : '"' ∉ singles (esc s) :=
  fun h => singles_esc_not_special s '"' h (Or.inl rfl)

end L7
