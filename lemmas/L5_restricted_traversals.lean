import Mathlib

/-!
# L5 : restricted (filter / stop / maxlevel) traversals = filtered unrestricted traversals

Model: ordered rose trees `T α` with labels.  `f st : α → Bool` are the `filter_` and `stop`
predicates, `m : Option Nat` is the depth bound (`none` = unbounded).

Notes on the formalisation (statements are NOT weakened):

* Budgets are integers (`Int`), so "budget < 1" is meaningful without `Nat` truncation.
  The flag `hm : Bool` says whether a bound was given (`hm = m.isSome`).
* `PRE` is `preF` (on forests), defined by structural mutual recursion together with `preT`
  (one tree).  `preF_eq_flatMap` / `preT_node` show that this is literally the recursion of the task
  ("concatenation over the trees of the forest, left to right, of ...").
* `POSTF` is defined as the plain concatenation `forest.flatMap (postT · b)`; the per-tree function
  `postT` is defined by structural recursion through an auxiliary `postNS` that skips stopped
  children.  `postT_node` proves the defining equation of the task
  `postT (node a cs) b = if bounded ∧ b < 1 then [] else POSTF (NS cs) (dec b) ++ (if f a then [a] else [])`,
  so `POSTF` is exactly the specified function (the detour is only needed to make Lean accept the
  recursion through `NS cs = cs.filter ..` as structural).
* Annotations: `Ann α` = (label, relative depth, "some node on the path from the start node down to
  and including this node satisfies `st`").  `admitted m x` is the Prop of the task,
  `admittedB` its Boolean form (`admittedB_iff`).
* "budget of m": `budget (some k) = k`, `budget none = 0`; `preF_unbounded_budget_irrelevant` and
  `POSTF_unbounded_budget_irrelevant` show that for `m = none` the budget is irrelevant.

Main theorems: `L5_pre`, `L5_post` (and Prop-filter versions `L5_pre'`, `L5_post'`).
Not done: the optional level-order version.
-/

namespace L5

/-- Ordered rose trees with labels. -/
inductive T (α : Type) where
  | node : α → List (T α) → T α

variable {α : Type}

/-- Root label. -/
def T.label : T α → α
  | .node a _ => a

/-- Annotated node: label, relative depth, and whether some node on the path from the start node
down to and including this node satisfies `st`. -/
structure Ann (α : Type) where
  label : α
  depth : Nat
  stopped : Bool

/-- Budget decrement: with a bound the budget decreases by one, without it is a dummy `0`. -/
def dec (hm : Bool) (b : Int) : Int := if hm then b - 1 else 0

/-! ## The budgeted specification functions -/

mutual
/-- `PRE` on a single tree. -/
def preT (f st : α → Bool) (hm : Bool) : T α → Int → List α
  | .node a cs, b =>
    if hm = true ∧ b < 1 then [] else
    if st a = true then [] else
    (if f a = true then [a] else []) ++ preF f st hm cs (dec hm b)
/-- `PRE` on a forest. -/
def preF (f st : α → Bool) (hm : Bool) : List (T α) → Int → List α
  | [], _ => []
  | t :: ts, b => preT f st hm t b ++ preF f st hm ts b
end

/-- `NS forest`: the trees of the forest whose root label does not satisfy `st`. -/
def NS (st : α → Bool) (forest : List (T α)) : List (T α) :=
  forest.filter (fun t => !st t.label)

mutual
/-- `POSTF` on a single tree (whose root is assumed not stopped). -/
def postT (f st : α → Bool) (hm : Bool) : T α → Int → List α
  | .node a cs, b =>
    if hm = true ∧ b < 1 then [] else
    postNS f st hm cs (dec hm b) ++ (if f a = true then [a] else [])
/-- Auxiliary: `POSTF (NS forest)`, see `postNS_eq`. -/
def postNS (f st : α → Bool) (hm : Bool) : List (T α) → Int → List α
  | [], _ => []
  | t :: ts, b => (if st t.label = true then [] else postT f st hm t b) ++ postNS f st hm ts b
end

/-- `POSTF forest b`: concatenation over the trees of the forest, left to right, of `postT`. -/
def POSTF (f st : α → Bool) (hm : Bool) (forest : List (T α)) (b : Int) : List α :=
  forest.flatMap (fun t => postT f st hm t b)

/-! ## The unrestricted annotated traversals -/

mutual
/-- Unrestricted annotated pre-order of a tree started at depth `d` with stopped-flag `s`. -/
def preAllT (st : α → Bool) : T α → Nat → Bool → List (Ann α)
  | .node a cs, d, s => ⟨a, d, s || st a⟩ :: preAllF st cs (d + 1) (s || st a)
/-- Unrestricted annotated pre-order of a forest. -/
def preAllF (st : α → Bool) : List (T α) → Nat → Bool → List (Ann α)
  | [], _, _ => []
  | t :: ts, d, s => preAllT st t d s ++ preAllF st ts d s
end

mutual
/-- Unrestricted annotated post-order of a tree started at depth `d` with stopped-flag `s`. -/
def postAllT (st : α → Bool) : T α → Nat → Bool → List (Ann α)
  | .node a cs, d, s => postAllF st cs (d + 1) (s || st a) ++ [⟨a, d, s || st a⟩]
/-- Unrestricted annotated post-order of a forest. -/
def postAllF (st : α → Bool) : List (T α) → Nat → Bool → List (Ann α)
  | [], _, _ => []
  | t :: ts, d, s => postAllT st t d s ++ postAllF st ts d s
end

/-- `preAll t`: unrestricted pre-order listing of all nodes of `t` with annotations. -/
def preAll (st : α → Bool) (t : T α) : List (Ann α) := preAllT st t 0 false

/-- `postAll t`: unrestricted post-order listing of all nodes of `t` with annotations. -/
def postAll (st : α → Bool) (t : T α) : List (Ann α) := postAllT st t 0 false

/-- A node is admitted iff (`m = none` or depth `< m`) and no node on its path satisfies `st`. -/
def admitted (m : Option Nat) (x : Ann α) : Prop :=
  (m = none ∨ ∃ k, m = some k ∧ x.depth < k) ∧ x.stopped = false

/-- Boolean form of `admitted`. -/
def admittedB (m : Option Nat) (x : Ann α) : Bool :=
  (match m with
    | none => true
    | some k => decide (x.depth < k)) && !x.stopped

/-- `admittedB` decides `admitted`. -/
theorem admittedB_iff (m : Option Nat) (x : Ann α) : admittedB m x = true ↔ admitted m x := by
  cases m <;> simp [admittedB, admitted]

instance (m : Option Nat) (x : Ann α) : Decidable (admitted m x) :=
  decidable_of_iff _ (admittedB_iff m x)

/-- The selection predicate: admitted and passing `filter_`. -/
def keep (f : α → Bool) (m : Option Nat) (x : Ann α) : Bool := admittedB m x && f x.label

/-- "budget of m". -/
def budget : Option Nat → Int
  | none => 0
  | some k => k

/-- Remaining budget at relative depth `d`. -/
def bud : Option Nat → Nat → Int
  | none, _ => 0
  | some k, d => (k : Int) - d

/-- At depth `0` the remaining budget is the "budget of m". -/
theorem bud_zero (m : Option Nat) : bud m 0 = budget m := by
  cases m <;> simp [bud, budget]

/-- Decrementing the budget corresponds to going one level deeper. -/
theorem dec_bud (m : Option Nat) (d : Nat) : dec m.isSome (bud m d) = bud m (d + 1) := by
  cases m <;> simp [dec, bud]
  omega

/-! ## Faithfulness of the definitions to the recursion of the task -/

/-- `PRE forest b` is the left-to-right concatenation of the per-tree results. -/
theorem preF_eq_flatMap (f st : α → Bool) (hm : Bool) (ts : List (T α)) (b : Int) :
    preF f st hm ts b = ts.flatMap (fun t => preT f st hm t b) := by
  induction ts with
  | nil => simp [preF]
  | cons t ts ih => simp [preF, ih]

/-- The per-tree clause of `PRE`, exactly as in the task. -/
theorem preT_node (f st : α → Bool) (hm : Bool) (a : α) (cs : List (T α)) (b : Int) :
    preT f st hm (.node a cs) b =
      if hm = true ∧ b < 1 then [] else
      if st a = true then [] else
      (if f a = true then [a] else []) ++ preF f st hm cs (dec hm b) := by
  simp [preT]

/-- The auxiliary `postNS` is `POSTF ∘ NS`. -/
theorem postNS_eq (f st : α → Bool) (hm : Bool) (ts : List (T α)) (b : Int) :
    postNS f st hm ts b = POSTF f st hm (NS st ts) b := by
  induction ts with
  | nil => simp [postNS, POSTF, NS]
  | cons t ts ih =>
    rw [postNS, ih]
    by_cases h : st t.label = true <;> simp [POSTF, NS, h]

/-- The per-tree clause of `POSTF`, exactly as in the task. -/
theorem postT_node (f st : α → Bool) (hm : Bool) (a : α) (cs : List (T α)) (b : Int) :
    postT f st hm (.node a cs) b =
      if hm = true ∧ b < 1 then [] else
      POSTF f st hm (NS st cs) (dec hm b) ++ (if f a = true then [a] else []) := by
  rw [postT, postNS_eq]

/-! ## Dead regions: below the depth bound or below a stopped node nothing is kept -/

/-- At depth `d` with flag `s` nothing can be admitted any more. -/
def dead (m : Option Nat) (d : Nat) (s : Bool) : Prop :=
  s = true ∨ ∃ k, m = some k ∧ k ≤ d

/-- Deadness is inherited by the children (one level deeper, flag only grows). -/
theorem dead_succ {m : Option Nat} {d : Nat} {s : Bool} (h : dead m d s) (x : Bool) :
    dead m (d + 1) (s || x) := by
  rcases h with h | ⟨k, hk, hd⟩
  · left; simp [h]
  · right; exact ⟨k, hk, by omega⟩

/-- A node sitting in a dead position is never selected. -/
theorem keep_dead (f : α → Bool) {m : Option Nat} {d : Nat} {s : Bool} (h : dead m d s)
    (a : α) (x : Bool) : keep f m ⟨a, d, s || x⟩ = false := by
  rcases h with h | ⟨k, hk, hd⟩
  · simp [keep, admittedB, h]
  · subst hk
    simp [keep, admittedB]
    intro h1; omega

mutual
/-- Nothing of the annotated pre-order of a tree started in a dead position is selected. -/
theorem preAllT_dead (f st : α → Bool) (m : Option Nat) :
    ∀ (t : T α) (d : Nat) (s : Bool), dead m d s → (preAllT st t d s).filter (keep f m) = []
  | .node a cs, d, s, h => by
    rw [preAllT, List.filter_cons, keep_dead f h,
      preAllF_dead f st m cs (d + 1) (s || st a) (dead_succ h _)]
    simp
/-- Nothing of the annotated pre-order of a forest started in a dead position is selected. -/
theorem preAllF_dead (f st : α → Bool) (m : Option Nat) :
    ∀ (ts : List (T α)) (d : Nat) (s : Bool), dead m d s → (preAllF st ts d s).filter (keep f m) = []
  | [], _, _, _ => by simp [preAllF]
  | t :: ts, d, s, h => by
    rw [preAllF, List.filter_append, preAllT_dead f st m t d s h, preAllF_dead f st m ts d s h]
    rfl
end

mutual
/-- Nothing of the annotated post-order of a tree started in a dead position is selected. -/
theorem postAllT_dead (f st : α → Bool) (m : Option Nat) :
    ∀ (t : T α) (d : Nat) (s : Bool), dead m d s → (postAllT st t d s).filter (keep f m) = []
  | .node a cs, d, s, h => by
    rw [postAllT, List.filter_append,
      postAllF_dead f st m cs (d + 1) (s || st a) (dead_succ h _)]
    simp [keep_dead f h]
/-- Nothing of the annotated post-order of a forest started in a dead position is selected. -/
theorem postAllF_dead (f st : α → Bool) (m : Option Nat) :
    ∀ (ts : List (T α)) (d : Nat) (s : Bool), dead m d s → (postAllF st ts d s).filter (keep f m) = []
  | [], _, _, _ => by simp [postAllF]
  | t :: ts, d, s, h => by
    rw [postAllF, List.filter_append, postAllT_dead f st m t d s h, postAllF_dead f st m ts d s h]
    rfl
end

/-- The budget test of the specification functions fails exactly in the depth-dead region. -/
theorem blocked_iff (m : Option Nat) (d : Nat) :
    (m.isSome = true ∧ bud m d < 1) ↔ ∃ k, m = some k ∧ k ≤ d := by
  cases m with
  | none => simp
  | some k =>
    simp [bud]
    omega

/-- If the budget test passes at depth `d`, an unstopped node at depth `d` is selected iff it
passes `f`. -/
theorem keep_live (f : α → Bool) (m : Option Nat) (d : Nat) (a : α)
    (h : ¬ (m.isSome = true ∧ bud m d < 1)) : keep f m ⟨a, d, false⟩ = f a := by
  cases m with
  | none => simp [keep, admittedB]
  | some k =>
    simp [bud] at h
    simp [keep, admittedB]
    intro _; omega

/-! ## Generalised statements (arbitrary depth offset) -/

mutual
/-- Generalised L5 (pre), one tree: at any depth offset `d` (budget `bud m d`, unstopped path),
`PRE` of the tree is the selected part of its annotated pre-order started at depth `d`. -/
theorem preT_gen (f st : α → Bool) (m : Option Nat) :
    ∀ (t : T α) (d : Nat),
      preT f st m.isSome t (bud m d) = ((preAllT st t d false).filter (keep f m)).map Ann.label
  | .node a cs, d => by
    rw [preT]
    by_cases hb : m.isSome = true ∧ bud m d < 1
    · rw [if_pos hb, preAllT_dead f st m _ d false (Or.inr ((blocked_iff m d).1 hb))]
      rfl
    · rw [if_neg hb]
      by_cases hs : st a = true
      · rw [if_pos hs, preAllT, List.filter_cons]
        have hd : dead m (d + 1) (false || st a) := Or.inl (by simp [hs])
        rw [preAllF_dead f st m cs _ _ hd]
        simp [keep, admittedB, hs]
      · rw [if_neg hs, preAllT, dec_bud, preF_gen f st m cs (d + 1)]
        have hs' : st a = false := by simpa using hs
        simp only [hs', Bool.or_false, List.filter_cons, keep_live f m d a hb]
        by_cases hf : f a = true <;> simp [hf]
/-- Generalised L5 (pre), forests: same as `preT_gen` for a forest of siblings at depth `d`. -/
theorem preF_gen (f st : α → Bool) (m : Option Nat) :
    ∀ (ts : List (T α)) (d : Nat),
      preF f st m.isSome ts (bud m d) = ((preAllF st ts d false).filter (keep f m)).map Ann.label
  | [], _ => by simp [preF, preAllF]
  | t :: ts, d => by
    rw [preF, preAllF, preT_gen f st m t d, preF_gen f st m ts d]
    simp
end

mutual
/-- Generalised L5 (post), one tree with unstopped root: at any depth offset `d`, `POSTF` of the
tree is the selected part of its annotated post-order started at depth `d`. -/
theorem postT_gen (f st : α → Bool) (m : Option Nat) :
    ∀ (t : T α) (d : Nat), st t.label = false →
      postT f st m.isSome t (bud m d) = ((postAllT st t d false).filter (keep f m)).map Ann.label
  | .node a cs, d, hs => by
    rw [postT]
    simp only [T.label] at hs
    by_cases hb : m.isSome = true ∧ bud m d < 1
    · rw [if_pos hb, postAllT_dead f st m _ d false (Or.inr ((blocked_iff m d).1 hb))]
      rfl
    · rw [if_neg hb, postAllT, dec_bud, postNS_gen f st m cs (d + 1)]
      simp only [hs, Bool.or_false, List.filter_append, List.map_append, List.filter_cons,
        keep_live f m d a hb]
      by_cases hf : f a = true <;> simp [hf]
/-- Generalised L5 (post), forests: `POSTF (NS forest)` at depth offset `d` is the selected part of
the annotated post-order of the whole forest (stopped siblings contribute nothing). -/
theorem postNS_gen (f st : α → Bool) (m : Option Nat) :
    ∀ (ts : List (T α)) (d : Nat),
      postNS f st m.isSome ts (bud m d) = ((postAllF st ts d false).filter (keep f m)).map Ann.label
  | [], _ => by simp [postNS, postAllF]
  | t :: ts, d => by
    rw [postNS, postAllF, postNS_gen f st m ts d]
    by_cases hs : st t.label = true
    · rw [if_pos hs]
      have hd : (postAllT st t d false).filter (keep f m) = [] := by
        cases t with
        | node a cs =>
          simp only [T.label] at hs
          rw [postAllT, List.filter_append,
            postAllF_dead f st m cs _ _ (Or.inl (by simp [hs]))]
          simp [keep, admittedB, hs]
      simp [hd]
    · have hs' : st t.label = false := by simpa using hs
      rw [if_neg hs, postT_gen f st m t d hs']
      simp
end

/-! ## Main theorems -/

/-- **L5 (pre-order).**  The budgeted pre-order specification `PRE [t] (budget of m)` (with filter
`f`, stop predicate `st` and depth bound `m`) equals the unrestricted annotated pre-order listing of
`t`, restricted to the nodes that are admitted (depth below the bound and no stop-node on the path
from the start node down to and including the node) and pass the filter `f`, projected to labels. -/
theorem L5_pre (f st : α → Bool) (m : Option Nat) (t : T α) :
    preF f st m.isSome [t] (budget m) =
      ((preAll st t).filter (fun x => admittedB m x && f x.label)).map Ann.label := by
  have := preF_gen f st m [t] 0
  rw [bud_zero] at this
  rw [this]
  simp [preAllF, preAll]
  rfl

/-- **L5 (pre-order), Prop form of the filter.** Same as `L5_pre` with the selection predicate
written as the proposition `admitted m x ∧ f x.label = true`. -/
theorem L5_pre' (f st : α → Bool) (m : Option Nat) (t : T α) :
    preF f st m.isSome [t] (budget m) =
      ((preAll st t).filter (fun x => decide (admitted m x ∧ f x.label = true))).map Ann.label := by
  rw [L5_pre]
  congr 2
  funext x
  simp [← admittedB_iff, Bool.decide_and]

/-- **L5 (post-order).**  The budgeted post-order specification `POSTF (NS [t]) (budget of m)` equals
the unrestricted annotated post-order listing of `t`, restricted to the nodes that are admitted and
pass the filter `f`, projected to labels. -/
theorem L5_post (f st : α → Bool) (m : Option Nat) (t : T α) :
    POSTF f st m.isSome (NS st [t]) (budget m) =
      ((postAll st t).filter (fun x => admittedB m x && f x.label)).map Ann.label := by
  rw [← postNS_eq]
  have := postNS_gen f st m [t] 0
  rw [bud_zero] at this
  rw [this]
  simp [postAllF, postAll]
  rfl

/-- **L5 (post-order), Prop form of the filter.** -/
theorem L5_post' (f st : α → Bool) (m : Option Nat) (t : T α) :
    POSTF f st m.isSome (NS st [t]) (budget m) =
      ((postAll st t).filter (fun x => decide (admitted m x ∧ f x.label = true))).map Ann.label := by
  rw [L5_post]
  congr 2
  funext x
  simp [← admittedB_iff, Bool.decide_and]

/-! ## Without a bound the budget is irrelevant -/

/-- Without a depth bound `PRE` on a tree does not depend on the budget. -/
theorem preT_unbounded_budget_irrelevant (f st : α → Bool) (t : T α) (b b' : Int) :
    preT f st false t b = preT f st false t b' := by
  cases t with
  | node a cs => simp [preT, dec]

/-- Without a depth bound `PRE` does not depend on the budget. -/
theorem preF_unbounded_budget_irrelevant (f st : α → Bool) (ts : List (T α)) (b b' : Int) :
    preF f st false ts b = preF f st false ts b' := by
  rw [preF_eq_flatMap, preF_eq_flatMap]
  congr 1
  funext t
  exact preT_unbounded_budget_irrelevant f st t b b'

/-- Without a depth bound `POSTF` does not depend on the budget. -/
theorem POSTF_unbounded_budget_irrelevant (f st : α → Bool) (ts : List (T α)) (b b' : Int) :
    POSTF f st false ts b = POSTF f st false ts b' := by
  unfold POSTF
  congr 1
  funext t
  cases t with
  | node a cs => simp [postT, dec]

end L5
