#!/bin/bash
D=$(mktemp -d /tmp/mutXXXX)
cp -r /repo/anytree $D/anytree
python3 - "$D/$1" "$2" "$3" <<'PY'
import sys
p,old,new=sys.argv[1:4]
s=open(p).read()
assert old in s, "pattern not found"
open(p,'w').write(s.replace(old,new,1))
PY
diff -u /repo/$1 $D/$1 | grep '^[-+]' | grep -v '^+++\|^---'
PYVC_REPO=$D python3-vt /verif/dev_res.py > $D/out.txt 2>&1
grep "NOT ACCEPTED" $D/out.txt | cut -c1-220 | head -4
grep "struct: \['" $D/out.txt | cut -c1-300
grep "^total\|Traceback" $D/out.txt | head -3
rm -rf $D
