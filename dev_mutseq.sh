#!/bin/bash
D=$(mktemp -d /tmp/mutXXXX)
cp -r /repo/anytree $D/anytree
sed -i "$2" $D/$1
diff -u /repo/$1 $D/$1 | grep '^[-+]' | grep -v '^+++\|^---'
shift; shift
PYVC_REPO=$D python3-vt /verif/dev_seq.py "$@" > $D/out.txt 2>&1
grep "NOT ACCEPTED" $D/out.txt | cut -c1-200 | head -4
grep "struct: \['" $D/out.txt | cut -c1-300
grep "^total\|Traceback\|Error" $D/out.txt | head
rm -rf $D
