import sys, time
sys.path.insert(0, '/verif')
from pyvc import heapworld, solve
from contracts import mixins
only = sys.argv[1:] 
t0=time.time()
fams = mixins.families()
allobl=[]
import os
for fam in (fams if os.environ.get("FAM") is None else [f for f in fams if f.cls == os.environ["FAM"]]):
    for key, spec in fam.specs.items():
        if only and not any(o in key[0] or o==key[1] for o in only): continue
        fi, obl, fails = heapworld.verify_spec(spec)
        print("==", key, "obligations:", len(obl), "struct:", [f.msg for f in fails])
        allobl += obl
print("gen %.1fs"%(time.time()-t0))
t0=time.time()
solve.discharge(allobl)
can=[o for o in allobl if o.kind=='CANARY']
print('canaries',len(can),'unsat (BAD):',[o.name for o in can if o.result=='unsat'])
bad=[o for o in allobl if o.result!='unsat' and o.kind not in ('CANARY','PROBE')]
for o in bad: print("NOT ACCEPTED", o.result, o.time, o.name)
print("total", len(allobl), "bad", len(bad), "solve %.1fs"%(time.time()-t0), "max", max(o.time for o in allobl))

for o in sorted(allobl,key=lambda o:-o.time)[:12]: print(o.time,o.backend,o.result,o.name[30:160])
import collections
per=collections.defaultdict(list)
for o in allobl:
    if o.kind=='CANARY':
        fn=o.name.split('/CANARY:')[0].split(':')[-1]; lab=o.name.split('exit-reachable:')[1].split('/')[0]
        per[(fn,lab)].append(o.result)
for k,v in per.items(): print(k, collections.Counter(v))
