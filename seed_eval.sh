#!/bin/bash
# usage: seed_eval.sh <dir with patch.diff demo.py> <Cxx> [more Cxx]   -- validates a seeded change and runs checks against it
S=$1; shift
D=$(mktemp -d /tmp/seedXXXX)
git -C /repo archive HEAD | tar -x -C $D
( cd $D && git init -q . && git apply --check $S/patch.diff && git apply $S/patch.diff ) || { echo "PATCH DOES NOT APPLY"; rm -rf $D; exit 2; }
echo "--- suite with change:"; ( cd $D && /venv/bin/python -m pytest -q -p no:cacheprovider tests 2>&1 | tail -1 )
echo "--- demo without change:"; ( cd /tmp && PYTHONPATH=/repo /venv/bin/python $S/demo.py >/dev/null 2>&1; echo "exit=$?" )
echo "--- demo with change:"; ( cd /tmp && PYTHONPATH=$D /venv/bin/python $S/demo.py >/dev/null 2>&1; echo "exit=$?" )
for P in "$@"; do
  echo "--- check $P against the change:"
  PYVC_REPO=$D /verif/check $P --tier quick 2>&1 | grep -v "^KNOWN" | tail -3 | cut -c1-250
  echo "exit=${PIPESTATUS[0]}"
done
rm -rf $D
