"""python3 seed_store.py <src dir with patch.diff demo.py notes.txt> <id> <property> [more properties to run]
Validates a seeded change in a scratch copy of /repo (suite, demo with/without, checks) and stores it as
/verif/seeded/<id>/{patch.diff, demo.py, notes.txt, meta.json}.  Nothing is ever applied to /repo itself."""
import json
import os
import shutil
import subprocess
import sys
import tempfile

src, sid, props = sys.argv[1], sys.argv[2], sys.argv[3:]
dst = os.path.join("/verif/seeded", sid)
os.makedirs(dst, exist_ok=True)
for f in ("patch.diff", "demo.py", "notes.txt"):
    if os.path.exists(os.path.join(src, f)) and os.path.abspath(src) != os.path.abspath(dst):
        shutil.copy(os.path.join(src, f), os.path.join(dst, f))
D = tempfile.mkdtemp(prefix="seed", dir="/tmp")
try:
    subprocess.run("git -C /repo archive HEAD | tar -x -C %s" % D, shell=True, check=True)
    r = subprocess.run("cd %s && git init -q . && git apply %s/patch.diff" % (D, dst), shell=True, capture_output=True, text=True)
    meta = {"id": sid, "breaks_property": props[0], "applies": r.returncode == 0}
    if r.returncode == 0:
        t = subprocess.run("cd %s && /venv/bin/python -m pytest -q -p no:cacheprovider tests 2>&1 | tail -1" % D, shell=True,
                           capture_output=True, text=True).stdout.strip()
        meta["suite_with_change"] = t
        d0 = subprocess.run("cd /tmp && PYTHONPATH=/repo timeout 300 /venv/bin/python %s/demo.py" % dst, shell=True, capture_output=True, text=True)
        # a demo that does not terminate with the change (e.g. a parent cycle) counts as failing: exit status 124
        d1 = subprocess.run("cd /tmp && PYTHONPATH=%s timeout 300 /venv/bin/python %s/demo.py" % (D, dst), shell=True, capture_output=True, text=True)
        meta["demo_exit_unchanged"] = d0.returncode
        meta["demo_exit_with_change"] = d1.returncode
        meta["demo_output_with_change"] = (d1.stdout + d1.stderr)[-400:]
        meta["checks"] = {}
        for p in props:
            c = subprocess.run("PYVC_REPO=%s timeout 5400 /verif/check %s --tier quick" % (D, p), shell=True, capture_output=True, text=True)
            lines = [l for l in c.stdout.splitlines() if not l.startswith("KNOWN-FINDING")]
            meta["checks"][p] = {"exit": c.returncode, "verdict": lines[-1][:300] if lines else ""}
            viol = [l for l in lines if l.startswith("VIOLATION")]
            if viol and "replay=" in viol[0]:
                rp = os.path.join("/verif", viol[0].split("replay=")[1].split()[0])
                try:
                    rd = json.load(open(rp))
                    meta["checks"][p]["failed_obligations"] = rd.get("failed_obligations", [])[:3]
                    meta["checks"][p]["struct_failures"] = rd.get("struct_failures", [])[:2]
                    meta["checks"][p]["concrete_input"] = rd.get("case")
                except Exception:
                    pass
    notes = open(os.path.join(dst, "notes.txt")).read() if os.path.exists(os.path.join(dst, "notes.txt")) else ""
    meta["needs_to_manifest"] = notes[:1200]
    meta["ran"] = ["git apply patch.diff on a scratch export of /repo HEAD (mktemp -d, removed afterwards)",
                   "/venv/bin/python -m pytest -q tests (in the scratch copy)",
                   "PYTHONPATH=<repo|scratch> /venv/bin/python demo.py",
                   "PYVC_REPO=<scratch> ./check <property> --tier quick"]
    json.dump(meta, open(os.path.join(dst, "meta.json"), "w"), indent=1)
    print(sid, meta.get("suite_with_change"), "demo", meta.get("demo_exit_unchanged"), meta.get("demo_exit_with_change"),
          {p: (v["exit"], "input" if v.get("concrete_input") else "no-input") for p, v in meta.get("checks", {}).items()})
finally:
    shutil.rmtree(D, ignore_errors=True)
