import argparse
import os
import sys
import traceback

sys.path.insert(0, os.path.dirname(os.path.abspath(__file__)))


def main():
    ap = argparse.ArgumentParser()
    ap.add_argument("pid")
    ap.add_argument("--tier", default=os.environ.get("VERIF_TIER", "quick"))
    ap.add_argument("--replay")
    a = ap.parse_args()
    seed = int(os.environ.get("VERIF_SEED", "0") or 0)
    from checks import registry
    mod = registry.MODULES.get(a.pid)
    if mod is None:
        print("unknown or unclaimed property %s" % a.pid)
        return 3
    if a.replay:
        return mod.replay(a.pid, a.replay)
    from pyvc import driver
    try:
        res = mod.run(a.pid, a.tier if a.tier in ("quick", "thorough") else "quick", seed)
    except Exception:
        traceback.print_exc()
        print("%s: checker crashed (no verdict)" % a.pid)
        return 3
    return driver.finish(res)


if __name__ == "__main__":
    sys.exit(main())
