"""Bounded scenarios with *re-entrant* hooks (C01/C16): a notification hook that itself performs a valid structural operation on
nodes other than the moving one.  The contracts assume hooks leave the forest alone (hook frame; arbitrary re-entrancy can build
a cycle behind the loop check's back, so no contract could hold for it); these scenarios only pin down what the code does today
for benign re-entrancy: every step re-reads the children list after its pre-hook, so the two views stay consistent and
_post_attach sees the node as the last child.

    python reentrant.py search <spec.json>      -> {"found": bool, "case": ..., "result": ...}
    python reentrant.py replay <case.json>
"""
import json
import sys

SCENARIOS = ["pre_attach-evicts-sibling", "pre_attach-adds-sibling", "pre_detach-evicts-sibling", "post_detach-adds-to-old",
             "pre_attach_children-evicts-foreign-child", "pre_detach_children-adds-child"]


def mk(family):
    import anytree
    base = anytree.NodeMixin if family == "NodeMixin" else anytree.LightNodeMixin

    class N(base):
        plan = None       # (hook name, callable(self, arg)) - runs once

        def __init__(self, label):
            self.label = label

        def __repr__(self):
            return self.label

        def _fire(self, hook, arg):
            pl = N.plan
            if pl and pl[0] == hook:
                N.plan = None
                pl[1](self, arg)

        def _pre_detach(self, parent):
            self._fire("_pre_detach", parent)

        def _post_detach(self, parent):
            self._fire("_post_detach", parent)

        def _pre_attach(self, parent):
            self._fire("_pre_attach", parent)

        def _post_attach(self, parent):
            N.seen_post_attach = (parent.children[-1] is self) if parent.children else False
            self._fire("_post_attach", parent)

        def _pre_detach_children(self, children):
            self._fire("_pre_detach_children", children)

        def _pre_attach_children(self, children):
            self._fire("_pre_attach_children", children)
    return N


def wf(nodes):
    errs = []
    for n in nodes:
        p = n.parent
        if p is not None and sum(1 for c in p.children if c is n) != 1:
            errs.append("%s.parent is %s but %s lists it %d times" % (n, p, p, sum(1 for c in p.children if c is n)))
        for c in n.children:
            if c.parent is not n:
                errs.append("%s lists %s whose parent is %s" % (n, c, c.parent))
        for m in nodes:
            if m is not p and any(c is n for c in m.children):
                errs.append("%s is listed by %s although its parent is %s" % (n, m, p))
        seen, x = set(), n
        while x is not None:
            if id(x) in seen:
                errs.append("cycle through %s" % n)
                break
            seen.add(id(x))
            x = x.parent
    return errs


def run_case(c):
    N = mk(c["family"])
    q, p, n, s1, s2, extra = (N(x) for x in ("q", "p", "n", "s1", "s2", "extra"))
    nodes = [q, p, n, s1, s2, extra]
    n.parent = q
    s1.parent = p
    s2.parent = q
    sc = c["scenario"]
    N.seen_post_attach = None
    if sc == "pre_attach-evicts-sibling":
        N.plan = ("_pre_attach", lambda self, par: setattr(s1, "parent", None))
        n.parent = p
        want = {"n.parent": p, "p.children": [n], "s1.parent": None}
    elif sc == "pre_attach-adds-sibling":
        N.plan = ("_pre_attach", lambda self, par: setattr(extra, "parent", p) if self is n else None)
        n.parent = p
        want = {"n.parent": p, "p.children": [s1, extra, n]}
    elif sc == "pre_detach-evicts-sibling":
        N.plan = ("_pre_detach", lambda self, par: setattr(s2, "parent", None))
        n.parent = p
        want = {"n.parent": p, "q.children": [], "p.children": [s1, n]}
    elif sc == "post_detach-adds-to-old":
        N.plan = ("_post_detach", lambda self, par: setattr(extra, "parent", q))
        n.parent = p
        want = {"n.parent": p, "q.children": [s2, extra], "p.children": [s1, n]}
    elif sc == "pre_attach_children-evicts-foreign-child":
        # q.children = [s1]: s1 still belongs to p when the hook runs; the hook makes it a root first
        N.plan = ("_pre_attach_children", lambda self, ch: setattr(s1, "parent", None))
        q.children = [s1]
        want = {"q.children": [s1], "p.children": [], "n.parent": None, "s2.parent": None}
    elif sc == "pre_detach_children-adds-child":
        N.plan = ("_pre_detach_children", lambda self, ch: setattr(extra, "parent", q))
        del q.children
        want = {"q.children": [], "extra.parent": None, "n.parent": None, "s2.parent": None}
    else:
        raise ValueError(sc)
    errs = wf(nodes)
    env = {"q": q, "p": p, "n": n, "s1": s1, "s2": s2, "extra": extra}
    for k, v in want.items():
        obj, attr = k.split(".")
        got = getattr(env[obj], attr)
        if attr == "children":
            if len(got) != len(v) or any(a is not b for a, b in zip(got, v)):
                errs.append("%s is %r, expected %r" % (k, list(got), v))
        elif got is not v:
            errs.append("%s is %r, expected %r" % (k, got, v))
    if sc.startswith("pre_attach-") and N.seen_post_attach is not True:
        errs.append("_post_attach did not see the node as the last child of its new parent")
    return errs or None


def search(spec):
    total = 0
    for fam in ("NodeMixin", "LightNodeMixin"):
        for sc in SCENARIOS:
            case = {"family": fam, "scenario": sc}
            total += 1
            try:
                bad = run_case(case)
            except Exception as e:      # noqa
                bad = ["raised %s: %s" % (type(e).__name__, e)]
            if bad:
                return {"found": True, "case": case, "result": bad, "evaluations": total}
    return {"found": False, "evaluations": total, "nontrivial": total}


def main():
    cmd = sys.argv[1]
    d = json.load(open(sys.argv[2]))
    if cmd == "search":
        print(json.dumps(search(d), default=str))
    else:
        print(json.dumps({"violation": run_case(d.get("case", d))}, default=str))


if __name__ == "__main__":
    main()
