"""Concrete side for C09 (real code): RenderTree rows against the closed form of the statement, str()/by_attr() line layout,
Node/AnyNode reprs.   python render.py search <spec.json> | replay <case.json>"""
import json
import os
import sys

sys.path.insert(0, os.path.dirname(os.path.abspath(__file__)))
import queries as Q      # noqa

VALUES = ["x", "l1\nl2", "", "a\n\nb", ["p", "q"], (), ("t",), 5, None]


def build(shape, multi):
    from anytree import Node
    nodes = []

    def rec(sh, parent):
        i = len(nodes)
        n = Node(("n%d\nsecond" % i) if (multi and i % 2) else "n%d" % i, parent=parent, val=VALUES[i % len(VALUES)], b=i)
        nodes.append(n)
        for c in sh:
            rec(c, n)
    rec(shape, None)
    return nodes


def expected_rows(start, style, childiter, maxlevel):
    """closed form of the statement: one row per node at relative depth < max(maxlevel, 1) in pre-order of the
    childiter-ordered children; segment k: bar iff the ancestor at depth k has a following sibling; last segment: branch"""
    rows = []
    empty = " " * len(style.end)

    def rec(node, flags, depth):
        if not flags:
            rows.append(("", "", node))
        else:
            segs = [style.vertical if f else empty for f in flags]
            rows.append(("".join(segs[:-1]) + (style.cont if flags[-1] else style.end), "".join(segs), node))
        if maxlevel is None or depth + 1 < max(maxlevel, 1):
            kids = list(childiter(node.children)) if node.children else []
            for i, c in enumerate(kids):
                rec(c, flags + [i < len(kids) - 1], depth + 1)
    rec(start, [], 0)
    return rows


def lines_of(pre, fill, value, via_repr):
    if not via_repr and isinstance(value, (list, tuple)):
        ls = list(value) or [""]
    else:
        ls = (repr(value) if via_repr else str(value)).splitlines() or [""]
    return ["%s%s" % (pre, ls[0])] + ["%s%s" % (fill, l) for l in ls[1:]]


def run_case(c):
    import anytree
    from anytree import RenderTree, AsciiStyle, ContStyle, ContRoundStyle, DoubleStyle, AbstractStyle, AnyNode

    def tup(x):
        return tuple(tup(y) for y in x)
    nodes = build(tup(c["shape"]), c.get("multi", False))
    start = nodes[c["start"]]
    styles = {"ascii": AsciiStyle(), "cont": ContStyle(), "round": ContRoundStyle(), "double": DoubleStyle(),
              "custom": AbstractStyle("!!", "#>", "\\>")}
    style = styles[c["style"]]
    iters = {"list": list, "reversed": lambda ch: list(reversed(ch)), "sorted": lambda ch: sorted(ch, key=lambda n: -n.b),
             "filter": lambda ch: [x for x in ch if x.b % 3 != 2]}
    ci = iters[c["childiter"]]
    kw = {"style": style, "childiter": ci}
    if c["maxlevel"] is not None:
        kw["maxlevel"] = c["maxlevel"]
    rt = RenderTree(start, **kw)
    it = iter(rt)
    for _ in range(c.get("abandon", 0)):
        try:
            next(it)
        except StopIteration:
            break
    del it
    got = [(r.pre, r.fill, r.node) for r in rt]
    exp = expected_rows(start, style, ci, c["maxlevel"])
    if len(got) != len(exp) or any(g[0] != e[0] or g[1] != e[1] or g[2] is not e[2] for g, e in zip(got, exp)):
        return "rows differ: got %r expected %r" % ([(g[0], g[1], g[2].b) for g in got], [(e[0], e[1], e[2].b) for e in exp])
    # str(): repr of each node, first line after pre, further lines after fill
    want = []
    for pre, fill, n in exp:
        want += lines_of(pre, fill, n, True)
    if str(rt) != "\n".join(want):
        return "str(RenderTree) differs"
    for sel in ("val", "name", "b", "nosuch", lambda n: n.val, lambda n: [str(n.b), "z"]):
        want = []
        for pre, fill, n in exp:
            v = sel(n) if callable(sel) else getattr(n, sel, "")
            want += lines_of(pre, fill, v, False)
        if rt.by_attr(sel) != "\n".join(want):
            return "by_attr(%r) differs: %r vs %r" % (sel if not callable(sel) else "callable", rt.by_attr(sel), "\n".join(want))
    # reprs: separator-joined path of names, public attributes sorted by name
    for n in nodes[:3]:
        path = "/" + "/".join(str(x.name) for x in n.path)
        if repr(n) != "Node(%r, b=%r, val=%r)" % (path, n.b, n.val):
            return "Node repr %r" % repr(n)
    a = AnyNode(zeta=1, alpha="x", _hidden=2)
    if repr(a) != "AnyNode(alpha='x', zeta=1)":
        return "AnyNode repr %r" % repr(a)
    # attribute names that are pieces of a hidden name ('name', 'target') are public attributes like any other; the hidden names
    # themselves are left out where the class shows them otherwise (Node: in the path; SymlinkNode: as its first argument)
    from anytree import Node, SymlinkNode
    odd = Node("top", a=1, e=2, me=3, nam=4, names=5, Name=6)
    if repr(odd) != "Node('/top', Name=6, a=1, e=2, me=3, nam=4, names=5)":
        return "Node repr %r" % repr(odd)
    a2 = AnyNode(name="x", a=1, n=2)
    if repr(a2) != "AnyNode(a=1, n=2, name='x')":
        return "AnyNode repr %r" % repr(a2)
    ln = SymlinkNode(a2)
    ln.__dict__.update({"t": 1, "get": 2})
    if repr(ln) != "SymlinkNode(%s, get=2, t=1)" % repr(a2):
        return "SymlinkNode repr %r" % repr(ln)
    return None


def search(spec):
    total = 0
    for n in range(1, spec.get("nodes", 4) + 1):
        for sh in Q.shapes(n):
            for start in ([0, 1] if n > 2 else [0]):
                for style in ("ascii", "cont", "round", "double", "custom"):
                    for ci in ("list", "reversed", "sorted", "filter"):
                        for ml in [None] + list(range(0, n + 2)):
                            for multi, abandon in ((False, 0), (True, 0), (False, 2), (False, 3)):
                                case = {"shape": sh, "start": start, "style": style, "childiter": ci, "maxlevel": ml, "multi": multi, "abandon": abandon}
                                total += 1
                                try:
                                    bad = run_case(case)
                                except Exception as e:      # noqa
                                    bad = "raised %s: %s" % (type(e).__name__, e)
                                if bad:
                                    return {"found": True, "case": case, "result": bad, "evaluations": total}
    return {"found": False, "evaluations": total, "nontrivial": total}


def main():
    d = json.load(open(sys.argv[2]))
    if sys.argv[1] == "search":
        print(json.dumps(search(d), default=str))
    else:
        print(json.dumps({"violation": run_case(d.get("case", d))}))


if __name__ == "__main__":
    main()
