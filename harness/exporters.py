"""Concrete side for C12 / C13 (real code): DotExporter, UniqueDotExporter, RenderTreeGraph, MermaidExporter on every ordered
tree shape up to N nodes with awkward names, every stop subset, filtered-out subset and maxlevel; emitted lines are parsed
back and compared with the admitted sub-forest (oracle from the property statement).

    python exporters.py search <spec.json>   spec: {"property": "C12"|"C13", "nodes": 4, "known": ["KF5"]}
    python exporters.py replay <case.json>
"""
import itertools
import json
import os
import re
import sys
import tempfile
import warnings

sys.path.insert(0, os.path.dirname(os.path.abspath(__file__)))
import queries as Q      # noqa

NAMES = ['a"b', ('t"\\', 1), "c\\d", "e f", "ü\\\"", "n", "n", 'q"', "\\"]


def esc_ref(s):
    s = s if isinstance(s, str) else str(s)      # names need not be strings: the exporters escape str(value)
    return "".join(("\\" + ch) if ch in '"\\' else ch for ch in s)


def unesc_ref(s):
    out, i = [], 0
    while i < len(s):
        if s[i] == "\\" and i + 1 < len(s):
            out.append(s[i + 1])
            i += 2
        else:
            out.append(s[i])
            i += 1
    return "".join(out)


def build(shape, eq=False):
    from anytree import Node

    class EqNode(Node):
        """all nodes compare equal and hash alike: identifiers and edges must still go by identity (statement: distinct per node)"""
        def __eq__(self, other):
            return True

        def __ne__(self, other):
            return False

        def __hash__(self):
            return 7
    cls = EqNode if eq else Node
    nodes = []

    def rec(sh, parent):
        n = cls(NAMES[len(nodes) % len(NAMES)], parent=parent)
        nodes.append(n)
        for c in sh:
            rec(c, n)
    rec(shape, None)
    return nodes


def admitted(nodes, start, stopset, maxlevel):
    adm = []

    def rec(x, lvl):
        if maxlevel is not None and lvl >= maxlevel:
            return
        if nodes.index(x) in stopset:
            return
        adm.append(x)
        for c in x.children:
            rec(c, lvl + 1)
    rec(start, 0)
    return adm


def expected(nodes, start, stopset, filtset, maxlevel):
    adm = admitted(nodes, start, stopset, maxlevel)
    decl = [x for x in adm if nodes.index(x) not in filtset]
    edges = [(p, c) for p in decl for c in p.children if any(c is d for d in decl)]
    return decl, edges


QS = r'"((?:[^"\\]|\\.)*)"'


def check_dot(cls, nodes, start, stopset, filtset, maxlevel, known, custom):
    idx = {id(n): i for i, n in enumerate(nodes)}
    kw = {}
    if stopset:
        kw["stop"] = lambda n: idx[id(n)] in stopset
    if filtset:
        kw["filter_"] = lambda n: idx[id(n)] not in filtset
    if maxlevel is not None:
        kw["maxlevel"] = maxlevel
    unique = cls.__name__ == "UniqueDotExporter"
    if custom:
        kw.update(nodeattrfunc=lambda n: 'shape=box,k="%d"' % idx[id(n)], edgeattrfunc=lambda p, c: "w=%d" % idx[id(c)],
                  edgetypefunc=lambda p, c: "--", options=["rankdir=LR;", 'node [x="y"];'], indent=2, graph="graph", name="g h")
        if not unique:
            kw["nodenamefunc"] = lambda n: "%s#%d" % (n.name, idx[id(n)])
    with warnings.catch_warnings():
        warnings.simplefilter("ignore")
        ex = cls(start, **kw)
    lines = list(ex)
    again = list(ex)
    if lines != again:
        return "repeated iteration differs"
    ind = " " * (2 if custom else 4)
    head = "%s %s {" % (("graph", "g h") if custom else ("digraph", "tree"))
    if not lines or lines[0] != head or lines[-1] != "}":
        return "header / closing brace wrong: %r .. %r" % (lines[:1], lines[-1:])
    body = lines[1:-1]
    if custom:
        if body[:2] != [ind + "rankdir=LR;", ind + 'node [x="y"];']:
            return "option lines wrong: %r" % body[:2]
        body = body[2:]
    decl, edges = expected(nodes, start, stopset, filtset, maxlevel)

    def ident(n):
        if unique:
            return None
        return "%s#%d" % (n.name, idx[id(n)]) if custom else (n.name if isinstance(n.name, str) else str(n.name))
    nlines = body[:len(decl)]
    elines = body[len(decl):]
    ids = {}
    for n, line in zip(decl, nlines):
        attr = (' [shape=box,k="%d"]' % idx[id(n)]) if custom else ((' [label="%s"]' % (n.name,)) if unique else "")
        m = re.fullmatch(re.escape(ind) + QS + re.escape(attr) + ";", line)
        if not m:
            return "node line for %r malformed: %r" % (n.name, line)
        if unique:
            ids[id(n)] = m.group(1)
        else:
            if m.group(1) != esc_ref(ident(n)) or unesc_ref(m.group(1)) != ident(n):
                return "identifier of %r not the escaped name: %r" % (ident(n), m.group(1))
            ids[id(n)] = m.group(1)
    if len(nlines) != len(decl):
        return "expected %d node lines, got %d" % (len(decl), len(nlines))
    if unique and len(set(ids.values())) != len(ids):
        return "UniqueDotExporter identifiers collide: %r" % (sorted(ids.values()),)
    got_edges = []
    for line in elines:
        m = re.fullmatch(re.escape(ind) + QS + " (->|--) " + QS + r"( \[(.*)\])?;", line)
        if not m:
            return "edge line malformed or surplus node line: %r" % line
        got_edges.append((m.group(1), m.group(3), m.group(2), m.group(5)))
    exp_edges = []
    for p, c in edges:
        exp_edges.append((ids[id(p)], ids[id(c)], "--" if custom else "->", ("w=%d" % idx[id(c)]) if custom else None))
    if got_edges != exp_edges:
        declared = set(ids.values())
        surplus = [e for e in got_edges if e not in exp_edges]
        if "KF5" in known and not unique and all(e in got_edges for e in exp_edges) and surplus and \
                all(any(c is x and nodes.index(x) in stopset for x in nodes for p in nodes if x.parent is p and esc_ref(ident(x)) == e[1])
                    for e in surplus for c in [None] or [None]):
            pass
        # known finding KF5: surplus edges whose child end is a stop node that passes filter_
        stop_children = {esc_ref(ident(x)) if not unique else None for x in nodes if nodes.index(x) in stopset and nodes.index(x) not in filtset}
        if "KF5" in known and all(e in got_edges for e in exp_edges) and surplus:
            if unique:
                # identifiers of undeclared nodes are fresh numbers: any surplus edge to an undeclared identifier
                if all(e[1] not in declared for e in surplus) and stopset:
                    return "KF5"
            elif all(e[1] in stop_children for e in surplus):
                return "KF5"
        return "edges differ: expected %r got %r" % (exp_edges, got_edges)
    return None


def check_mermaid(nodes, start, stopset, filtset, maxlevel, custom):
    from anytree.exporter import MermaidExporter
    idx = {id(n): i for i, n in enumerate(nodes)}
    kw = {}
    if stopset:
        kw["stop"] = lambda n: idx[id(n)] in stopset
    if filtset:
        kw["filter_"] = lambda n: idx[id(n)] not in filtset
    if maxlevel is not None:
        kw["maxlevel"] = maxlevel
    if custom:
        kw.update(nodefunc=lambda n: "{%d}" % idx[id(n)], edgefunc=lambda p, c: "-.%d.->" % idx[id(c)], options=["%% c", "classDef x"],
                  indent=3, graph="flowchart", name="LR", nodenamefunc=lambda n: "K%d" % idx[id(n)])
    ex = MermaidExporter(start, **kw)
    lines = list(ex)
    if lines != list(ex):
        return "repeated iteration differs"
    ind = " " * (3 if custom else 0)
    if not lines or lines[0] != ("flowchart LR" if custom else "graph TD"):
        return "header wrong: %r" % lines[:1]
    body = lines[1:]
    if custom:
        if body[:2] != [ind + "%% c", ind + "classDef x"]:
            return "option lines wrong"
        body = body[2:]
    decl, edges = expected(nodes, start, stopset, filtset, maxlevel)
    ids = {}
    for n, line in zip(decl, body[:len(decl)]):
        if custom:
            want = "%sK%d{%d}" % (ind, idx[id(n)], idx[id(n)])
            if line != want:
                return "node line %r, expected %r" % (line, want)
            ids[id(n)] = "K%d" % idx[id(n)]
        else:
            m = re.fullmatch(r'(N\d+)\["((?:[^"\\]|\\.)*)"\]', line)
            if not m or m.group(2) != esc_ref(n.name):
                return "node line for %r malformed: %r" % (n.name, line)
            ids[id(n)] = m.group(1)
    if len(body) < len(decl):
        return "expected %d node lines" % len(decl)
    if len(set(ids.values())) != len(ids):
        return "identifiers collide"
    exp = ["%s%s%s%s" % (ind, ids[id(p)], ("-.%d.->" % idx[id(c)]) if custom else "-->", ids[id(c)]) for p, c in edges]
    if body[len(decl):] != exp:
        return "edge lines differ: expected %r got %r" % (exp, body[len(decl):])
    # to_file wraps the same lines in a fence
    d = tempfile.mkdtemp(prefix="vf_mer")
    try:
        fn = os.path.join(d, "t.md")
        ex.to_file(fn)
        with open(fn, encoding="utf-8") as f:
            txt = f.read()
        if txt != "```mermaid\n" + "".join(l + "\n" for l in lines) + "```":
            return "to_file content is not the fenced listing"
    finally:
        for f in os.listdir(d):
            os.unlink(os.path.join(d, f))
        os.rmdir(d)
    return None


def run_case(c, known=()):
    from anytree.exporter import DotExporter, UniqueDotExporter
    from anytree.dotexport import RenderTreeGraph

    def tup(x):
        return tuple(tup(y) for y in x)
    nodes = build(tup(c["shape"]), c.get("eq", False))
    start = nodes[c.get("start", 0)]
    args = (nodes, start, set(c["stop"]), set(c["filt"]), c["maxlevel"])
    if c["exporter"] == "Mermaid":
        return check_mermaid(*args, c.get("custom", False))
    cls = {"Dot": DotExporter, "Unique": UniqueDotExporter, "Legacy": RenderTreeGraph}[c["exporter"]]
    r = check_dot(cls, *args, known, c.get("custom", False))
    if r is None and c["exporter"] == "Legacy":
        with warnings.catch_warnings():
            warnings.simplefilter("ignore")
            if list(RenderTreeGraph(start)) != list(DotExporter(start)):
                return "RenderTreeGraph lines differ from DotExporter"
    return r


def search(spec):
    prop = spec["property"]
    known = set(spec.get("known", []))
    exps = ["Dot", "Unique", "Legacy"] if prop == "C12" else ["Mermaid"]
    total = 0
    seen_kf = None
    for n in range(1, spec.get("nodes", 4) + 1):
        for sh in Q.shapes(n):
            for start in range(n):      # every start: the last pre-order node is always a leaf, inner non-root starts matter
                for stop in Q.subsets(range(n), None):
                    for filt in Q.subsets(range(n), None):
                        for maxlevel in [None] + list(range(0, n + 1)):
                            for exp in exps:
                                for custom in (False, True):
                                    if exp == "Legacy" and (custom or stop or filt):
                                        continue
                                    for eq in ((False, True) if not stop and not filt and exp != "Legacy" else (False,)):
                                        case = {"property": prop, "exporter": exp, "shape": sh, "start": start, "stop": list(stop),
                                                "filt": list(filt), "maxlevel": maxlevel, "custom": custom, "eq": eq}
                                        total += 1
                                        try:
                                            bad = run_case(case, known)
                                        except Exception as e:      # noqa
                                            bad = "raised %s: %s" % (type(e).__name__, e)
                                        if bad == "KF5":
                                            seen_kf = seen_kf or case
                                            continue
                                        if bad:
                                            return {"found": True, "case": case, "result": bad, "evaluations": total}
    return {"found": False, "evaluations": total, "nontrivial": total, "known_seen": {"KF5": seen_kf} if seen_kf else {}}


def main():
    cmd = sys.argv[1]
    d = json.load(open(sys.argv[2]))
    if cmd == "search":
        print(json.dumps(search(d), default=str))
    else:
        c = d.get("case", d)
        print(json.dumps({"violation": run_case(c, set(d.get("known", [])))}))


if __name__ == "__main__":
    main()
