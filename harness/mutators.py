"""Concrete side for C01/C02/C03/C16/C18 (runs under /venv/bin/python with PYTHONPATH=<repo>): builds forests of
REAL node objects, performs structural calls on the REAL code with instrumented hook classes, and judges the
outcome with a reference model written from the property statements (not from the code).

Used for: replaying counter-models of failed obligations, replaying known-finding witnesses, searching a failing
input when the verifier gives none (bounded, labelled so), COVER witnesses and the bounded stand-in.

    python mutators.py replay <file.json>          -> prints JSON verdict
    python mutators.py search <spec.json>          -> bounded search, prints JSON (first failing case or none)
"""
import itertools
import json
import os
import sys

HOOKS = ("_pre_detach", "_post_detach", "_pre_attach", "_post_attach",
         "_pre_detach_children", "_post_detach_children", "_pre_attach_children", "_post_attach_children")


class Veto(Exception):
    pass


def make_classes():
    import anytree
    from anytree import NodeMixin, LightNodeMixin

    class Ctl:
        log = []
        plan = None        # (hook, label or '*', occurrence index or 'always')
        count = 0
        snap = None        # callable returning the snapshot of the universe

    def mk(base, slots, eq=False):
        ns = {}
        if slots:
            ns["__slots__"] = ("label",)
        if eq:
            # adversarial node class: every two nodes compare equal (identity must decide, C17)
            ns["__eq__"] = lambda self, other: True
            ns["__ne__"] = lambda self, other: False
            ns["__hash__"] = lambda self: 0

        def init(self, label):
            self.label = label
        ns["__init__"] = init
        ns["__repr__"] = lambda self: "<%s>" % self.label
        for h in HOOKS:
            def hook(self, arg, _h=h):
                a = arg.label if hasattr(arg, "label") else [getattr(c, "label", repr(c)) for c in arg]
                ev = [_h, self.label, a, Ctl.snap() if Ctl.snap else None, False]
                Ctl.log.append(ev)
                pl = Ctl.plan
                if pl and pl[0] == _h and pl[1] in ("*", self.label):
                    k = Ctl.count
                    Ctl.count += 1
                    if pl[2] == "always" or pl[2] == k:
                        ev[4] = True
                        raise Veto("%s(%s)" % (_h, self.label))
            ns[h] = hook
        return type("T" + base.__name__, (base,), ns)
    fams = {"NodeMixin": (mk(NodeMixin, False), "_NodeMixin"), "LightNodeMixin": (mk(LightNodeMixin, True), "_LightNodeMixin"),
            "NodeMixin/eq": (mk(NodeMixin, False, True), "_NodeMixin"),
            "LightNodeMixin/eq": (mk(LightNodeMixin, True, True), "_LightNodeMixin")}
    return Ctl, fams


def build(fam, forest, order, fams):
    """forest: label -> parent label|None ; order: label -> [child labels] (explicit child order).  Links are
    installed by writing the two private attributes directly: the code under test does not build its own input."""
    cls, pfx = fams[fam]
    nodes = {l: cls(l) for l in forest}
    for l, p in forest.items():
        if p is not None:
            setattr(nodes[l], pfx + "__parent", nodes[p])
    for l, ch in order.items():
        if ch:
            setattr(nodes[l], pfx + "__children", [nodes[c] for c in ch])
    return nodes


def snapshot(nodes):
    par = {l: (n.parent.label if n.parent is not None else None) for l, n in nodes.items()}
    ch = {l: [c.label for c in n.children] for l, n in nodes.items()}
    return {"par": par, "ch": ch}


def raw_snapshot(nodes, pfx):
    par, ch = {}, {}
    for l, n in nodes.items():
        p = getattr(n, pfx + "__parent", None)
        par[l] = p.label if p is not None else None
        ch[l] = [c.label for c in getattr(n, pfx + "__children", [])]
    return {"par": par, "ch": ch}


def wf(s):
    """C01: the two views agree; parent chains end in a root"""
    par, ch = s["par"], s["ch"]
    errs = []
    for p, cs in ch.items():
        for c in cs:
            if par.get(c) != p:
                errs.append("%s lists %s but %s.parent is %s" % (p, c, c, par.get(c)))
        if len(set(cs)) != len(cs):
            errs.append("%s lists a child twice: %s" % (p, cs))
    for n, p in par.items():
        if p is not None and ch[p].count(n) != 1:
            errs.append("%s.parent is %s but %s.children = %s" % (n, p, p, ch[p]))
        seen, x = set(), n
        while x is not None:
            if x in seen:
                errs.append("cycle through %s" % n)
                break
            seen.add(x)
            x = par[x]
    return errs


def anc(par, n):
    out = []
    x = par[n]
    while x is not None:
        out.append(x)
        x = par[x]
    return out


# ------------------------------------------------------------------ reference model (from the property statements)
def ref_set_parent(s, n, v, fam, nonnode):
    """returns (expected exception class or None, expected state, expected hook events)"""
    par = dict(s["par"])
    ch = {k: list(x) for k, x in s["ch"].items()}
    if v in nonnode:
        # NodeMixin checks the type; LightNodeMixin has no check of its own, the request fails on the first use of the object as a
        # node ("INVALID": some exception, C03: nothing changed)
        return ("TreeError" if fam == "NodeMixin" else "INVALID"), s, []
    if v is not None and (v == n or n in anc(par, v)):
        return "LoopError", s, []
    q = par[n]
    if q == v:
        return None, s, []
    ev = []
    if q is not None:
        ch[q].remove(n)
        ev += [("_pre_detach", n, q), ("_post_detach", n, q)]
    par[n] = v
    if v is not None:
        ch[v].append(n)
        ev += [("_pre_attach", n, v), ("_post_attach", n, v)]
    return None, {"par": par, "ch": ch}, ev


def ref_del_children(s, n):
    par = dict(s["par"])
    ch = {k: list(x) for k, x in s["ch"].items()}
    old = list(ch[n])
    ev = [("_pre_detach_children", n, old)]
    for c in old:
        par[c] = None
        ev += [("_pre_detach", c, n), ("_post_detach", c, n)]
    ch[n] = []
    ev.append(("_post_detach_children", n, old))
    return None, {"par": par, "ch": ch}, ev


def ref_set_children(s, n, xs, fam, nonnode):
    if xs is None:       # non-iterable
        return "TypeError", s, []
    if any(x in nonnode for x in xs):
        if fam == "NodeMixin":
            return "TreeError", s, []
        return "INVALID", s, []
    if len(set(xs)) != len(xs):
        return "TreeError", s, []
    par0 = s["par"]
    if any(x == n or x in anc(par0, n) for x in xs):
        return "LoopError", s, []
    _, s1, ev = ref_del_children(s, n)
    ev.append(("_pre_attach_children", n, list(xs)))
    for x in xs:
        _, s1, e = ref_set_parent(s1, x, n, fam, nonnode)
        ev += e
    ev.append(("_post_attach_children", n, list(xs)))
    return None, s1, ev


def reference(s, call, fam, nonnode):
    op = call[0]
    if op == "set_parent":
        return ref_set_parent(s, call[1], call[2], fam, nonnode)
    if op == "del_children":
        return ref_del_children(s, call[1])
    if op in ("set_children", "set_children_iter"):
        return ref_set_children(s, call[1], call[2], fam, nonnode)
    raise ValueError(op)


# ------------------------------------------------------------------ one execution
def run_case(case, Ctl, fams):
    fam = case.get("family", "NodeMixin")
    forest, order = case["forest"], case.get("order")
    if order is None:
        order = {l: [c for c in forest if forest[c] == l] for l in forest}
    nonnode = set(case.get("nonnode", []))
    nodes = build(fam, forest, order, fams)
    objs = dict(nodes)
    for l in nonnode:
        objs[l] = object()
    pfx = fams[fam][1]
    before = snapshot(nodes)
    pre_errs = wf(before)
    if pre_errs:
        return {"valid": False, "reason": "pre-state not a forest: %s" % pre_errs}
    Ctl.log, Ctl.plan, Ctl.count = [], tuple(case["fault"]) if case.get("fault") else None, 0
    Ctl.snap = lambda: raw_snapshot(nodes, pfx)
    call = case["call"]
    exc = None
    try:
        if call[0] == "set_parent":
            nodes[call[1]].parent = objs[call[2]] if call[2] is not None else None
        elif call[0] == "del_children":
            del nodes[call[1]].children
        elif call[0] == "set_children":
            nodes[call[1]].children = [objs[x] for x in call[2]] if call[2] is not None else 5
        elif call[0] == "set_children_iter":
            nodes[call[1]].children = iter([objs[x] for x in call[2]])       # a one-shot iterable
    except BaseException as e:            # noqa
        exc = e
    Ctl.snap = None
    after = snapshot(nodes)
    log = [(h, r, a) for h, r, a, _, _ in Ctl.log]
    raised = [k for k, e in enumerate(Ctl.log) if e[4]]
    exp_exc, exp_state, exp_ev = reference(before, call, fam.split("/")[0], nonnode)
    if exp_exc == "PRECONDITION":
        return {"valid": False, "reason": "argument outside the property's precondition (LightNodeMixin, non-node)"}
    excname = type(exc).__name__ if exc is not None else None
    # a persistently vetoing pre-hook makes the restoring assignment of the children setter veto again and again:
    # unbounded recursion, surfacing as RecursionError (recorded with known finding KF4)
    diverged = isinstance(exc, RecursionError)
    veto = isinstance(exc, Veto) or diverged
    viol = {}
    # C01 ------------------------------------------------------------------------------------
    errs = wf(after)
    if errs:
        viol["C01"] = errs
    if isinstance(exc, AssertionError):
        viol.setdefault("C01", []).append("internal assertion fired: %r" % (exc,))
    # C02 ------------------------------------------------------------------------------------
    if not veto and exp_exc == "INVALID":
        if exc is None:
            viol["C02"] = ["an argument that is not a tree node was accepted"]
    elif not veto:
        if exp_exc != excname:
            viol["C02"] = ["expected %s, got %s (%r)" % (exp_exc, excname, exc)]
        elif exc is None and after != exp_state:
            viol["C02"] = ["post-state differs from the specified effect", {"expected": exp_state, "got": after}]
    # C03 ------------------------------------------------------------------------------------
    if exc is not None:
        refused = (excname in ("TreeError", "LoopError", "TypeError") or exp_exc == "INVALID") and not veto
        # the exception that propagates is the one raised last
        prehook = veto and raised and log[raised[-1]][0].startswith("_pre_")
        if (refused or prehook) and after != before:
            viol["C03"] = ["forest changed although the call raised %s" % (excname,), {"before": before, "after": after}]
    # C16 ------------------------------------------------------------------------------------
    if exc is None:
        if log != [tuple(e) for e in exp_ev]:
            viol["C16"] = ["hook calls differ", {"expected": exp_ev, "got": log}]
    else:
        if not veto and exp_exc in ("TreeError", "TypeError") and log:
            viol["C16"] = ["hooks were called by a call refused up front", {"got": log}]
        if veto and exp_exc is None:
            upto = log[:raised[0] + 1]
            if [tuple(e) for e in exp_ev][:len(upto)] != upto:
                viol["C16"] = ["hook calls up to the veto differ", {"expected-prefix-of": exp_ev, "got": upto}]
    # hook observations (C16): what each parent-level hook saw
    for h, r, a, snap, _ in Ctl.log:
        if snap is None or h.endswith("_children"):
            continue
        if h == "_pre_detach" and not (snap["par"][r] == a and snap["ch"][a].count(r) == 1):
            viol.setdefault("C16", []).append("_pre_detach(%s) did not see %s as child of %s" % (r, r, a))
        if h in ("_post_detach", "_pre_attach") and not (snap["par"][r] is None and r not in snap["ch"][a]):
            viol.setdefault("C16", []).append("%s(%s,%s) saw %s not as a root" % (h, r, a, r))
        if h == "_post_attach" and not (snap["par"][r] == a and snap["ch"][a] and snap["ch"][a][-1] == r):
            viol.setdefault("C16", []).append("_post_attach(%s) did not see %s as last child of %s" % (r, r, a))
    return {"valid": True, "exception": excname, "veto": veto, "before": before, "after": after, "log": log,
            "raised_at": raised, "diverged": diverged, "invalid_arg": exp_exc == "INVALID", "violations": viol}


# ------------------------------------------------------------------ known-finding case predicates (concrete)
def kf_case(case, res):
    """which listed known finding (if any) covers this concrete failing execution (cause, read off the hook log)"""
    call, log, raised = case["call"], res["log"], res["raised_at"]
    before = res["before"]
    if res.get("diverged"):
        return "KF4"
    if not res["veto"] and res["exception"] != "LoopError" and not res.get("invalid_arg"):
        return None
    if call[0] == "set_parent":
        if res["veto"] and log[raised[-1]][0] == "_pre_attach" and before["par"][call[1]] is not None:
            return "KF1"
        return None
    n = call[1]
    old = before["ch"][n]
    pac = [i for i, e in enumerate(log) if e[0] == "_pre_attach_children" and e[1] == n]
    if not pac:
        # failure in the delete phase
        e = log[raised[-1]] if raised else None
        if e and e[0] == "_pre_detach" and e[2] == n and old and e[1] != old[0]:
            return "KF2"
        return None
    if call[0] not in ("set_children", "set_children_iter"):
        return None
    xs = call[2]
    # the restore is the nested assignment n.children = old: it starts with _pre_detach_children(n, ...) after the
    # _pre_attach_children of the outer call
    rs = [i for i, e in enumerate(log) if i > pac[0] and e[0] == "_pre_detach_children" and e[1] == n]
    if rs and any(k >= rs[0] for k in raised):
        return "KF4"
    end = rs[0] if rs else len(log)
    stolen = [x for x in xs if before["par"].get(x) not in (None, n)]
    touched = {e[1] for e in log[pac[0]:end] if e[0] == "_post_detach" and e[2] != n}
    if any(x in touched for x in stolen):
        return "KF3"
    return None


# ------------------------------------------------------------------ enumeration
def forests(labels):
    """all ordered forests over exactly these labels: parent maps without cycles x all child orders"""
    n = len(labels)

    def rec(k, par):
        if k == n:
            # acyclic?
            for l in labels:
                seen, x = set(), l
                while x is not None:
                    if x in seen:
                        return
                    seen.add(x)
                    x = par[x]
            kids = {l: [c for c in labels if par[c] == l] for l in labels}
            for perm in itertools.product(*[list(itertools.permutations(kids[l])) for l in labels]):
                yield dict(par), {l: list(p) for l, p in zip(labels, perm)}
            return
        for p in [None] + [x for x in labels if x != labels[k]]:
            par[labels[k]] = p
            yield from rec(k + 1, par)
    yield from rec(0, {})


def calls(labels, nonnode, maxlen):
    tg = list(labels) + list(nonnode)
    for n in labels:
        for v in [None] + tg:
            yield ["set_parent", n, v]
        yield ["del_children", n]
        yield ["set_children", n, None]
        for k in range(0, maxlen + 1):
            for xs in itertools.product(tg, repeat=k):
                yield ["set_children", n, list(xs)]
                if k == maxlen:
                    yield ["set_children_iter", n, list(xs)]


def fault_plans(labels):
    yield None
    for h in HOOKS:
        for l in labels:
            for occ in (0, 1, "always"):
                yield [h, l, occ]
        yield [h, "*", "always"]
        yield [h, "*", 1]
        yield [h, "*", 2]


def search(spec, Ctl, fams):
    """bounded search for an execution violating one of the properties in spec['properties'] that is not a listed
    known finding"""
    N = spec.get("nodes", 3)
    labels = ["n%d" % i for i in range(N)]
    nonnode = ["obj"] if spec.get("nonnode", True) else []
    want = set(spec["properties"])
    known = set(spec.get("known", []))
    total = nontrivial = 0
    seen_kf = {}
    deadline = spec.get("max_cases")
    for fam in spec.get("families", ["NodeMixin", "LightNodeMixin"]):
        for forest, order in forests(labels):
            for call in calls(labels, nonnode, spec.get("maxlen", 2)):
                for fault in (fault_plans(labels) if spec.get("faults", True) else [None]):
                    case = {"family": fam, "forest": forest, "order": order, "nonnode": nonnode, "call": call,
                            "fault": fault}
                    res = run_case(case, Ctl, fams)
                    if not res["valid"]:
                        continue
                    total += 1
                    if res["before"] != res["after"] or res["exception"]:
                        nontrivial += 1
                    bad = {p: v for p, v in res["violations"].items() if p in want}
                    if bad:
                        kf = kf_case(case, res)
                        if (set(bad) == {"C03"} or res.get("diverged")) and kf in known:
                            seen_kf.setdefault(kf, case)
                            continue
                        return {"found": True, "case": case, "result": res, "evaluations": total,
                                "nontrivial": nontrivial}
                    if deadline and total >= deadline:
                        return {"found": False, "evaluations": total, "nontrivial": nontrivial, "truncated": True,
                                "known_seen": seen_kf}
    return {"found": False, "evaluations": total, "nontrivial": nontrivial, "known_seen": seen_kf}


def queries(nodes):
    """every read-only observation, mapped to labels"""
    import anytree
    from anytree import (LevelOrderGroupIter, LevelOrderIter, PostOrderIter, PreOrderIter, RenderTree, Resolver, Walker,
                         ZigZagGroupIter)
    from anytree.util import commonancestors, leftsibling, rightsibling
    lab = lambda x: None if x is None else (x.label if hasattr(x, "label") else [lab(y) for y in x])

    def safe(f):
        try:
            v = f()
            return v if isinstance(v, (int, bool, str)) else lab(v)
        except Exception as e:          # noqa - an exception is an observation too
            return "raises " + type(e).__name__
    out = {}
    for l, n in nodes.items():
        o = {}
        for a in ("parent", "children", "path", "ancestors", "root", "depth", "height", "is_leaf", "is_root", "siblings",
                  "descendants", "leaves", "size"):
            o[a] = safe(lambda: getattr(n, a))
        o["rpath"] = safe(lambda: list(n.iter_path_reverse()))
        for it in (PreOrderIter, PostOrderIter, LevelOrderIter, LevelOrderGroupIter, ZigZagGroupIter):
            o[it.__name__] = safe(lambda: list(it(n)))
            o[it.__name__ + "/2"] = safe(lambda: list(it(n, maxlevel=2)))
        o["left"], o["right"] = safe(lambda: leftsibling(n)), safe(lambda: rightsibling(n))
        o["render"] = safe(lambda: [[r.pre, r.fill, lab(r.node)] for r in RenderTree(n)])
        for l2, n2 in nodes.items():
            o["walk:" + l2] = safe(lambda: list(Walker().walk(n, n2)))
            o["common:" + l2] = safe(lambda: commonancestors(n, n2))
            o["get:" + l2] = safe(lambda: Resolver("label").get(n, "../" + l2))
        out[l] = o
    return out


_qmemo = {}


def diff_case(case, Ctl, fams):
    outs = {}
    sfx = "/eq" if case.get("eq") else ""
    for fam in ("NodeMixin", "LightNodeMixin"):
        c = dict(case, family=fam + sfx)
        r = run_case(c, Ctl, fams)
        if not r["valid"]:
            return {"valid": False}
        outs[fam] = {"exception": r["exception"], "after": r["after"], "log": r["log"], "changed": r["before"] != r["after"]}
    a, b = outs["NodeMixin"], outs["LightNodeMixin"]
    differs = [k for k in ("exception", "after", "log") if a[k] != b[k]]
    if not differs and wf(a["after"]) == []:
        # same structure: rebuild it in both families and ask every read-only query (once per distinct structure)
        key = json.dumps(a["after"], sort_keys=True) + sfx
        if key not in _qmemo:
            qs = {}
            for fam in ("NodeMixin", "LightNodeMixin"):
                nodes = build(fam + sfx, a["after"]["par"], a["after"]["ch"], fams)
                qs[fam] = queries(nodes)
            _qmemo[key] = qs
        a["queries"], b["queries"] = _qmemo[key]["NodeMixin"], _qmemo[key]["LightNodeMixin"]
        if a["queries"] != b["queries"]:
            differs = ["queries"]
    return {"valid": True, "differs": differs, "NodeMixin": {k: a[k] for k in differs}, "LightNodeMixin": {k: b[k] for k in differs},
            "nontrivial": a["changed"] or a["exception"] is not None}


def diffsearch(spec, Ctl, fams):
    N = spec.get("nodes", 3)
    labels = ["n%d" % i for i in range(N)]
    total = nontrivial = 0
    for forest, order in forests(labels):
        for call in calls(labels, [], spec.get("maxlen", 2)):
            for fault in fault_plans(labels):
                case = {"forest": forest, "order": order, "nonnode": [], "call": call, "fault": fault, "eq": bool(spec.get("eq"))}
                r = diff_case(case, Ctl, fams)
                if not r["valid"]:
                    continue
                total += 1
                nontrivial += 1 if r["nontrivial"] else 0
                if r["differs"]:
                    return {"found": True, "case": case, "result": r, "evaluations": total, "nontrivial": nontrivial}
                if spec.get("max_cases") and total >= spec["max_cases"]:
                    return {"found": False, "evaluations": total, "nontrivial": nontrivial, "truncated": True}
    return {"found": False, "evaluations": total, "nontrivial": nontrivial}


def main():
    Ctl, fams = make_classes()
    cmd = sys.argv[1]
    if cmd == "replay":
        case = json.load(open(sys.argv[2]))
        case = case.get("case", case)
        res = run_case(case, Ctl, fams)
        if res.get("valid"):
            res["known_finding"] = kf_case(case, res) if res["violations"] else None
        print(json.dumps(res, default=str))
    elif cmd == "search":
        spec = json.load(open(sys.argv[2]))
        print(json.dumps(search(spec, Ctl, fams), default=str))
    elif cmd == "diffsearch":
        print(json.dumps(diffsearch(json.load(open(sys.argv[2])), Ctl, fams), default=str))
    elif cmd == "diffreplay":
        case = json.load(open(sys.argv[2]))
        print(json.dumps(diff_case(case.get("case", case), Ctl, fams), default=str))
    else:
        raise SystemExit("usage")


if __name__ == "__main__":
    main()
