"""Concrete side for the read-only properties C04, C05, C06, C14, C15 (real code under /venv/bin/python):
exhaustive enumeration of ordered tree shapes up to N nodes, every node as start node, option combinations;
oracles written from the property statements.

    python queries.py search <spec.json>     spec: {"property": "C04", "nodes": 5, "family": "..."}
    python queries.py replay <case.json>
"""
import itertools
import json
import sys


def shapes(n):
    """all ordered trees with n nodes, as nested tuples of children"""
    if n == 1:
        yield ()
        return
    # children forests: compositions of n-1 into subtree sizes
    def forests(k):
        if k == 0:
            yield ()
            return
        for first in range(1, k + 1):
            for t in shapes(first):
                for rest in forests(k - first):
                    yield (t,) + rest
    yield from forests(n - 1)


def make_family(family):
    import anytree
    if family == "LightNodeMixin":
        class N(anytree.LightNodeMixin):
            __slots__ = ("name", "tag")

            def __init__(self, name):
                self.name = name

            def __repr__(self):
                return "<%s>" % self.name
        return N

    class N(anytree.NodeMixin):
        def __init__(self, name):
            self.name = name

        def __repr__(self):
            return "<%s>" % self.name
    return N


def build(shape, cls, pfx):
    """real objects, links installed directly (pre-order labels n0, n1, ...)"""
    nodes = []

    def rec(sh, parent):
        n = cls("n%d" % len(nodes))
        nodes.append(n)
        if parent is not None:
            setattr(n, pfx + "__parent", parent)
        kids = [rec(c, n) for c in sh]
        if kids:
            setattr(n, pfx + "__children", kids)
        return n
    rec(shape, None)
    return nodes


# ------------------------------------------------------------------ reference definitions over (par, ch)
class Ref:
    def __init__(self, nodes, pfx):
        self.par = {n: getattr(n, pfx + "__parent", None) for n in nodes}
        self.ch = {n: list(getattr(n, pfx + "__children", [])) for n in nodes}

    def path(self, n):
        out = [n]
        while self.par[out[0]] is not None:
            out.insert(0, self.par[out[0]])
        return out

    def pre(self, n):
        out = [n]
        for c in self.ch[n]:
            out += self.pre(c)
        return out

    def post(self, n):
        out = []
        for c in self.ch[n]:
            out += self.post(c)
        return out + [n]

    def levels(self, n):
        out, cur = [], [n]
        while cur:
            out.append(cur)
            cur = [c for x in cur for c in self.ch[x]]
        return out

    def height(self, n):
        return max([0] + [1 + self.height(c) for c in self.ch[n]])

    def admitted(self, start, stop, maxlevel):
        """C06: nodes at relative depth < maxlevel with no node on the path start..x satisfying stop"""
        adm = set()

        def rec(x, lvl):
            if maxlevel is not None and lvl >= maxlevel:
                return
            if stop(x):
                return
            adm.add(x)
            for c in self.ch[x]:
                rec(c, lvl + 1)
        rec(start, 0)
        return adm


def ids(seq):
    return [id(x) for x in seq]


def same(a, b):
    """identity-wise equality of two node sequences"""
    a, b = list(a), list(b)
    return len(a) == len(b) and all(x is y for x, y in zip(a, b))


def lab(x):
    if x is None or isinstance(x, (int, bool, str)):
        return x
    if hasattr(x, "name"):
        return x.name
    return [lab(y) for y in x]


# ------------------------------------------------------------------ oracles
def check_C04(nodes, R):
    from anytree.util import commonancestors, leftsibling, rightsibling
    for n in nodes:
        p = R.path(n)
        exp = {
            "path": p, "ancestors": p[:-1], "root": p[0], "depth": len(p) - 1, "is_root": R.par[n] is None,
            "is_leaf": not R.ch[n], "siblings": [c for c in R.ch[R.par[n]] if c is not n] if R.par[n] is not None else [],
            "descendants": R.pre(n)[1:], "leaves": [x for x in R.pre(n) if not R.ch[x]], "size": len(R.pre(n)),
            "height": R.height(n), "children": R.ch[n], "parent": R.par[n],
        }
        for a, e in exp.items():
            got = getattr(n, a)
            ok = (got is e) if a in ("root", "parent") else (got == e and type(got) is type(e)) if isinstance(e, (int, bool)) \
                else (isinstance(got, tuple) and same(got, e))
            if not ok:
                return {"what": "%s.%s" % (n.name, a), "expected": lab(e), "got": lab(got)}
        if not same(list(n.iter_path_reverse()), p[::-1]):
            return {"what": "%s.iter_path_reverse()" % n.name, "expected": lab(p[::-1]), "got": lab(list(n.iter_path_reverse()))}
        sib = R.ch[R.par[n]] if R.par[n] is not None else [n]
        k = [i for i, c in enumerate(sib) if c is n][0]
        for f, e in ((leftsibling, sib[k - 1] if k > 0 else None), (rightsibling, sib[k + 1] if k + 1 < len(sib) else None)):
            got = f(n)
            if got is not e:
                return {"what": "%s(%s)" % (f.__name__, n.name), "expected": lab(e), "got": lab(got)}
    for k in (1, 2, 3):
        for tup in itertools.product(nodes, repeat=k):
            chains = [R.path(x)[:-1] for x in tup]
            e = []
            for col in zip(*chains):
                if all(c is col[0] for c in col):
                    e.append(col[0])
                else:
                    break
            got = commonancestors(*tup)
            if not (isinstance(got, tuple) and same(got, e)):
                return {"what": "commonancestors(%s)" % lab(tup), "expected": lab(e), "got": lab(got)}
    return None


def iter_expect(R, start, kind, filt, stop, maxlevel):
    adm = R.admitted(start, stop, maxlevel)
    keep = lambda seq: [x for x in seq if x in adm and filt(x)]
    if kind == "PreOrderIter":
        return keep(R.pre(start))
    if kind == "PostOrderIter":
        return keep(R.post(start))
    lv = [[x for x in l if x in adm] for l in R.levels(start)]
    lv = [l for l in lv if l]                    # one tuple per admitted depth level
    if kind == "LevelOrderIter":
        return [x for l in lv for x in l if filt(x)]
    groups = [[x for x in l if filt(x)] for l in lv]
    if kind == "ZigZagGroupIter":
        groups = [g[::-1] if i % 2 else g for i, g in enumerate(groups)]
    return groups


ITERS = ("PreOrderIter", "PostOrderIter", "LevelOrderIter", "LevelOrderGroupIter", "ZigZagGroupIter")


def run_iter(kind, start, filt, stop, maxlevel, use_kwargs=True):
    import anytree
    cls = getattr(anytree, kind)
    kw = {}
    if filt is not None:
        kw["filter_"] = filt
    if stop is not None:
        kw["stop"] = stop
    if maxlevel is not None:
        kw["maxlevel"] = maxlevel
    got = list(cls(start, **kw))
    return got


def eq_iter(kind, got, exp):
    if kind in ("LevelOrderGroupIter", "ZigZagGroupIter"):
        return len(got) == len(exp) and all(isinstance(g, tuple) and same(g, e) for g, e in zip(got, exp))
    return same(got, exp)


def check_C05(nodes, R):
    snap = (dict(R.par), {k: list(v) for k, v in R.ch.items()})
    for n in nodes:
        for kind in ITERS:
            got = run_iter(kind, n, None, None, None)
            exp = iter_expect(R, n, kind, lambda x: True, lambda x: False, None)
            if not eq_iter(kind, got, exp):
                return {"what": "%s(%s)" % (kind, n.name), "expected": lab(exp), "got": lab(got)}
    R2 = Ref(nodes, R.pfx)
    if not all(R2.par[n] is snap[0][n] and same(R2.ch[n], snap[1][n]) for n in nodes):
        return {"what": "iteration modified the tree"}
    return None


def subsets(nodes, limit):
    for r in range(len(nodes) + 1):
        for s in itertools.combinations(range(len(nodes)), r):
            yield s


def check_C06(nodes, R, full=True):
    h = R.height(nodes[0])
    idx = {n: i for i, n in enumerate(nodes)}
    for start in (nodes if full else nodes[:1]):
        for stopset in subsets(nodes, None):
            for filtset in subsets(nodes, None):
                stop = lambda x, s=stopset: idx[x] in s
                filt = lambda x, s=filtset: idx[x] not in s
                for maxlevel in [None] + list(range(-1, h + 3)):
                    for kind in ITERS:
                        got = run_iter(kind, start, filt, stop, maxlevel)
                        exp = iter_expect(R, start, kind, filt, stop, maxlevel)
                        if not eq_iter(kind, got, exp):
                            return {"what": "%s(%s, stop=%s, filtered_out=%s, maxlevel=%s)"
                                    % (kind, start.name, list(stopset), list(filtset), maxlevel),
                                    "expected": lab(exp), "got": lab(got)}
    return None


def check_C15(nodes, R, others, w=None):
    import anytree
    w = w or anytree.Walker()
    for a in nodes:
        for b in nodes:
            pa, pb = R.path(a), R.path(b)
            k = 0
            while k < min(len(pa), len(pb)) and pa[k] is pb[k]:
                k += 1
            exp = (pa[k:][::-1], pa[k - 1], pb[k:])
            try:
                got = w.walk(a, b)
            except Exception as e:
                return {"what": "walk(%s,%s)" % (a.name, b.name), "expected": lab(exp), "got": repr(e)}
            if not (isinstance(got, tuple) and len(got) == 3 and isinstance(got[0], tuple) and isinstance(got[2], tuple)
                    and same(got[0], exp[0]) and got[1] is exp[1] and same(got[2], exp[2])):
                return {"what": "walk(%s,%s)" % (a.name, b.name), "expected": lab(exp), "got": lab(got)}
        for o in others:
            for x, y in ((a, o), (o, a)):
                try:
                    got = w.walk(x, y)
                    return {"what": "walk(%s,%s) across trees" % (x.name, y.name), "expected": "WalkError", "got": lab(got)}
                except anytree.WalkError:
                    pass
                except Exception as e:
                    return {"what": "walk(%s,%s) across trees" % (x.name, y.name), "expected": "WalkError", "got": repr(e)}
    return None


def check_C14(nodes, R):
    import anytree
    from anytree import cachedsearch, search
    idx = {n: i for i, n in enumerate(nodes)}
    for n in nodes:
        n.tag = idx[n] % 2
    if len(nodes) > 1:
        try:
            del nodes[-1].tag          # a node lacking the attribute
        except AttributeError:
            pass
    h = R.height(nodes[0])
    for start in nodes:
        for filtset in subsets(nodes, None):
            filt = lambda x, s=filtset: idx[x] in s
            for stopset in ((), (len(nodes) - 1,), (0,)):
                stop = lambda x, s=stopset: idx[x] in s
                for maxlevel in (None, 1, 2, h + 1):
                    exp = iter_expect(R, start, "PreOrderIter", filt, stop, maxlevel)
                    for mod in (search, cachedsearch):
                        for mn, mx in ((None, None), (0, None), (len(exp), len(exp)), (len(exp) + 1, None), (None, len(exp) - 1),
                                       (None, 0)):
                            should = (mn is not None and len(exp) < mn) or (mx is not None and len(exp) > mx)
                            what = "%s.findall(%s, keep=%s, stop=%s, maxlevel=%s, mincount=%s, maxcount=%s)" % (
                                mod.__name__, start.name, list(filtset), list(stopset), maxlevel, mn, mx)
                            try:
                                got = mod.findall(start, filter_=filt, stop=stop, maxlevel=maxlevel, mincount=mn, maxcount=mx)
                                if should or not (isinstance(got, tuple) and same(got, exp)):
                                    return {"what": what, "expected": "CountError" if should else lab(exp), "got": lab(got)}
                            except search.CountError as e:
                                if not should:
                                    return {"what": what, "expected": lab(exp), "got": repr(e)}
                                msg = str(e)
                                nums = [str(len(exp)), str(mn if (mn is not None and len(exp) < mn) else mx)]
                                if not all(x in msg for x in nums):
                                    return {"what": what + " message", "expected": "both numbers %s" % nums, "got": msg}
                        what = "%s.find(%s, keep=%s, stop=%s, maxlevel=%s)" % (mod.__name__, start.name, list(filtset), list(stopset), maxlevel)
                        try:
                            got = mod.find(start, filter_=filt, stop=stop, maxlevel=maxlevel)
                            if len(exp) > 1 or got is not (exp[0] if exp else None):
                                return {"what": what, "expected": "CountError" if len(exp) > 1 else lab(exp), "got": lab(got)}
                        except search.CountError as e:
                            if len(exp) <= 1:
                                return {"what": what, "expected": lab(exp), "got": repr(e)}
        for mod in (search, cachedsearch):
            for name, value in (("tag", 0), ("tag", 1), ("name", "n0"), ("nosuch", 1), ("tag", None), ("nosuch", None)):
                for maxlevel in (None, 1, 2):
                    adm = R.admitted(start, lambda x: False, maxlevel)
                    exp = [x for x in R.pre(start) if x in adm and hasattr(x, name) and getattr(x, name) == value]
                    what = "%s.findall_by_attr(%s, %r, name=%r, maxlevel=%s)" % (mod.__name__, start.name, value, name, maxlevel)
                    try:
                        got = mod.findall_by_attr(start, value, name=name, maxlevel=maxlevel)
                    except Exception as e:
                        return {"what": what, "expected": lab(exp), "got": repr(e)}
                    if not (isinstance(got, tuple) and same(got, exp)):
                        return {"what": what, "expected": lab(exp), "got": lab(got)}
                    what = what.replace("findall_by_attr", "find_by_attr")
                    try:
                        got = mod.find_by_attr(start, value, name=name, maxlevel=maxlevel)
                        if len(exp) > 1 or got is not (exp[0] if exp else None):
                            return {"what": what, "expected": "CountError" if len(exp) > 1 else lab(exp), "got": lab(got)}
                    except search.CountError as e:
                        if len(exp) <= 1:
                            return {"what": what, "expected": lab(exp), "got": repr(e)}
                    except Exception as e:
                        return {"what": what, "expected": lab(exp), "got": repr(e)}
    # the library's own node classes: a violated bound surfaces as CountError also when names are tuples (the message carries
    # repr(result)), and a SymlinkNode whose target lacks the attribute is skipped like any other node
    from anytree import AnyNode, Node, SymlinkNode
    top = Node(("t", 1))
    Node(("a", 2), parent=top)
    Node((), parent=top)
    tgt = AnyNode(id="t")
    r = AnyNode(id="r", foo=1)
    SymlinkNode(tgt, parent=r)
    AnyNode(id="x", foo=1, parent=r)
    for mod in (search, cachedsearch):
        for what, call in (("find over tuple-named Nodes", lambda: mod.find(top, lambda n: True)),
                           ("findall(maxcount=1) over tuple-named Nodes", lambda: mod.findall(top, maxcount=1)),
                           ("findall(mincount=9) over tuple-named Nodes", lambda: mod.findall(top, mincount=9))):
            try:
                got = call()
                return {"what": "%s.%s" % (mod.__name__, what), "expected": "CountError", "got": repr(got)}
            except search.CountError:
                pass
            except Exception as e:
                return {"what": "%s.%s" % (mod.__name__, what), "expected": "CountError", "got": repr(e)}
        try:
            got = mod.findall_by_attr(r, 1, name="foo")
            if [n.id for n in got] != ["r", "x"]:
                return {"what": "%s.findall_by_attr over a tree with a SymlinkNode" % mod.__name__, "expected": "['r', 'x']", "got": repr(got)}
            got = mod.find_by_attr(r, "t", name="id")
            if got is not tgt and not isinstance(got, SymlinkNode):
                return {"what": "%s.find_by_attr(id='t') through a SymlinkNode" % mod.__name__, "expected": "the link (forwarded id)", "got": repr(got)}
        except Exception as e:
            return {"what": "%s.find*_by_attr over a tree with a SymlinkNode" % mod.__name__, "expected": "no error", "got": repr(e)}
    return None


def run_shape(prop, shape, family, full=True):
    cls = make_family(family)
    pfx = "_" + family
    nodes = build(shape, cls, pfx)
    R = Ref(nodes, pfx)
    R.pfx = pfx
    if prop == "C04":
        bad = check_C04(nodes, R)
        if bad:
            return bad
        # "correct immediately after any mutation": read everything (fills any cache), mutate through the public
        # API, and compare again with the definitions over the raw links
        for a in range(len(nodes)):
            for b in [None] + list(range(len(nodes))):
                ns = build(shape, cls, pfx)
                R0 = Ref(ns, pfx)
                R0.pfx = pfx
                if check_C04(ns, R0):
                    continue
                try:
                    ns[a].parent = ns[b] if b is not None else None
                except Exception:
                    continue
                R1 = Ref(ns, pfx)
                R1.pfx = pfx
                bad = check_C04(ns, R1)
                if bad:
                    bad["after"] = "all attributes read, then %s.parent = %s" % (ns[a].name, ns[b].name if b is not None else None)
                    return bad
        return None
    if prop == "C05":
        return check_C05(nodes, R)
    if prop == "C06":
        return check_C06(nodes, R, full)
    if prop == "C14":
        return check_C14(nodes, R)
    if prop == "C15":
        other = build(((),), cls, pfx)
        for o in other:
            o.name = "other_" + o.name
        bad = check_C15(nodes, R, other)
        if bad:
            return bad
        # the statement is about the tree as it is at the call: walk every pair (fills any cache on the nodes or on the
        # walker), change one link through the public API, and compare again with the definition over the raw links
        import anytree
        for a in range(len(nodes)):
            for b in [None] + list(range(len(nodes))):
                ns = build(shape, cls, pfx)
                R0 = Ref(ns, pfx)
                R0.pfx = pfx
                w = anytree.Walker()
                if check_C15(ns, R0, (), w):
                    continue
                try:
                    ns[a].parent = ns[b] if b is not None else None
                except Exception:
                    continue
                R1 = Ref(ns, pfx)
                R1.pfx = pfx
                if b is None:
                    # a detached subtree: pairs across the two trees must raise WalkError, pairs inside each are checked
                    sub = R1.pre(ns[a])
                    rest = [x for x in ns if not any(x is y for y in sub)]
                    bad = (check_C15(sub, R1, rest, w) if rest else None) or (check_C15(rest, R1, sub, w) if rest else check_C15(sub, R1, (), w))
                else:
                    bad = check_C15(ns, R1, (), w)
                if bad:
                    bad["after"] = "all pairs walked, then %s.parent = %s" % (ns[a].name, ns[b].name if b is not None else None)
                    return bad
        return None
    raise ValueError(prop)


def search(spec):
    prop = spec["property"]
    total = 0
    if prop == "C06":
        # the unrestricted orders first (larger trees are affordable without the option combinations)
        r = search(dict(spec, property="C05", nodes=spec.get("nodes", 4) + 2))
        if r.get("found"):
            r["case"]["property"] = "C05"
            r["note"] = "found with all options at their defaults (filter_=stop=maxlevel=None)"
            return r
        total = r["evaluations"]
    for family in spec.get("families", ["NodeMixin", "LightNodeMixin"]):
        for n in range(1, spec.get("nodes", 5) + 1):
            for sh in shapes(n):
                total += 1
                bad = run_shape(prop, sh, family, spec.get("full", True))
                if bad:
                    return {"found": True, "case": {"property": prop, "shape": sh, "family": family}, "result": bad,
                            "evaluations": total}
    return {"found": False, "evaluations": total, "nontrivial": max(0, total - 2)}


def main():
    cmd = sys.argv[1]
    d = json.load(open(sys.argv[2]))
    if cmd == "search":
        print(json.dumps(search(d), default=str))
    else:
        c = d.get("case", d)

        def tup(x):
            return tuple(tup(y) for y in x)
        bad = run_shape(c["property"], tup(c["shape"]), c["family"])
        print(json.dumps({"violation": bad}, default=str))


if __name__ == "__main__":
    main()
