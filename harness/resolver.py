"""Concrete side for C07 (Resolver.get) and C08 (Resolver.glob) on the real code: small trees with awkward names,
all paths/patterns over a component alphabet, every ignorecase/relax combination, two separators/path attributes,
cache histories.  Oracles are written from the property statements.

    python resolver.py search <spec.json>    {"property": "C07"|"C08", "nodes": 4, "comps": 3}
    python resolver.py replay <case.json>
"""
import itertools
import json
import os
import re
import sys

sys.path.insert(0, os.path.dirname(os.path.abspath(__file__)))
import queries as Q      # noqa

# None: the node has no path attribute at all (it resolves as 'None', and error messages must still be built)
NAMESETS = [["r", "a", "A", "b", "c"], ["r", "a*", "a", "?", "a.b"], ["top", "x", "x", "X", "y"], ["r", "a", None, "b", None],
            # names made of characters that other pattern languages treat specially (index 4: used by the META stage only)
            ["r", "a[0]", "a0", "[!a]", "a+"]]
META = ["a[0]", "a0", "[!a]", "a[0]*", "?[0]", "[*", "a+", "a?", "*"]


def mk(shape, names, sep, attr):
    import anytree

    class N(anytree.NodeMixin):
        separator = sep

        def __init__(self, nm, parent=None):
            if nm is not None:
                setattr(self, attr, nm)
            self.label = None
            self.parent = parent

        def __repr__(self):
            return "<%s>" % getattr(self, attr, None)
    nodes = []

    def rec(sh, parent):
        n = N(names[len(nodes) % len(names)], parent)
        n.label = "n%d" % len(nodes)
        nodes.append(n)
        for c in sh:
            rec(c, n)
    rec(shape, None)
    return nodes


def nameof(n, attr):
    return str(getattr(n, attr, None))


def cmp_(a, b, ic):
    return a.upper() == b.upper() if ic else a == b


def wild(pat):
    return "*" in pat or "?" in pat


def wmatch(name, pat, ic):
    """the statement's wildcard semantics: * any run, ? exactly one character, everything else itself, anchored"""
    rx = "".join(".*" if ch == "*" else "." if ch == "?" else re.escape(ch) for ch in pat)
    return re.fullmatch(rx, name, (re.I if ic else 0) | re.S) is not None


# ------------------------------------------------------------------ reference semantics of get
def ref_start(node, path, attr, ic, matcher):
    sep = node.separator
    parts = path.split(sep)
    if path.startswith(sep):
        root = node.root
        parts = parts[1:]
        if not parts[0]:
            return None, None, "ResolverError"
        if not matcher(nameof(root, attr), parts[0], ic):
            return None, None, "ResolverError"
        return root, parts[1:], None
    return node, parts, None


def ref_get(node, path, attr, ic):
    n, parts, err = ref_start(node, path, attr, ic, cmp_)
    if err:
        return None, err
    for part in parts:
        if part == "..":
            if n.parent is None:
                return None, "RootResolverError"
            n = n.parent
        elif part in ("", "."):
            pass
        else:
            for c in n.children:
                if cmp_(nameof(c, attr), part, ic):
                    n = c
                    break
            else:
                return None, "ChildResolverError"
    return n, None


# ------------------------------------------------------------------ reference semantics of glob (relaxed denotation + dead ends)
def pre(n):
    out = [n]
    for c in n.children:
        out += pre(c)
    return out


def ref_glob(node, path, attr, ic):
    """returns (result list in the order of the statement, set of 'genuine dead ends' met)"""
    n, parts, err = ref_start(node, path, attr, ic, wmatch)
    dead = []
    if err:
        return [], ["root-component"]

    def go(x, ps):
        if not ps:
            return [x]
        name, rest = ps[0], ps[1:]
        if name == "..":
            if x.parent is None:
                dead.append("..@" + x.label)
                return []
            return go(x.parent, rest)
        if name in ("", "."):
            return go(x, rest)
        if name == "**":
            out = []
            for s in pre(x):
                for m in go(s, rest):
                    if not any(m is o for o in out):
                        out.append(m)
            return out
        out = []
        hit = False
        for c in x.children:
            if wmatch(nameof(c, attr), name, ic):
                hit = True
                out += go(c, rest)
        if not hit and not wild(name):
            dead.append("%s@%s" % (name, x.label))
        return out
    return go(n, parts), dead


def lab(x):
    return None if x is None else (x.label if hasattr(x, "label") else [lab(y) for y in x])


def uniq_names(nodes, attr, ic):
    for n in nodes:
        ns = [nameof(c, attr) for c in n.children]
        if ic:
            ns = [x.upper() for x in ns]
        if len(set(ns)) != len(ns):
            return False
    return True


def run_case(c):
    import anytree
    from anytree import Resolver, Walker

    def tup(x):
        return tuple(tup(y) for y in x)
    nodes = mk(tup(c["shape"]), NAMESETS[c["names"]], c["sep"], c["attr"])
    start = nodes[c["start"]]
    ic, relax, attr = c["ic"], c["relax"], c["attr"]
    Resolver._match_cache.clear()     # every case starts from an empty cache; the history below then varies its contents
    # cache history (C08): earlier glob calls, possibly by a resolver with the other ignorecase flag
    for h in c.get("history", []):
        try:
            Resolver(attr, ignorecase=h[1], relax=True).glob(nodes[0], h[0])
        except Exception:
            pass
    r = Resolver(attr, ignorecase=ic, relax=relax)
    path = c["path"]
    if c["property"] == "C07":
        if c.get("roundtrip"):
            if not uniq_names(nodes, attr, ic) or any(nameof(n, attr) in ("", ".", "..") or c["sep"] in nameof(n, attr) for n in nodes):
                return None
            for m in nodes:
                for n in nodes:
                    ab = c["sep"] + c["sep"].join(nameof(x, attr) for x in n.path)
                    up, cm, dn = Walker().walk(m, n)
                    rel = c["sep"].join([".."] * len(up) + [nameof(x, attr) for x in dn]) or "."
                    for p_ in (ab, rel):
                        try:
                            got = r.get(m, p_)
                        except Exception as e:      # noqa
                            return "get(%s, %r) raised %s" % (m.label, p_, type(e).__name__)
                        if got is not n:
                            return "get(%s, %r) is %s, expected %s" % (m.label, p_, lab(got), n.label)
            return None
        exp, err = ref_get(start, path, attr, ic)
        try:
            got = r.get(start, path)
        except anytree.ResolverError as e:
            if relax:
                return "relax=True raised %s" % type(e).__name__
            if err != type(e).__name__:
                return "raised %s, expected %s" % (type(e).__name__, err or lab(exp))
            return None
        except Exception as e:      # noqa
            return "raised %s: %s" % (type(e).__name__, e)
        if err:
            return None if (relax and got is None) else "returned %s, expected %s" % (lab(got), err if not relax else None)
        return None if got is exp else "returned %s, expected %s" % (lab(got), lab(exp))
    # C08
    if not relax and not uniq_names(nodes, attr, ic):
        # duplicates among siblings (also ignoring case when ignorecase is set) are in the property's scope for relaxed mode only
        return None
    exp, dead = ref_glob(start, path, attr, ic)
    try:
        got = r.glob(start, path)
    except anytree.ResolverError as e:
        if relax:
            return "relax=True raised %s" % type(e).__name__
        if not dead:
            return "strict glob raised %s although no literal component, root component or '..' step is a dead end" % type(e).__name__
        comps = [p for p in path.split(start.separator)]
        if not any(wild(p) or p == "**" for p in comps) and uniq_names(nodes, attr, ic):
            _, gerr = ref_get(start, path, attr, ic)
            if gerr != type(e).__name__:
                return "wildcard-free strict glob raised %s, get raises %s" % (type(e).__name__, gerr)
        return None
    except Exception as e:      # noqa
        return "raised %s: %s" % (type(e).__name__, e)
    if not isinstance(got, list):
        return "result is not a list"
    comps = path.split(start.separator)
    if len(got) != len(exp) or any(g is not e_ for g, e_ in zip(got, exp)):
        # as a set always; in pre-order/without duplicates only in the cases the statement names
        same_set = {id(x) for x in got} == {id(x) for x in exp}
        ordered = "**" not in comps and ".." not in comps
        if not same_set or ordered:
            return "returned %s, expected %s" % (lab(got), lab(exp))
    return None


COMPS = ["a", "b", "A", "x", "..", ".", "", "*", "a*", "?", "**", "r", "top", "zz", "a.b"]


def paths(k, sep, glob):
    comps = [c for c in COMPS if glob or not (wild(c) or c == "**")]
    if not glob:
        # get treats wildcard characters literally - also in the root component of an absolute path
        for root in ("r*", "?", "t*", "*", "to?"):
            yield sep + root
            yield sep + root + sep + "a"
    for n in range(1, k + 1):
        for t in itertools.product(comps, repeat=n):
            yield sep.join(t)
            if n <= 2:
                yield sep + sep.join(t)


def search(spec):
    prop = spec["property"]
    total = 0
    for nn in range(1, spec.get("nodes", 4) + 1):
        for sh in Q.shapes(nn):
            for names in range(4):
                # a separator of more than one character as well (first name set only, to keep the cost)
                for sep, attr in (("/", "name"), ("|", "tag")) + ((("::", "name"),) if names == 0 else ()):
                    if prop == "C07":
                        for ic in (False, True):
                            case = {"property": prop, "shape": sh, "names": names, "sep": sep, "attr": attr, "start": 0, "ic": ic,
                                    "relax": False, "path": "", "roundtrip": True}
                            total += 1
                            bad = run_case(case)
                            if bad:
                                return {"found": True, "case": case, "result": bad, "evaluations": total}
                    for start in ([0, nn - 1] if nn > 1 else [0]):
                        for path in paths(spec.get("comps", 2), sep, prop == "C08"):
                            for ic in (False, True):
                                for relax in (False, True):
                                    hist = [[]]
                                    if prop == "C08" and names == 0 and sep == "/":
                                        hist = [[], [[path, not ic]], [["a*", ic], [path.upper(), not ic]]]
                                    for h in hist:
                                        case = {"property": prop, "shape": sh, "names": names, "sep": sep, "attr": attr, "start": start,
                                                "ic": ic, "relax": relax, "path": path, "history": h}
                                        total += 1
                                        try:
                                            bad = run_case(case)
                                        except Exception as e:      # noqa
                                            bad = "harness error %s: %s" % (type(e).__name__, e)
                                        if bad:
                                            return {"found": True, "case": case, "result": bad, "evaluations": total}
    if prop == "C08":
        # deep patterns over a small alphabet: a dead end in one alternative of '**' / a wildcard must not cost the others
        # their matches (strict and relaxed results agree whenever strict mode returns) - needs 4 components to show (D11)
        for nn in range(1, 4):
            for sh in Q.shapes(nn):
                for path in ("/".join(t) for t in itertools.product(["a", "..", "*", "**", "a*", "."], repeat=spec.get("deep", 4))):
                    for start in range(nn):
                        for relax in (False, True):
                            case = {"property": prop, "shape": sh, "names": 0, "sep": "/", "attr": "name", "start": start, "ic": False,
                                    "relax": relax, "path": path, "history": []}
                            total += 1
                            try:
                                bad = run_case(case)
                            except Exception as e:      # noqa
                                bad = "harness error %s: %s" % (type(e).__name__, e)
                            if bad:
                                return {"found": True, "case": case, "result": bad, "evaluations": total}
    # every character other than * and ? stands for itself (statement): names and patterns with [ ] ! + in them
    for nn in range(1, 5):
        for sh in Q.shapes(nn):
            for n_ in (1, 2):
                for t in itertools.product(META, repeat=n_):
                    if prop == "C07" and any(wild(x) for x in t):
                        continue
                    for path in ("/".join(t), "/r/" + "/".join(t)):
                        for ic in (False, True):
                            for relax in (False, True):
                                case = {"property": prop, "shape": sh, "names": 4, "sep": "/", "attr": "name", "start": 0, "ic": ic,
                                        "relax": relax, "path": path, "history": []}
                                total += 1
                                try:
                                    bad = run_case(case)
                                except Exception as e:      # noqa
                                    bad = "harness error %s: %s" % (type(e).__name__, e)
                                if bad:
                                    return {"found": True, "case": case, "result": bad, "evaluations": total}
    return {"found": False, "evaluations": total, "nontrivial": total}


def main():
    cmd = sys.argv[1]
    d = json.load(open(sys.argv[2]))
    if cmd == "search":
        print(json.dumps(search(d), default=str))
    else:
        print(json.dumps({"violation": run_case(d.get("case", d))}))


if __name__ == "__main__":
    main()
