"""Concrete side for C19 (real code, CPython's pickle/copy): every tree shape up to N nodes over a mix of node classes, every
node as entry point, every pickle protocol (>= 2 for __slots__ classes) and deepcopy: isomorphic, disjoint, consistent copy in
which the result occupies the entry node's position, symlink targets mapped, mutation independent.
    python pickling.py search <spec.json> | replay <case.json>"""
import copy
import json
import os
import pickle
import sys

sys.path.insert(0, os.path.dirname(os.path.abspath(__file__)))
import queries as Q      # noqa
import anytree           # noqa
from anytree import AnyNode, LightNodeMixin, Node, NodeMixin, SymlinkNode      # noqa


class UserNode(NodeMixin):
    def __init__(self, label, parent=None):
        self.label = label
        self.data = {"k": [label, 1.5, None]}
        self.parent = parent


class LightWithDict(LightNodeMixin):
    """a LightNodeMixin class that does not declare __slots__: attributes live in the instance dict"""

    def __init__(self, label, parent=None):
        self.label = label
        self.data = [label]
        self.parent = parent


class UserLight(LightNodeMixin):
    __slots__ = ("label", "data")

    def __init__(self, label, parent=None):
        self.label = label
        self.data = (label, True)
        self.parent = parent


class LightStr(LightNodeMixin):
    """a single slot declared as a plain string (Python reads it as one slot name, not as characters)"""
    __slots__ = "label"

    def __init__(self, label, parent=None):
        self.label = label
        self.parent = parent


def make(kind, i, parent, nodes):
    if kind == "LightStr":
        return LightStr("s%d" % i, parent)
    if kind == "Node":
        return Node("n%d" % i, parent=parent, extra=[i])
    if kind == "AnyNode":
        return AnyNode(parent=parent, id=i, tag="t%d" % i)
    if kind == "User":
        return UserNode("u%d" % i, parent)
    if kind == "Light":
        return UserLight("l%d" % i, parent)
    if kind == "LightDict":
        return LightWithDict("d%d" % i, parent)
    if kind == "Symlink":
        tgt = nodes[0] if nodes else Node("detached-target")
        return SymlinkNode(tgt, parent=parent)
    raise ValueError(kind)


MIXES = [["Node"], ["AnyNode", "Node"], ["User", "Symlink", "Node"], ["Node", "Node", "Symlink", "AnyNode"], ["Light"], ["LightDict"], ["LightStr"]]


def build(shape, mix):
    nodes = []

    def rec(sh, parent):
        n = make(mix[len(nodes) % len(mix)], len(nodes), parent, nodes)
        nodes.append(n)
        for c in sh:
            rec(c, n)
    rec(shape, None)
    return nodes


def attrs(n):
    if isinstance(n, LightNodeMixin):
        d = {s: getattr(n, s) for s in ("label", "data") if hasattr(n, s)}
        d.update({k: v for k, v in getattr(n, "__dict__", {}).items() if not k.startswith("_LightNodeMixin")})
    else:
        d = {k: v for k, v in n.__dict__.items() if k not in ("_NodeMixin__parent", "_NodeMixin__children", "target")}
    return d


def wf(root):
    for n in anytree.PreOrderIter(root):
        for c in n.children:
            if c.parent is not n:
                return "child does not point back"
        if n.parent is not None and sum(1 for c in n.parent.children if c is n) != 1:
            return "node not exactly once among its parent's children"
    return None


def compare(a_root, b_root):
    """isomorphism of the two whole trees; returns (error or None, mapping original id -> copy)"""
    m = {}

    def rec(a, b):
        if type(a) is not type(b):
            return "class differs: %s vs %s" % (type(a).__name__, type(b).__name__)
        if a is b:
            return "copy shares a node object with the original"
        m[id(a)] = b
        if len(a.children) != len(b.children):
            return "shape differs"
        if repr(sorted(attrs(a).items(), key=str)) != repr(sorted(attrs(b).items(), key=str)):
            return "attributes differ: %r vs %r" % (attrs(a), attrs(b))
        for x, y in zip(a.children, b.children):
            e = rec(x, y)
            if e:
                return e
        return None
    return rec(a_root, b_root), m


def run_case(c):
    def tup(x):
        return tuple(tup(y) for y in x)
    nodes = build(tup(c["shape"]), MIXES[c["mix"]])
    entry = nodes[c["entry"]]
    how = c["how"]
    try:
        cp = copy.deepcopy(entry) if how == "deepcopy" else pickle.loads(pickle.dumps(entry, how))
    except Exception as e:      # noqa
        return "raised %s: %s" % (type(e).__name__, e)
    err, m = compare(entry.root, cp.root)
    if err:
        return err
    if m.get(id(entry)) is not cp:
        return "the result does not occupy the entry node's position"
    e = wf(cp.root)
    if e:
        return "copy inconsistent: " + e
    for a in nodes:
        if isinstance(a, SymlinkNode):
            b = m[id(a)]
            if id(a.target) in m:
                if b.target is not m[id(a.target)]:
                    return "symlink target of the copy is not the copied node"
            elif b.target is a.target:
                return "symlink target outside the tree is shared with the original"
    # independence
    before = [(getattr(x.parent, "name", None), len(x.children)) for x in nodes]
    for b in list(m.values())[1:]:
        old = b.parent
        b.parent = None
        if old is not None and any(c_ is b for c_ in old.children):
            return "a node detached in the copy is still listed among its former parent's children"
        e = wf(cp.root) or wf(b)
        if e:
            return "copy inconsistent after a mutation: " + e
    if [(getattr(x.parent, "name", None), len(x.children)) for x in nodes] != before:
        return "mutating the copy changed the original"
    return None


def search(spec):
    total = 0
    for mix in range(len(MIXES)):
        for n in range(1, spec.get("nodes", 4) + 1):
            for sh in Q.shapes(n):
                for entry in range(n):
                    for how in ["deepcopy"] + list(range(2 if MIXES[mix][0].startswith("Light") else 0, pickle.HIGHEST_PROTOCOL + 1)):
                        case = {"shape": sh, "mix": mix, "entry": entry, "how": how}
                        total += 1
                        bad = run_case(case)
                        if bad:
                            return {"found": True, "case": case, "result": bad, "evaluations": total}
    return {"found": False, "evaluations": total, "nontrivial": total}


def main():
    d = json.load(open(sys.argv[2]))
    if sys.argv[1] == "search":
        print(json.dumps(search(d), default=str))
    else:
        print(json.dumps({"violation": run_case(d.get("case", d))}))


if __name__ == "__main__":
    main()
