"""Concrete side for C17 (real code): node classes whose comparison / hash / truth / container special methods are all
overridden (recording every invocation and answering adversarially) are run through every structural operation of the
library; the results, mapped to labels, must equal those of a plain node class and nothing may be recorded.

    python special.py search <spec.json> | replay <case.json>
"""
import json
import os
import sys
import warnings

sys.path.insert(0, os.path.dirname(os.path.abspath(__file__)))
import queries as Q      # noqa

REC = []


def make(kind, family):
    import anytree
    base = anytree.NodeMixin if family == "NodeMixin" else anytree.LightNodeMixin
    ns = {}
    if family != "NodeMixin":
        ns["__slots__"] = ("name", "label")

    def init(self, name, parent=None):
        self.name = name
        self.label = name
        self.parent = parent
    ns["__init__"] = init
    ns["__repr__"] = lambda self: "<%s>" % self.label
    if kind == "adversarial":
        def rec(nm, ret, raises=False):
            def f(self, *a):
                REC.append(nm)
                if raises:
                    raise RuntimeError("special method %s used" % nm)
                return ret
            return f
        ns.update(__eq__=rec("__eq__", True), __ne__=rec("__ne__", False), __hash__=rec("__hash__", 0), __bool__=rec("__bool__", False),
                  __len__=rec("__len__", 0), __iter__=rec("__iter__", None, True), __contains__=rec("__contains__", True),
                  __getitem__=rec("__getitem__", None, True), __lt__=rec("__lt__", True), __le__=rec("__le__", True),
                  __gt__=rec("__gt__", True), __ge__=rec("__ge__", True))
    return type("N_" + kind, (base,), ns)


def build(shape, cls):
    nodes = []

    def rec(sh, parent):
        n = cls("n%d" % len(nodes), parent)
        nodes.append(n)
        for c in sh:
            rec(c, n)
    rec(shape, None)
    return nodes


def lab(x):
    if x is None or isinstance(x, (int, bool, str)):
        return x
    if hasattr(x, "label"):
        return x.label
    if hasattr(x, "pre") and hasattr(x, "node"):
        return [x.pre, x.fill, lab(x.node)]
    return [lab(y) for y in x]


def battery(nodes):
    """every structural operation; returns {operation: result mapped to labels or exception class}"""
    import anytree
    from anytree import (LevelOrderGroupIter, LevelOrderIter, PostOrderIter, PreOrderIter, RenderTree, Resolver, Walker, ZigZagGroupIter,
                         find, findall, find_by_attr, findall_by_attr)
    from anytree import cachedsearch
    from anytree.exporter import DotExporter, MermaidExporter, UniqueDotExporter
    from anytree.util import commonancestors, leftsibling, rightsibling
    out = {}

    def run(name, f):
        try:
            out[name] = lab(f())
        except Exception as e:      # noqa
            out[name] = "raises " + type(e).__name__
    for i, n in enumerate(nodes):
        for a in ("parent", "children", "path", "ancestors", "root", "depth", "height", "is_leaf", "is_root", "siblings", "descendants",
                  "leaves", "size"):
            run("%d.%s" % (i, a), lambda: getattr(n, a))
        run("%d.rpath" % i, lambda: list(n.iter_path_reverse()))
        for it in (PreOrderIter, PostOrderIter, LevelOrderIter, LevelOrderGroupIter, ZigZagGroupIter):
            run("%d.%s" % (i, it.__name__), lambda: list(it(n)))
            run("%d.%s/opts" % (i, it.__name__), lambda: list(it(n, filter_=lambda x: x.label != "n1", stop=lambda x: x.label == "n2", maxlevel=3)))
        run("%d.left" % i, lambda: leftsibling(n))
        run("%d.right" % i, lambda: rightsibling(n))
        run("%d.render" % i, lambda: list(RenderTree(n)))
        run("%d.render.by_attr" % i, lambda: RenderTree(n).by_attr("label"))
        run("%d.findall" % i, lambda: findall(n, filter_=lambda x: x.label in ("n0", "n2", "n3")))
        run("%d.find" % i, lambda: find(n, lambda x: x.label == "n1"))
        run("%d.findall_by_attr" % i, lambda: findall_by_attr(n, "n1", name="label"))
        run("%d.find_by_attr" % i, lambda: find_by_attr(n, "n2", name="label"))
        run("%d.cached.findall" % i, lambda: cachedsearch.findall(n, filter_=lambda x: x.label != "n0"))
        for ex in (DotExporter, UniqueDotExporter, MermaidExporter):
            kw = {"nodenamefunc": (lambda x: x.label)} if ex is DotExporter else {}
            run("%d.%s" % (i, ex.__name__), lambda: [l for l in ex(n, **kw)])
        r = Resolver("label")
        for p in ("n1", "*", "**", "../*", "/n0/*", "n1/..", "**/n3", "?1"):
            run("%d.glob:%s" % (i, p), lambda: r.glob(n, p))
            run("%d.glob-relax:%s" % (i, p), lambda: Resolver("label", relax=True).glob(n, p))
        for p in ("n1", "..", "/n0", "n1/n2", "./n1"):
            run("%d.get:%s" % (i, p), lambda: r.get(n, p))
        for j, m in enumerate(nodes):
            run("%d.walk.%d" % (i, j), lambda: list(Walker().walk(n, m)))
            run("%d.common.%d" % (i, j), lambda: commonancestors(n, m))
            run("%d.common3.%d" % (i, j), lambda: commonancestors(n, m, nodes[0]))
    # mutations: every parent assignment, children assignment and deletion, each from a fresh copy is too slow: one sequence
    snaps = []

    def snap():
        snaps.append([[lab(x.parent), lab(x.children)] for x in nodes])
    k = len(nodes)
    for i in range(k):
        for j in range(k):
            run("set %d.parent=%d" % (i, j), lambda: setattr(nodes[i], "parent", nodes[j]))
            snap()
    if k >= 3:
        run("children", lambda: setattr(nodes[0], "children", [nodes[2], nodes[1]]))
        snap()
        run("children-dup", lambda: setattr(nodes[0], "children", [nodes[1], nodes[1]]))
        snap()
        run("children-loop", lambda: setattr(nodes[1], "children", [nodes[0]]))
        snap()
    run("del", lambda: delattr(nodes[0], "children"))
    snap()
    for i in range(k):
        run("detach %d" % i, lambda: setattr(nodes[i], "parent", None))
    snap()
    out["snapshots"] = snaps
    return out


def run_case(c):
    def tup(x):
        return tuple(tup(y) for y in x)
    sh = tup(c["shape"])
    res = {}
    for kind in ("plain", "adversarial"):
        del REC[:]
        with warnings.catch_warnings():
            warnings.simplefilter("ignore")
            nodes = build(sh, make(kind, c["family"]))
            del REC[:]
            res[kind] = battery(nodes)
        if kind == "adversarial" and REC:
            return "special methods of node objects were invoked by the library: %s" % sorted(set(REC))
    if res["plain"] != res["adversarial"]:
        diff = [k for k in res["plain"] if res["plain"][k] != res["adversarial"].get(k)]
        k0 = diff[0]
        return "result differs from a plain node class for %s: plain %r, overriding class %r" % (k0, res["plain"][k0], res["adversarial"].get(k0))
    return None


def search(spec):
    total = 0
    for fam in spec.get("families", ["NodeMixin", "LightNodeMixin"]):
        for n in range(1, spec.get("nodes", 4) + 1):
            for sh in Q.shapes(n):
                case = {"shape": sh, "family": fam}
                total += 1
                try:
                    bad = run_case(case)
                except Exception as e:      # noqa
                    bad = "harness raised %s: %s" % (type(e).__name__, e)
                if bad:
                    return {"found": True, "case": case, "result": bad, "evaluations": total}
    return {"found": False, "evaluations": total, "nontrivial": total}


def main():
    d = json.load(open(sys.argv[2]))
    if sys.argv[1] == "search":
        print(json.dumps(search(d), default=str))
    else:
        print(json.dumps({"violation": run_case(d.get("case", d))}))


if __name__ == "__main__":
    main()
