"""Concrete side for C10 / C11 (real code): dictionary and JSON export/import on every ordered tree up to N nodes with
arbitrary / JSON-representable attribute dictionaries, option combinations, node classes.
    python dictjson.py search <spec.json> | replay <case.json>"""
import copy
import io
import json
import os
import sys
from collections import OrderedDict

sys.path.insert(0, os.path.dirname(os.path.abspath(__file__)))
import queries as Q      # noqa

ATTRS = [
    {},
    {"a": 1, "b": "x"},
    {"name": "näme☃", "ctl": "tab\there\nnl\x01", "none": None, "t": True, "f": False, "pi": 3.25, "big": 10 ** 20,
     # keys that coincide with read-only properties of the node classes, and one-letter keys (substrings of the link attributes' names)
     "size": 7, "path": "p/q", "is_leaf": "no", "e": 2, "n": 3,
     # user attributes that merely look name-mangled: only the two link attributes are bookkeeping
     "_m__x": 4, "_NodeMixin__extra": 5},
    {"nested": {"k": [1, 2, {"z": None}], "e": []}, "lst": [[], [1, [2]]], "s": ""},
    {"x": 0, "_private": 5, "Children": "not the key"},
]


def build(shape, cls_kind, json_only=True):
    from anytree import AnyNode, Node, NodeMixin

    class U(NodeMixin):
        def __init__(self, parent=None, **kw):
            self.__dict__.update(kw)
            self.parent = parent
    nodes = []

    def rec(sh, parent):
        i = len(nodes)
        at = dict(copy.deepcopy(ATTRS[i % len(ATTRS)]))
        if i % 3 != 1 or cls_kind == "Node":
            at["idx"] = i          # some nodes carry no attribute at all (an attribute-less leaf exports as {})
        else:
            at = {}
        if cls_kind == "Node":
            n = Node("nm%d" % i, parent=parent, **{k: v for k, v in at.items() if k != "name"})
        elif cls_kind == "User":
            n = U(parent=parent, **at)
        else:
            n = AnyNode(parent=parent, **at)
        if not json_only and at:
            n.obj = (1, 2)
        nodes.append(n)
        for c in sh:
            rec(c, n)
    rec(shape, None)
    return nodes, {"AnyNode": AnyNode, "Node": Node, "User": U}[cls_kind]


def own_attrs(n):
    return [(k, v) for k, v in n.__dict__.items() if k not in ("_NodeMixin__parent", "_NodeMixin__children")]


def ref_export(n, level, maxlevel, childiter, dictcls, attriter):
    d = dictcls(attriter(own_attrs(n)))
    if maxlevel is None or level < maxlevel:
        kids = [ref_export(c, level + 1, maxlevel, childiter, dictcls, attriter) for c in childiter(n.children)]
        if kids:
            d["children"] = kids
    return d


def count(n):
    return 1 + sum(count(c) for c in n.children)


def iso(a, b, nodecls):
    if not isinstance(b, nodecls):
        return "imported node is a %s" % type(b).__name__
    if dict(own_attrs(a)) != dict(own_attrs(b)):
        return "attributes differ: %r vs %r" % (dict(own_attrs(a)), dict(own_attrs(b)))
    if len(a.children) != len(b.children):
        return "shape differs"
    for x, y in zip(a.children, b.children):
        e = iso(x, y, nodecls)
        if e:
            return e
    return None


def strip_empty(d):
    d = dict(d)
    if "children" in d:
        ch = [strip_empty(c) for c in d["children"]]
        if ch:
            d["children"] = ch
        else:
            del d["children"]
    return d


def run_case(c):
    from anytree.exporter import DictExporter, JsonExporter
    from anytree.importer import DictImporter, JsonImporter

    def tup(x):
        return tuple(tup(y) for y in x)
    prop = c["property"]
    nodes, cls = build(tup(c["shape"]), c["cls"], json_only=(prop == "C11"))
    start = nodes[c["start"]]
    ml = c["maxlevel"]
    childiters = {"list": list, "reversed": lambda ch: list(reversed(ch)), "empty": lambda ch: []}
    attriters = {"none": None, "sorted": lambda it: sorted(it, key=lambda kv: kv[0]), "drop_": lambda it: [(k, v) for k, v in it if not k.startswith("_")]}
    dictclss = {"dict": dict, "ordered": OrderedDict}
    ci, ai, dc = childiters[c["childiter"]], attriters[c["attriter"]], dictclss[c["dictcls"]]
    before = [(id(n.parent), [id(x) for x in n.children], copy.deepcopy(dict(own_attrs(n)))) for n in nodes]
    if prop == "C10":
        kw = {"dictcls": dc, "childiter": ci}
        if ai is not None:
            kw["attriter"] = ai
        if ml is not None:
            kw["maxlevel"] = ml
        got = DictExporter(**kw).export(start)
        exp = ref_export(start, 1, ml, ci, dc, ai or (lambda x: x))
        if got != exp or type(got) is not dc:
            return "export differs: %r vs %r" % (got, exp)
        if dc is OrderedDict and list(got.items()) != list(exp.items()):
            return "export key order differs"
        if [(id(n.parent), [id(x) for x in n.children], dict(own_attrs(n))) for n in nodes] != before:
            return "export modified the tree"
        if c["attriter"] == "none" and ml is None and c["childiter"] == "list":
            d0 = copy.deepcopy(got)
            t = DictImporter(nodecls=cls).import_(got)
            if got != d0:
                return "import_ modified its argument"
            e = iso(start, t, cls)
            if e:
                return "import_(export(t)) not isomorphic: " + e
            if count(t) != count(start):
                return "import_ changed the number of nodes: %d -> %d" % (count(start), count(t))
            back = DictExporter(dictcls=dc).export(t)
            if strip_empty(back) != strip_empty(got):
                return "export(import_(d)) differs from d"
            # dictionaries with explicit empty 'children' lists at every leaf, 'children' not being the last key
            def with_empty(x):
                y = OrderedDict()
                y["children"] = [with_empty(k) for k in x.get("children", [])]
                for k, v in x.items():
                    if k != "children":
                        y[k] = v
                return y
            d2 = with_empty(got)
            d2_before = copy.deepcopy(d2)
            t2 = DictImporter(nodecls=cls).import_(d2)

            def same_ordered(a, b):
                if list(a.keys()) != list(b.keys()):
                    return False
                return all((same_ordered_list(a[k], b[k]) if k == "children" else a[k] == b[k]) for k in a)

            def same_ordered_list(a, b):
                return len(a) == len(b) and all(same_ordered(x, y) for x, y in zip(a, b))
            if not same_ordered(d2, d2_before):
                return "import_ modified its argument (empty 'children' entries / key order)"
            if strip_empty(DictExporter().export(t2)) != strip_empty(dict(got)):
                return "empty 'children' list not tolerated"
        return None
    # C11
    opts = [{}, {"indent": 2, "sort_keys": True}, {"ensure_ascii": False, "separators": (",", ":")}][c["opts"]]
    # an earlier, unrelated exporter with a small maxlevel must not influence this one
    JsonExporter(maxlevel=1).export(nodes[0])
    de = DictExporter(childiter=ci) if c["childiter"] != "list" else None
    jkw = dict(opts)
    if de is not None:
        jkw["dictexporter"] = de
    if ml is not None:
        jkw["maxlevel"] = ml
    je = JsonExporter(**jkw)
    text = je.export(start)
    ref_de = DictExporter(childiter=ci)
    if ml is not None:
        ref_de.maxlevel = ml
    if text != json.dumps(ref_de.export(start), **opts):
        return "export is not json.dumps of the dictionary export under the options"
    fh = io.StringIO()
    je.write(start, fh)
    if fh.getvalue() != text:
        return "write emits a different text than export"
    for imp in (JsonImporter(), JsonImporter(dictimporter=DictImporter(nodecls=cls))):
        t1 = imp.import_(text)
        t2 = imp.read(io.StringIO(text))
        for t in (t1, t2):
            if json.dumps(DictExporter().export(t), sort_keys=True) != json.dumps(ref_de.export(start), sort_keys=True):
                return "import_(export(t)) is not isomorphic to t"
            # the same comparison against the harness's own reference export (independent of the real DictExporter)
            if json.dumps(ref_export(t, 1, None, list, dict, list), sort_keys=True) != json.dumps(ref_export(start, 1, ml, ci, dict, list), sort_keys=True):
                return "round trip lost or changed attributes, shape or child order"
            if ml is None and c["childiter"] == "list" and count(t) != count(start):
                return "round trip changed the number of nodes: %d -> %d" % (count(start), count(t))
    return None


def search(spec):
    prop = spec["property"]
    total = 0
    for cls in ("AnyNode", "Node", "User"):
        for n in range(1, spec.get("nodes", 4) + 1):
            for sh in Q.shapes(n):
                for start in range(n):
                    for ml in [None] + list(range(0, n + 1)):
                        for ci in ("list", "reversed", "empty"):
                            for ai in (("none", "sorted", "drop_") if prop == "C10" else ("none",)):
                                for dc in (("dict", "ordered") if prop == "C10" else ("dict",)):
                                    for opts in ((0,) if prop == "C10" else (0, 1, 2)):
                                        case = {"property": prop, "shape": sh, "cls": cls, "start": start, "maxlevel": ml,
                                                "childiter": ci, "attriter": ai, "dictcls": dc, "opts": opts}
                                        total += 1
                                        try:
                                            bad = run_case(case)
                                        except Exception as e:      # noqa
                                            bad = "raised %s: %s" % (type(e).__name__, e)
                                        if bad:
                                            return {"found": True, "case": case, "result": bad, "evaluations": total}
    return {"found": False, "evaluations": total, "nontrivial": total}


def main():
    d = json.load(open(sys.argv[2]))
    if sys.argv[1] == "search":
        print(json.dumps(search(d), default=str))
    else:
        print(json.dumps({"violation": run_case(d.get("case", d))}))


if __name__ == "__main__":
    main()
