"""Concrete side for C20 (real code): SymlinkNode / SymlinkNodeMixin subclasses in small trees - attribute forwarding in
both directions, locality of parent/children/target, independence of the two positions, constructor keywords, links to
links.   python symlink.py search <spec.json> | replay <case.json>"""
import itertools
import json
import sys

NAMES = ["foo", "name", "_hidden", "x1", "label"]   # names not defined on the link's class (those stay the link's own by Python's lookup order)


def snapshot(nodes):
    return {k: (n.parent_label(), [c.label for c in n.children]) for k, n in nodes.items()}


def scenario(case):
    import anytree
    from anytree import Node, SymlinkNode, SymlinkNodeMixin, NodeMixin

    class T(NodeMixin):
        def __init__(self, label, parent=None):
            self.label = label
            self.parent = parent

    class L(SymlinkNodeMixin):
        def __init__(self, target, parent=None):
            self.target = target
            self.parent = parent
    kind = case["kind"]
    viol = []
    troot = T("troot")
    t = T("t", parent=troot)
    tchild = T("tchild", parent=t)
    lroot = T("lroot")
    if kind == "SymlinkNode":
        tn = Node("tn", parent=troot, foo=1)
        link = SymlinkNode(tn, parent=lroot, **{case["name"]: "kw", "kw_none_": None})
        tgt = tn
        if "kw_none_" not in tgt.__dict__ or tgt.__dict__["kw_none_"] is not None:
            viol.append("constructor keyword with value None not stored on the target")
        if tgt.__dict__.get(case["name"]) != "kw":
            viol.append("constructor keyword %s not stored on the target" % case["name"])
        if case["name"] in link.__dict__:
            viol.append("constructor keyword stored on the link")
    elif kind == "link-to-link":
        inner = L(t, parent=lroot)
        link = L(inner, parent=lroot)
        tgt = t
    else:
        link = L(t, parent=lroot)
        tgt = t
    name, val = case["name"], case["value"]

    def pos(n):
        return (getattr(n.parent, "label", None) if n.parent is not None else None,
                tuple(getattr(c, "label", "?") for c in n.children))
    p_t0 = pos(tgt)
    # write through the link
    op = case["op"]
    try:
        if op == "write-link":
            setattr(link, name, val)
            if tgt.__dict__.get(name) != val:
                viol.append("assignment on the link not stored on the target")
            if name in link.__dict__:
                viol.append("assignment on the link stored on the link itself")
            if getattr(link, name) != val:
                viol.append("value not readable through the link")
        elif op == "write-target":
            setattr(tgt, name, val)
            if getattr(link, name) != val:
                viol.append("the link does not show the target's current value")
        elif op == "read-missing":
            for o in (tgt, link):
                if name in o.__dict__:
                    delattr(o, name)
            if not hasattr(type(tgt), name) and not name.startswith("__"):
                try:
                    getattr(link, name)
                    viol.append("reading an attribute the target lacks did not raise AttributeError")
                except AttributeError:
                    pass
        elif op == "move-link":
            other = T("other")
            link.parent = other
            if link.parent is not other or link not in other.children or link in lroot.children:
                viol.append("moving the link did not move the link")
            link.children = [T("c1"), T("c2")]
            if [getattr(c, "label", None) for c in link.children] != ["c1", "c2"]:
                viol.append("children of the link are not its own")
            if pos(tgt) != p_t0:
                viol.append("moving / giving children to the link changed the target's position: %s -> %s" % (p_t0, pos(tgt)))
            link.parent = None
            if pos(tgt) != p_t0:
                viol.append("detaching the link changed the target's position")
        elif op == "move-target":
            p_l0 = pos(link)
            other = T("other")
            tgt.parent = other
            del tgt.children
            if pos(link) != p_l0:
                viol.append("moving the target changed the link's position: %s -> %s" % (p_l0, pos(link)))
        elif op == "consistency":
            for n in (link, lroot):
                for c in n.children:
                    if c.parent is not n:
                        viol.append("child does not point back")
            if link.parent is not None and sum(1 for c in link.parent.children if c is link) != 1:
                viol.append("link not exactly once in its parent's children")
            if "_NodeMixin__parent" in tgt.__dict__ and tgt.__dict__["_NodeMixin__parent"] is lroot:
                viol.append("link bookkeeping stored on the target")
    except Exception as e:      # noqa
        viol.append("unexpected %s: %s" % (type(e).__name__, e))
    return viol


def cases():
    for kind in ("mixin", "link-to-link", "SymlinkNode"):
        for op in ("write-link", "write-target", "read-missing", "move-link", "move-target", "consistency"):
            for name in NAMES:
                for val in (0, "v", None, [1]):
                    yield {"kind": kind, "op": op, "name": name, "value": val}


def main():
    cmd = sys.argv[1]
    d = json.load(open(sys.argv[2]))
    if cmd == "replay":
        print(json.dumps({"violation": scenario(d.get("case", d)) or None}))
        return
    total = 0
    for c in cases():
        total += 1
        v = scenario(c)
        if v:
            print(json.dumps({"found": True, "case": c, "result": v, "evaluations": total}))
            return
    print(json.dumps({"found": False, "evaluations": total, "nontrivial": total}))


if __name__ == "__main__":
    main()
