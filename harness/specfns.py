"""Bounded validation of the bridge lemmas L3/L4/L5: the recursive spec functions the iterator code is PROVED equal to
(contracts/iterators.py: FILTP, NSP, GC, PRE, POSTF, LEVEL, LEVELG, ZIG, iterseq - mirrored here by hand, equation by
equation) agree with the property's reading (admitted set = relative depth < maxlevel and no stop node on the path;
result = unrestricted order filtered by admitted and filter_) on every ordered tree up to N nodes, every start node,
every stop/filter subset and every maxlevel.  Code-independent: it exercises the specification, not anytree.

    python specfns.py search <spec.json>
"""
import itertools
import json
import sys

import queries as Q


def FILTP(s, j, f):
    return [x for x in s[:j] if f(x)]


def NSP(s, j, st):
    return [x for x in s[:j] if not st(x)]


def GC(R, s, j, st):
    out = []
    for x in s[:j]:
        out += NSP(R.ch[x], len(R.ch[x]), st)
    return out


def dec(hm, b):
    return b - 1 if hm else 0


def PRE(R, s, j, f, st, hm, b):
    out = []
    for c in s[:j]:
        if hm and b < 1:
            continue
        if st(c):
            continue
        out += ([c] if f(c) else []) + PRE(R, R.ch[c], len(R.ch[c]), f, st, hm, dec(hm, b))
    return out


def POSTF(R, s, j, f, st, hm, b):
    out = []
    for c in s[:j]:
        if hm and b < 1:
            continue
        g = NSP(R.ch[c], len(R.ch[c]), st)
        out += POSTF(R, g, len(g), f, st, hm, dec(hm, b)) + ([c] if f(c) else [])
    return out


def LEVEL(R, s, f, st, hm, b):
    if len(s) == 0 or (hm and b < 1):
        return []
    nxt = [] if (hm and b - 1 < 1) else GC(R, s, len(s), st)
    return FILTP(s, len(s), f) + LEVEL(R, nxt, f, st, hm, dec(hm, b))


def LEVELG(R, s, f, st, hm, b):
    if len(s) == 0 or (hm and b < 1):
        return []
    rest = [] if (hm and b - 1 < 1) else LEVELG(R, GC(R, s, len(s), st), f, st, hm, dec(hm, b))
    return [FILTP(s, len(s), f)] + rest


def ZIG(g, j):
    return [(x[::-1] if k % 2 == 1 else x) for k, x in enumerate(g[:j])]


def iterseq(R, kind, node, F, ST, hm, m):
    c0 = [] if (hm and 1 > m) else NSP([node], 1, ST)
    b0 = m if hm else 0
    if kind == "PreOrderIter":
        return PRE(R, c0, len(c0), F, ST, hm, b0)
    if kind == "PostOrderIter":
        return POSTF(R, c0, len(c0), F, ST, hm, b0)
    if kind == "LevelOrderIter":
        return LEVEL(R, c0, F, ST, hm, b0)
    g = LEVELG(R, c0, F, ST, hm, b0)
    if kind == "LevelOrderGroupIter":
        return g
    return [] if len(c0) == 0 else ZIG(g, len(g))


def check(nodes, R):
    h = R.height(nodes[0])
    idx = {n: i for i, n in enumerate(nodes)}
    count = 0
    for start in nodes:
        for stopset in Q.subsets(nodes, None):
            for filtset in Q.subsets(nodes, None):
                stop = lambda x, s=stopset: idx[x] in s
                filt = lambda x, s=filtset: idx[x] not in s
                for maxlevel in [None] + list(range(-1, h + 3)):
                    hm, m = (maxlevel is not None), (maxlevel if maxlevel is not None else 0)
                    for kind in Q.ITERS:
                        count += 1
                        got = iterseq(R, kind, start, filt, stop, hm, m)
                        exp = Q.iter_expect(R, start, kind, filt, stop, maxlevel)
                        if Q.lab(got) != Q.lab(exp):
                            return count, {"what": "spec %s(%s, stop=%s, filtered_out=%s, maxlevel=%s)"
                                           % (kind, start.name, list(stopset), list(filtset), maxlevel),
                                           "property_reading": Q.lab(exp), "spec_function": Q.lab(got)}
    return count, None


def main():
    spec = json.load(open(sys.argv[2]))
    total = 0
    cls = Q.make_family("NodeMixin")
    for n in range(1, spec.get("nodes", 4) + 1):
        for sh in Q.shapes(n):
            nodes = Q.build(sh, cls, "_NodeMixin")
            R = Q.Ref(nodes, "_NodeMixin")
            c, bad = check(nodes, R)
            total += c
            if bad:
                print(json.dumps({"found": True, "case": {"shape": sh}, "result": bad, "evaluations": total}))
                return
    print(json.dumps({"found": False, "evaluations": total, "nontrivial": total}))


if __name__ == "__main__":
    sys.path.insert(0, __import__("os").path.dirname(__import__("os").path.abspath(__file__)))
    main()
