# children-setter loop step: from invariant at i, apply parent-setter contract (move c=X[i] under s), prove invariant at i+1
import time, sys
from z3 import *
R = DeclareSort('Ref'); I = IntSort(); B = BoolSort()
NONE = Const('None_', R)
isn = Function('isnode', R, B)
def mk(tag):
    return dict(par=Function('par'+tag, R, R), cl=Function('cl'+tag, R, I), ca=Function('ca'+tag, R, I, R), idx=Function('idx'+tag, R, I))
def wf(S):
    par,cl,ca,idx = S['par'],S['cl'],S['ca'],S['idx']
    x = Const('x', R); i = Int('i')
    return [
      Not(isn(NONE)),
      ForAll([x,i], Implies(And(isn(x), 0<=i, i<cl(x)), And(isn(ca(x,i)), par(ca(x,i))==x, idx(ca(x,i))==i))),
      ForAll([x], Implies(And(isn(x), par(x)!=NONE), And(isn(par(x)), 0<=idx(x), idx(x)<cl(par(x)), ca(par(x),idx(x))==x))),
      ForAll([x], cl(x)>=0),
    ]
S1 = mk('1')   # state after del self.children
Si = mk('i')   # state at loop head, iteration i
Sj = mk('j')   # state after the call
s = Const('s', R); xl = Int('xl'); xa = Function('xa', I, R); ii = Int('ii')
x,y,c1,c2 = Consts('x y c1 c2', R); j,k = Ints('j k')
inX = lambda S, upto: None
def inv(S, i):
    par,cl,ca,idx = S['par'],S['cl'],S['ca'],S['idx']
    p1,cl1,ca1,idx1 = S1['par'],S1['cl'],S1['ca'],S1['idx']
    pos = Function('pos', R, I)  # ghost: position in X if member (skolem for membership), -1 otherwise
    return [
      cl(s) == i,
      ForAll([j], Implies(And(0<=j, j<i), ca(s,j) == xa(j))),
      # parents: members of X[:i] have parent s; others keep par1
      ForAll([x], Implies(isn(x), par(x) == If(And(0<=pos(x), pos(x)<i), s, p1(x)))),
      # relative order preserved for siblings under q != s
      ForAll([c1,c2], Implies(And(isn(c1), isn(c2), par(c1)==par(c2), par(c1)!=NONE, par(c1)!=s), (idx(c1)<idx(c2)) == (idx1(c1)<idx1(c2)))),
    ]
pos = Function('pos', R, I)
Xfacts = [ xl>=0, 0<=ii, ii<xl,
  ForAll([j], Implies(And(0<=j,j<xl), And(isn(xa(j)), pos(xa(j))==j))),
  ForAll([x], Implies(And(0<=pos(x), pos(x)<xl), xa(pos(x))==x)),
  ForAll([x], pos(x) >= -1), ForAll([x], pos(x) < xl),
  isn(s), S1['cl'](s)==0,
]
c = xa(ii); q = Si['par'](c); kk = Si['idx'](c)
# parent-setter contract (success, not no-op: q != s): explicit post-state
par,cl,ca,idx = Si['par'],Si['cl'],Si['ca'],Si['idx']
par2,cl2,ca2,idx2 = Sj['par'],Sj['cl'],Sj['ca'],Sj['idx']
post = [
  ForAll([x], par2(x) == If(x==c, s, par(x))),
  ForAll([x], cl2(x) == If(x==s, cl(s)+1, If(And(x==q, q!=NONE), cl(q)-1, cl(x)))),
  ForAll([x,j], ca2(x,j) == If(And(x==s, j==cl(s)), c, If(And(x==q, q!=NONE, j>=kk), ca(q,j+1), ca(x,j)))),
  ForAll([x], idx2(x) == If(x==c, cl(s), If(And(q!=NONE, par(x)==q, idx(x)>kk), idx(x)-1, idx(x)))),
]
hyps = wf(S1)+wf(Si)+wf(Sj)+Xfacts+inv(Si, ii)+post+[c != s]
goals = inv(Sj, ii+1)
for n,g in enumerate(goals):
    so = Solver(); so.set('timeout', 120000); so.add(hyps); so.add(Not(g))
    t=time.time(); r=so.check(); print('inv-pres', n, r, '%.2fs'%(time.time()-t)); sys.stdout.flush()
so = Solver(); so.set('timeout', 60000); so.add(hyps); t=time.time(); print('consistency(hyps sat?)', so.check(), '%.2fs'%(time.time()-t))
so = Solver(); so.set('timeout', 60000); so.add(hyps); so.add(Not(BoolVal(False)))
# try to derive false: check hyps + nothing => unsat would mean inconsistent
so2 = Solver(); so2.set('timeout', 60000); so2.add(hyps); so2.add(Sj['cl'](s) != ii+1)
print('neg-control (should be unsat, it is a true consequence):', so2.check())
so3 = Solver(); so3.set('timeout', 60000); so3.add(hyps); so3.add(Sj['cl'](s) == ii+1, Sj['par'](c)==s)
print('pos-control (should not be unsat):', so3.check())
# finite-model sanity: bound the universe to get sat answers
a0,a1,a2,a3 = Consts('a0 a1 a2 a3', R)
so4 = Solver(); so4.set('timeout', 120000); so4.add(hyps); x=Const('x',R)
so4.add(ForAll([x], Or(x==a0,x==a1,x==a2,x==a3,x==NONE)))
print('bounded-universe consistency:', so4.check())
