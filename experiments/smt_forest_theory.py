# Feasibility: forest order theory (A = ancestor-or-self, d = depth, par) preserved by attach / detach ghost updates
import time, sys
from z3 import *
R = DeclareSort('Ref')
NONE = Const('None_', R)
par = Function('par', R, R)
A = Function('A', R, R, BoolSort())
d = Function('d', R, IntSort())
isn = Function('isnode', R, BoolSort())

def axioms(par, A, d):
    a,b,c,x = Consts('a b c x', R)
    N = lambda *v: And(*[isn(t) for t in v])
    return [
      Not(isn(NONE)),
      ForAll([x], Implies(isn(x), Or(par(x)==NONE, isn(par(x))))),
      ForAll([x], Implies(isn(x), A(x,x))),
      ForAll([a,x], Implies(A(a,x), And(isn(a), isn(x)))),
      ForAll([a,b,c], Implies(And(A(a,b),A(b,c)), A(a,c))),
      ForAll([a,b], Implies(And(A(a,b),A(b,a)), a==b)),
      ForAll([a,b,x], Implies(And(A(a,x),A(b,x)), Or(A(a,b),A(b,a)))),
      ForAll([x], Implies(And(isn(x), par(x)!=NONE), And(A(par(x),x), par(x)!=x))),
      ForAll([a,x], Implies(And(A(a,x), a!=x), And(par(x)!=NONE, A(a,par(x))))),
      ForAll([x], Implies(isn(x), d(x) == If(par(x)==NONE, 0, d(par(x))+1))),
      ForAll([x], Implies(isn(x), d(x) >= 0)),
      ForAll([a,b], Implies(And(A(a,b), a!=b), d(a) < d(b))),
    ]

def check(name, hyps, goals, timeout=60000):
    for i,g in enumerate(goals):
        s = Solver(); s.set('timeout', timeout)
        s.add(hyps); s.add(Not(g))
        t=time.time(); r = s.check(); print(name, i, r, '%.2fs'%(time.time()-t)); sys.stdout.flush()

n, p = Consts('n p', R)
# ATTACH: pre: isn(n), isn(p), par(n)==NONE, not A(n,p)
par2 = Function('par2', R, R); A2 = Function('A2', R,R,BoolSort()); d2 = Function('d2', R, IntSort())
a,x = Consts('a x', R)
upd = [
  ForAll([x], par2(x) == If(x==n, p, par(x))),
  ForAll([a,x], A2(a,x) == Or(A(a,x), And(A(a,p), A(n,x)))),
  ForAll([x], d2(x) == If(A(n,x), d(x)+d(p)+1, d(x))),
]
pre = [isn(n), isn(p), par(n)==NONE, Not(A(n,p))]
check('attach', axioms(par,A,d)+upd+pre, axioms(par2,A2,d2))
# DETACH: pre: isn(n), par(n)==p != NONE
upd = [
  ForAll([x], par2(x) == If(x==n, NONE, par(x))),
  ForAll([a,x], A2(a,x) == And(A(a,x), Not(And(A(a,p), A(n,x))))),
  ForAll([x], d2(x) == If(A(n,x), d(x)-d(n), d(x))),
]
pre = [isn(n), par(n)==p, p!=NONE]
check('detach', axioms(par,A,d)+upd+pre, axioms(par2,A2,d2))
