# two-level heap (list objects as refs), arrays; detach body as the executor would emit it
import time, sys
from z3 import *
R = DeclareSort('Ref'); I=IntSort(); B=BoolSort()
NONE = Const('None_', R)
isn = Function('isnode', R, B); isl = Function('islist', R, B)
def state(tag):
    return dict(hasP=Array('hasP'+tag,R,B), hasC=Array('hasC'+tag,R,B), P=Array('P'+tag,R,R), C=Array('C'+tag,R,R),
                Llen=Array('Llen'+tag,R,I), Lat=Array('Lat'+tag,R,ArraySort(I,R)), alloc=Array('alloc'+tag,R,B),
                A=Function('A'+tag,R,R,B), d=Function('d'+tag,R,I), idx=Function('idx'+tag,R,I))
def par(S,n): return If(S['hasP'][n], S['P'][n], NONE)
def cl(S,n): return If(S['hasC'][n], S['Llen'][S['C'][n]], 0)
def ca(S,n,i): return S['Lat'][S['C'][n]][i]
def WF(S):
    x,y,a,b,c = Consts('x y a b c', R); i=Int('i'); A=S['A']; d=S['d']; idx=S['idx']
    return [
      Not(isn(NONE)), Not(isl(NONE)), ForAll([x], Not(And(isn(x), isl(x)))),
      ForAll([x], Implies(isn(x), Or(par(S,x)==NONE, isn(par(S,x))))),
      ForAll([x,i], Implies(And(isn(x), 0<=i, i<cl(S,x)), And(isn(ca(S,x,i)), par(S,ca(S,x,i))==x, idx(ca(S,x,i))==i))),
      ForAll([x], Implies(And(isn(x), par(S,x)!=NONE), And(0<=idx(x), idx(x)<cl(S,par(S,x)), ca(S,par(S,x),idx(x))==x))),
      ForAll([x], Implies(And(isn(x), S['hasC'][x]), And(isl(S['C'][x]), S['alloc'][S['C'][x]], S['Llen'][S['C'][x]]>=0))),
      ForAll([x,y], Implies(And(isn(x), isn(y), S['hasC'][x], S['hasC'][y], S['C'][x]==S['C'][y]), x==y)),
      ForAll([x], Implies(isn(x), A(x,x))), ForAll([a,x], Implies(A(a,x), And(isn(a), isn(x)))),
      ForAll([a,b,c], Implies(And(A(a,b),A(b,c)), A(a,c))), ForAll([a,b], Implies(And(A(a,b),A(b,a)), a==b)),
      ForAll([a,b,x], Implies(And(A(a,x),A(b,x)), Or(A(a,b),A(b,a)))),
      ForAll([x], Implies(And(isn(x), par(S,x)!=NONE), And(A(par(S,x),x), par(S,x)!=x))),
      ForAll([a,x], Implies(And(A(a,x), a!=x), And(par(S,x)!=NONE, A(a,par(S,x))))),
      ForAll([x], Implies(isn(x), d(x) == If(par(S,x)==NONE, 0, d(par(S,x))+1))),
      ForAll([x], Implies(isn(x), d(x) >= 0)), ForAll([a,b], Implies(And(A(a,b), a!=b), d(a) < d(b))),
    ]
S0=state('0'); S1=state('1')
self_, p, l2 = Consts('self parent l2', R); k=Int('k'); x,a=Consts('x a',R); i=Int('i')
pre = [isn(self_), par(S0,self_)==p, p!=NONE]
pc = S0['C'][p]   # parent has children (since self is its child, hasC[p] holds by WF; executor would also consider lazy creation path)
body = [ S0['hasC'][p],
  k == S0['idx'](self_),
  # fresh list from comprehension, contents by lemma L1 (remove_at k)
  Not(S0['alloc'][l2]), isl(l2),
  S1['alloc'] == Store(S0['alloc'], l2, True),
  S1['Llen'] == Store(S0['Llen'], l2, S0['Llen'][pc]-1),
  ForAll([i], S1['Lat'][l2][i] == If(i<k, S0['Lat'][pc][i], S0['Lat'][pc][i+1])),
  ForAll([x], Implies(x!=l2, S1['Lat'][x]==S0['Lat'][x])),
  S1['C'] == Store(S0['C'], p, l2), S1['hasC']==S0['hasC'],
  S1['P'] == Store(S0['P'], self_, NONE), S1['hasP'] == Store(S0['hasP'], self_, True),
  # ghost code
  ForAll([a,x], S1['A'](a,x) == And(S0['A'](a,x), Not(And(S0['A'](a,p), S0['A'](self_,x))))),
  ForAll([x], S1['d'](x) == If(S0['A'](self_,x), S0['d'](x)-S0['d'](self_), S0['d'](x))),
  ForAll([x], S1['idx'](x) == If(And(par(S0,x)==p, S0['idx'](x)>k), S0['idx'](x)-1, S0['idx'](x))),
]
hyps = WF(S0)+pre+body
res=[]
for n,g in enumerate(WF(S1)):
    so=Solver(); so.set('timeout',60000); so.add(hyps); so.add(Not(g)); t=time.time(); r=so.check(); res.append(r)
    print('detach WF', n, r, '%.2fs'%(time.time()-t)); sys.stdout.flush()
# complete post-state (C02): old parent's children = remove_at, all other views unchanged
goal = And(par(S1,self_)==NONE, cl(S1,p)==cl(S0,p)-1,
           ForAll([i], Implies(And(0<=i,i<cl(S1,p)), ca(S1,p,i)==If(i<k, ca(S0,p,i), ca(S0,p,i+1)))),
           ForAll([x], Implies(And(isn(x), x!=self_), par(S1,x)==par(S0,x))),
           ForAll([x,i], Implies(And(isn(x), x!=p), And(cl(S1,x)==cl(S0,x), Implies(And(0<=i,i<cl(S0,x)), ca(S1,x,i)==ca(S0,x,i))))))
so=Solver(); so.set('timeout',60000); so.add(hyps); so.add(Not(goal)); t=time.time(); print('detach POST', so.check(), '%.2fs'%(time.time()-t))
# canary
so=Solver(); so.set('timeout',20000); so.add(hyps); so.add(Not(cl(S1,p)==cl(S0,p))); t=time.time(); print('canary', so.check(), '%.2fs'%(time.time()-t))
open(__import__('tempfile').gettempdir()+'/e6.smt2','w').write("(set-logic ALL)\n"+so.sexpr()+"\n(check-sat)\n")
for n in (4,5,15):
    so=Solver(); so.add(hyps); so.add(Not(WF(S1)[n]))
    open(__import__('tempfile').gettempdir()+'/e6_%d.smt2'%n,'w').write("(set-logic ALL)\n"+so.sexpr()+"\n(check-sat)\n")
