from anytree import *
top = Node("top"); sub0 = Node("sub0", parent=top); s00 = Node("sub0", parent=sub0); s01=Node("sub1", parent=sub0); sub1=Node("sub1", parent=top); s10=Node("sub0", parent=sub1)
r = Resolver('name'); rr = Resolver('name', relax=True)
for p in ["sub0/zz*", "sub0/sub0/*", "sub1/sub0/..", "*/..", "**/..", "**", "**/sub0", "sub0/**/zz", "**/zz", "/top/**", "/t*/sub0", "/*", "/", "//", "/top/", "sub0//sub1", "**/**", "../x", "sub0/../..", "sub0/../../x", "*/../../x", "**/../..","/top/../x", "a.b", "sub[0]", "SUB0"]:
    for name, res in (("strict", r), ("relax", rr)):
        try: print(name, repr(p), '->', res.glob(top, p))
        except Exception as e: print(name, repr(p), 'RAISED', type(e).__name__, str(e)[:70])
# regex metachar names
t=Node("t"); Node("a.b", parent=t); Node("axb", parent=t); Node("a+", parent=t); Node("a\nb", parent=t); Node("[x]", parent=t); Node("ab", parent=t); Node("AB", parent=t)
for p in ["a.b","a?b","a+","a*","[x]","a","ab*","*b","AB","ab"]:
    print(repr(p), r.glob(t,p) if True else None) if not p in ("a",) else None
ri = Resolver('name', ignorecase=True)
print(ri.glob(t,"ab"), r.glob(t,"ab"), ri.glob(t,"ab"))
# cache eviction
for i in range(50): rr.glob(t, "p%d*"%i)
print(ri.glob(t,"ab"), r.glob(t,"ab"), len(Resolver._match_cache))
# get semantics
for p in ["/top/sub0/sub0", "/top", "/", "/x", "sub0/sub1/..", "..", "sub0/", "/top//sub0", "", ".", "sub0/./sub1", "a*"]:
    try: print('get', repr(p), r.get(top,p))
    except Exception as e: print('get', repr(p), 'RAISED', type(e).__name__, str(e)[:60])
class My(Node): separator="|"
m=My("a/b"); m2=My("c", parent=m)
print(r.get(m2, "|a/b|c"), r.get(m, "c"))
