from anytree import *
from anytree import util
import itertools
exec(open(__import__('os').path.join(__import__('os').path.dirname(__import__('os').path.abspath(__file__)), 'native_probe_iterators.py')).read().split("# reference")[0].split("from anytree.importer import DictImporter")[1])
# C04/C15/C09 bounded sanity vs independent definitions
def anc(n):
    out=[]; 
    while n.parent is not None: n=n.parent; out.append(n)
    return out[::-1]
def pre(n): return [n]+[x for c in n.children for x in pre(c)]
def height(n): return 0 if not n.children else 1+max(height(c) for c in n.children)
bad=0
for size in range(1,7):
    for shape in trees(size):
        root=build(shape); nodes=pre(root)
        for n in nodes:
            assert list(n.path)==anc(n)+[n] and list(n.ancestors)==anc(n) and n.root is (anc(n)+[n])[0] and n.depth==len(anc(n))
            assert list(n.descendants)==pre(n)[1:] and n.size==len(pre(n)) and n.height==height(n)
            assert list(n.leaves)==[x for x in pre(n) if not x.children]
            sib = [] if n.parent is None else [c for c in n.parent.children if c is not n]
            assert list(n.siblings)==sib
            if n.parent is not None:
                ch=list(n.parent.children); i=[k for k,c in enumerate(ch) if c is n][0]
                assert util.leftsibling(n) is (ch[i-1] if i>0 else None) and util.rightsibling(n) is (ch[i+1] if i+1<len(ch) else None)
            else: assert util.leftsibling(n) is None and util.rightsibling(n) is None
        if size<=5:
            for s,e in itertools.product(nodes, nodes):
                up,common,down = Walker().walk(s,e)
                ps=anc(s)+[s]; pe=anc(e)+[e]; k=0
                while k<min(len(ps),len(pe)) and ps[k] is pe[k]: k+=1
                assert common is ps[k-1] and list(up)==ps[k:][::-1] and list(down)==pe[k:], (shape,s,e)
                ca = util.commonancestors(s,e); a1=anc(s); a2=anc(e); k=0
                while k<min(len(a1),len(a2)) and a1[k] is a2[k]: k+=1
                assert list(ca)==a1[:k]
            # render rows
            for ml in [None,0,1,2,3]:
                rows=list(RenderTree(root, style=AsciiStyle(), maxlevel=ml))
                exp=[]
                def rec(n, conts, lvl):
                    if not conts: exp.append(("","",n))
                    else:
                        segs=["|   " if c else "    " for c in conts]
                        exp.append(("".join(segs[:-1])+("|-- " if conts[-1] else "+-- "), "".join(segs), n))
                    if ml is None or lvl+1 < ml:
                        ch=n.children
                        for i,c in enumerate(ch): rec(c, conts+(i<len(ch)-1,), lvl+1)
                rec(root,(),0)
                assert [(r.pre,r.fill,r.node) for r in rows]==exp
print("nav/walker/render ok")
try:
    Walker().walk(Node('a'), Node('b'))
except WalkError as e: print('WalkError ok')
print(repr(str(RenderTree(AnyNode()))), repr(RenderTree(Node("a\nb")).by_attr()), repr(RenderTree(Node("")).by_attr()), repr(RenderTree(Node("x", lines=[])).by_attr("lines")))
