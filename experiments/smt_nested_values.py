from z3 import *
# nested value datatype: J = Atom(int) | JList(Seq J)?  z3: try via Array-free encoding
try:
    J = Datatype('J')
    J.declare('atom', ('a', IntSort()))
    J.declare('jlist', ('items', SeqSort(J)))   # may not be allowed (forward ref)
    J = J.create()
    print('nested seq datatype ok')
except Exception as e:
    print('nested seq datatype FAILED:', type(e).__name__, str(e)[:100])
# alternative: mutually recursive J / JL (cons list)
J = Datatype('J'); JL = Datatype('JL')
J.declare('atom', ('a', IntSort())); J.declare('jdict', ('attrs', IntSort()), ('kids', JL))
JL.declare('nil'); JL.declare('cons', ('hd', J), ('tl', JL))
J, JL = CreateDatatypes(J, JL)
x = Const('x', J); s=Solver(); s.add(J.is_jdict(x), JL.is_cons(J.kids(x)), J.a(JL.hd(J.kids(x)))==3); print(s.check(), s.model()[x])
