import time, sys
from z3 import *
R = DeclareSort('Ref')
NONE = Const('None_', R)
isn = Function('isnode', R, BoolSort())
S = SeqSort(R)

def wf(par, ch, idx):
    x = Const('x', R); i = Int('i')
    return [
      ForAll([x,i], Implies(And(isn(x), 0<=i, i<Length(ch(x))), And(isn(ch(x)[i]), par(ch(x)[i])==x, idx(ch(x)[i])==i))),
      ForAll([x], Implies(And(isn(x), par(x)!=NONE), And(isn(par(x)), 0<=idx(x), idx(x)<Length(ch(par(x))), ch(par(x))[idx(x)]==x))),
      ForAll([x], Implies(Not(isn(x)), Length(ch(x))==0)),
    ]
def check(name, hyps, goals, timeout=60000):
    for i,g in enumerate(goals):
        s = Solver(); s.set('timeout', timeout)
        s.add(hyps); s.add(Not(g))
        t=time.time(); r = s.check(); print(name, i, r, '%.2fs'%(time.time()-t)); sys.stdout.flush()

par = Function('par', R, R); ch = Function('ch', R, S); idx = Function('idx', R, IntSort())
par2 = Function('par2', R, R); ch2 = Function('ch2', R, S); idx2 = Function('idx2', R, IntSort())
n,p,x = Consts('n p x', R); k = Int('k')
# detach
upd = [ k == idx(n),
  ForAll([x], par2(x) == If(x==n, NONE, par(x))),
  ForAll([x], ch2(x) == If(x==p, Concat(Extract(ch(p),0,k), Extract(ch(p),k+1,Length(ch(p))-k-1)), ch(x))),
  ForAll([x], idx2(x) == If(And(par(x)==p, idx(x)>k), idx(x)-1, idx(x))),
]
pre = [isn(n), par(n)==p, p!=NONE]
check('detach', wf(par,ch,idx)+upd+pre, wf(par2,ch2,idx2))
# attach
upd = [
  ForAll([x], par2(x) == If(x==n, p, par(x))),
  ForAll([x], ch2(x) == If(x==p, Concat(ch(p), Unit(n)), ch(x))),
  ForAll([x], idx2(x) == If(x==n, Length(ch(p)), idx(x))),
]
pre = [isn(n), isn(p), par(n)==NONE, n != p]
check('attach', wf(par,ch,idx)+upd+pre, wf(par2,ch2,idx2))
