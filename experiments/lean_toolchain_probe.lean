import Mathlib.Data.List.Basic
theorem filter_erase_unique {α} [DecidableEq α] (l : List α) (x : α) (h : l.Nodup) :
    l.filter (· ≠ x) = l.erase x := by
  induction l with
  | nil => simp
  | cons a t ih =>
    have hn := List.nodup_cons.mp h
    by_cases hax : a = x
    · subst hax
      simp [List.filter_cons]
      intro y hy hya; subst hya; exact hn.1 hy
    · simp [List.filter_cons, hax, List.erase_cons, ih hn.2]
