import itertools, sys
from anytree import *
from anytree import util
from anytree.exporter import DotExporter, MermaidExporter, DictExporter, UniqueDotExporter
from anytree.importer import DictImporter

def trees(n):
    # all ordered forests shapes as parent arrays where parent[i] < i (preorder-labelled ordered trees)
    # generate ordered trees via nested tuples
    if n == 1:
        yield ()
        return
    # compositions: children subtrees sizes sum to n-1
    for parts in compositions(n-1):
        for combo in itertools.product(*[list(trees(p)) for p in parts]):
            yield tuple(combo)
def compositions(n):
    if n == 0:
        yield ()
        return
    for first in range(1, n+1):
        for rest in compositions(n-first):
            yield (first,)+rest
def build(shape, cls=Node, counter=None, parent=None):
    counter = counter if counter is not None else itertools.count()
    node = cls("n%d" % next(counter), parent=parent)
    for sub in shape:
        build(sub, cls, counter, node)
    return node
def allnodes(root):
    out=[root]
    for c in root.children: out+=allnodes(c)
    return out
# reference
def ref_adm(start, stop, maxlevel):
    res=[]
    def rec(n, depth):
        if maxlevel is not None and depth >= maxlevel: return
        if stop(n): return
        res.append((n,depth))
        for c in n.children: rec(c, depth+1)
    rec(start,0)
    return res
def pre(n): 
    return [n]+[x for c in n.children for x in pre(c)]
def post(n):
    return [x for c in n.children for x in post(c)]+[n]
def level(n):
    out=[]; cur=[n]
    while cur:
        out.append(cur); cur=[c for x in cur for c in x.children]
    return out
bad=0
for size in range(1,6):
    for shape in trees(size):
        root = build(shape)
        nodes = allnodes(root)
        for start in nodes:
            sub = pre(start)
            assert list(PreOrderIter(start))==sub
            assert list(PostOrderIter(start))==post(start)
            assert [list(g) for g in LevelOrderGroupIter(start)]==level(start)
            assert list(LevelOrderIter(start))==[x for g in level(start) for x in g]
            assert [list(g) for g in ZigZagGroupIter(start)]==[g if i%2==0 else g[::-1] for i,g in enumerate(level(start))]
            k=len(sub)
            if k>4: continue
            for stopmask in range(2**k):
                stopset={sub[i] for i in range(k) if stopmask>>i&1}
                for fmask in range(2**k):
                    fset={sub[i] for i in range(k) if fmask>>i&1}
                    for ml in [None,0,1,2,3,4,-1]:
                        stop=lambda x: x in stopset
                        filt=lambda x: x not in fset
                        adm=dict((id(n),d) for n,d in ref_adm(start, stop, ml))
                        exp_pre=[x for x in sub if id(x) in adm and filt(x)]
                        got=list(PreOrderIter(start, filt, stop, ml))
                        if got!=exp_pre: bad+=1; print("PRE", shape, start, stopset, fset, ml, got, exp_pre)
                        exp_post=[x for x in post(start) if id(x) in adm and filt(x)]
                        got=list(PostOrderIter(start, filt, stop, ml))
                        if got!=exp_post: bad+=1; print("POST", shape, start, stopset, fset, ml, got, exp_post)
                        lv=[[x for x in g if id(x) in adm] for g in level(start)]
                        lv=[g for g in lv if g]
                        exp_lg=[[x for x in g if filt(x)] for g in lv]
                        got=[list(g) for g in LevelOrderGroupIter(start, filt, stop, ml)]
                        if got!=exp_lg: bad+=1; print("LOG", shape, start, stopset, fset, ml, got, exp_lg)
                        got=list(LevelOrderIter(start, filt, stop, ml))
                        if got!=[x for g in exp_lg for x in g]: bad+=1; print("LO", shape, start, stopset, fset, ml, got)
                        got=[list(g) for g in ZigZagGroupIter(start, filt, stop, ml)]
                        if got!=[g if i%2==0 else g[::-1] for i,g in enumerate(exp_lg)]: bad+=1; print("ZZ", shape, start, stopset, fset, ml, got)
                        if bad>10: sys.exit(1)
print("iterators ok, bad=",bad)
