# LevelOrderIter._iter: outer while + inner for loops, quantifier-free with z3 Seq and uninterpreted spec functions
import time
from z3 import *
R = DeclareSort('Ref'); S = SeqSort(R); I = IntSort(); B = BoolSort()
F = Function('F', R, B)                 # filter_
CH = Function('CH', R, S)               # node.children (tuple value)
NS = Function('NS', S, S)               # _get_children(children, stop) result (contract of the helper)
FILT = Function('FILT', S, I, S)        # FILT(s, j): filter_(x) elements of s[:j]
GC = Function('GC', S, I, S)            # GC(s, j): concat of NS(CH(x)) for x in s[:j]
hasM = Bool('hasM'); M = Int('M')       # maxlevel : Optional[Int]
LEVEL = Function('LEVEL', S, I, S)      # LEVEL(children, level) for the fixed maxlevel
abort = lambda lvl: And(hasM, lvl > M)
def unfold_FILT(s, j): return FILT(s, j+1) == Concat(FILT(s, j), If(F(s[j]), Unit(s[j]), Empty(S)))
def unfold_GC(s, j): return GC(s, j+1) == Concat(GC(s, j), NS(CH(s[j])))
def unfold_LEVEL(s, lvl):
    nxt = If(abort(lvl+1), Empty(S), GC(s, Length(s)))
    return LEVEL(s, lvl) == If(Length(s)==0, Empty(S), Concat(FILT(s, Length(s)), LEVEL(nxt, lvl+1)))
def check(name, hyps, goal):
    so = Solver(); so.set('timeout', 60000); so.add(hyps); so.add(Not(goal)); t=time.time(); r=so.check(); print('%-40s %s %.2fs' % (name, r, time.time()-t))
children, out, out0, nxt = Consts('children out out0 nxt', S); j, level = Ints('j level')
base = [FILT(children, 0) == Empty(S), GC(children, 0) == Empty(S)]
# inner loop, non-abort branch: invariant at j  ->  invariant at j+1
inv = [0 <= j, j < Length(children), out == Concat(out0, FILT(children, j)), nxt == GC(children, j)]
child = children[j]
out1 = If(F(child), Concat(out, Unit(child)), out)
nxt1 = Concat(nxt, NS(CH(child)))
hy = base + inv + [unfold_FILT(children, j), unfold_GC(children, j)]
check('inner(non-abort) INV+ out', hy, out1 == Concat(out0, FILT(children, j+1)))
check('inner(non-abort) INV+ next', hy, nxt1 == GC(children, j+1))
check('inner INV0', base, And(out0 == Concat(out0, FILT(children, 0)), Empty(S) == GC(children, 0)))
# outer loop: I(out, children, level):  out ++ LEVEL(children, level) == TOTAL
TOTAL = Const('TOTAL', S)
outer = [Concat(out, LEVEL(children, level)) == TOTAL, Length(children) > 0]
# after body: level' = level+1 ; abort branch: out' = out ++ FILT(children,len), children' = []
#             non-abort     : out' = out ++ FILT(children,len), children' = GC(children,len)
hy = outer + [unfold_LEVEL(children, level)]
n = Length(children)
check('outer INV+ (abort branch)', hy + [abort(level+1)], Concat(Concat(out, FILT(children, n)), LEVEL(Empty(S), level+1)) == TOTAL)
check('outer INV+ (descend branch)', hy + [Not(abort(level+1))], Concat(Concat(out, FILT(children, n)), LEVEL(GC(children, n), level+1)) == TOTAL)
# exit: children empty -> out == TOTAL
check('outer exit POST', [Concat(out, LEVEL(children, level)) == TOTAL, Length(children)==0, unfold_LEVEL(children, level)], out == TOTAL)
# canary: wrong order (prepend) must not prove
check('canary (prepend)', base + inv + [unfold_FILT(children, j)], If(F(child), Concat(Unit(child), out), out) == Concat(out0, FILT(children, j+1)))

# PreOrderIter._iter recursion: for child_ in children: if stop: continue; if F: yield; if not abort(2): yield from _iter(child.children, dec(m))
St = Function('St', R, B)
PRE = Function('PRE', S, I, B, I, S)     # PRE(s, j, hasM, M): output after processing s[:j]
def ONE(c, hm, m):
    deep = Not(And(hm, 2 > m))
    hm2 = And(hm, m != 0); m2 = m - 1     # descendantmaxlevel = maxlevel - 1 if maxlevel else None
    return If(St(c), Empty(S), Concat(If(F(c), Unit(c), Empty(S)), If(deep, PRE(CH(c), Length(CH(c)), hm2, m2), Empty(S))))
def unfold_PRE(s, j, hm, m): return PRE(s, j+1, hm, m) == Concat(PRE(s, j, hm, m), ONE(s[j], hm, m))
inv = [0 <= j, j < Length(children), out == PRE(children, j, hasM, M)]
c = children[j]
hy = inv + [unfold_PRE(children, j, hasM, M)]
# path 1: stop(c) -> continue
check('pre path stop', hy + [St(c)], out == PRE(children, j+1, hasM, M))
# path 2..5: not stop, F?, abort(2)?
rec = PRE(CH(c), Length(CH(c)), And(hasM, M != 0), M-1)      # callee contract at the recursive call (own contract)
for f in (True, False):
    for ab in (True, False):
        o = Concat(out, Unit(c)) if f else out
        o = o if ab else Concat(o, rec)
        # code: descendantmaxlevel = maxlevel-1 if maxlevel else None ; truthiness of Optional[int]
        check('pre path F=%s abort=%s' % (f, ab), hy + [Not(St(c)), F(c) if f else Not(F(c)), And(hasM, 2 > M) if ab else Not(And(hasM, 2 > M))], o == PRE(children, j+1, hasM, M))
