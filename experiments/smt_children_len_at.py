import time, sys
from z3 import *
R = DeclareSort('Ref')
NONE = Const('None_', R)
isn = Function('isnode', R, BoolSort())
I = IntSort()
def wf(par, cl, ca, idx):
    x = Const('x', R); i = Int('i')
    return [
      ForAll([x,i], Implies(And(isn(x), 0<=i, i<cl(x)), And(isn(ca(x,i)), par(ca(x,i))==x, idx(ca(x,i))==i))),
      ForAll([x], Implies(And(isn(x), par(x)!=NONE), And(isn(par(x)), 0<=idx(x), idx(x)<cl(par(x)), ca(par(x),idx(x))==x))),
      ForAll([x], cl(x)>=0),
    ]
def check(name, hyps, goals, timeout=60000):
    for i,g in enumerate(goals):
        s = Solver(); s.set('timeout', timeout)
        s.add(hyps); s.add(Not(g))
        t=time.time(); r = s.check(); print(name, i, r, '%.2fs'%(time.time()-t)); sys.stdout.flush()
par = Function('par', R, R); cl = Function('cl', R, I); ca = Function('ca', R, I, R); idx = Function('idx', R, I)
par2 = Function('par2', R, R); cl2 = Function('cl2', R, I); ca2 = Function('ca2', R, I, R); idx2 = Function('idx2', R, I)
n,p,x = Consts('n p x', R); k = Int('k'); i = Int('i')
upd = [ k == idx(n),
  ForAll([x], par2(x) == If(x==n, NONE, par(x))),
  ForAll([x], cl2(x) == If(x==p, cl(p)-1, cl(x))),
  ForAll([x,i], ca2(x,i) == If(And(x==p, i>=k), ca(p,i+1), ca(x,i))),
  ForAll([x], idx2(x) == If(And(par(x)==p, idx(x)>k), idx(x)-1, idx(x))),
]
pre = [isn(n), par(n)==p, p!=NONE]
check('detach', wf(par,cl,ca,idx)+upd+pre, wf(par2,cl2,ca2,idx2))
upd = [
  ForAll([x], par2(x) == If(x==n, p, par(x))),
  ForAll([x], cl2(x) == If(x==p, cl(p)+1, cl(x))),
  ForAll([x,i], ca2(x,i) == If(And(x==p, i==cl(p)), n, ca(x,i))),
  ForAll([x], idx2(x) == If(x==n, cl(p), idx(x))),
]
pre = [isn(n), isn(p), par(n)==NONE, n != p, Not(isn(NONE))]
check('attach', wf(par,cl,ca,idx)+upd+pre, wf(par2,cl2,ca2,idx2))
