import itertools, sys, pickle, copy, re
from anytree import *
from anytree.exporter import DictExporter, JsonExporter
from anytree.importer import DictImporter, JsonImporter
exec(open(__import__('os').path.join(__import__('os').path.dirname(__import__('os').path.abspath(__file__)), 'native_probe_iterators.py')).read().split("# reference")[0].split("from anytree.importer import DictImporter")[1])

# ---- C19
class MyMixin(NodeMixin):
    def __init__(self, v, parent=None): self.v=v; self.parent=parent
class Light(LightNodeMixin):
    __slots__=['v']
    def __init__(self, v, parent=None): self.v=v; self.parent=parent
def shape_of(n): return (type(n).__name__, tuple(shape_of(c) for c in n.children))
root=Node('r'); a=Node('a',parent=root); b=AnyNode(parent=root, foo=1); s=SymlinkNode(a, parent=b); m=MyMixin(3,parent=a); s2=SymlinkNode(s, parent=root)
for entry in [root,a,b,s,m,s2]:
    for proto in range(0, pickle.HIGHEST_PROTOCOL+1):
        try:
            c = pickle.loads(pickle.dumps(entry, proto))
            assert shape_of(c.root)==shape_of(root), (entry, proto)
        except Exception as e: print("PICKLE FAIL", entry, proto, type(e).__name__, e)
    try:
        c = copy.deepcopy(entry); assert shape_of(c.root)==shape_of(root)
        # symlink target stays inside copy
    except Exception as e: print("DEEPCOPY FAIL", entry, type(e).__name__, e)
c = copy.deepcopy(root)
cs = c.children[1].children[0]
print("symlink copy target is copied node:", cs.target is c.children[0], cs.target is a)
lr=Light(1); la=Light(2,parent=lr); lb=Light(3,parent=la)
for proto in range(0, pickle.HIGHEST_PROTOCOL+1):
    try:
        c=pickle.loads(pickle.dumps(la, proto)); assert shape_of(c.root)==shape_of(lr) and c.v==2 and c.parent.v==1
    except Exception as e: print("LIGHT PICKLE FAIL", proto, type(e).__name__, e)
c=copy.deepcopy(la); assert shape_of(c.root)==shape_of(lr)
# deep chain recursion
r=Node('0'); cur=r
for i in range(2000): cur=Node(str(i+1), parent=cur)
try: pickle.dumps(r); print("deep pickle ok")
except RecursionError as e: print("deep pickle RecursionError")

# ---- C20
t=Node('t'); l=SymlinkNode(t); l2=SymlinkNode(l)
l.foo=4; print('fwd write', t.foo, l2.foo); l2.bar=5; print(t.bar)
try: l.nonexist
except AttributeError as e: print('AttributeError ok')
x=Node('x', parent=l); print(t.children, l.children, l.parent, t.parent)
l.parent=t; print(t.children, l.parent, t.parent)
print(repr(l), l.name, l.path, l.depth)
l3 = SymlinkNode(t, name='renamed'); print(t.name)
# ---- mixed
class L2(LightNodeMixin):
    __slots__=['name']
    def __init__(self,name): self.name=name
ln=L2('l'); nn=Node('n')
for call in ("nn.parent=ln","ln.parent=nn","nn.children=[ln]","ln.children=[nn]"):
    try: exec(call); print(call,'ok', nn.parent, nn.children, ln.parent, ln.children)
    except Exception as e: print(call, type(e).__name__, e)
    nn=Node('n'); ln=L2('l')
# ---- C10
root = AnyNode(a=1); c1=AnyNode(parent=root, children_x=2); c2=AnyNode(parent=c1)
print(DictExporter().export(root), DictExporter(maxlevel=0).export(root), DictExporter(maxlevel=2).export(root))
d={'a':1,'children':[{'b':2,'children':[]},{'c':3}]}
d0=copy.deepcopy(d); t=DictImporter().import_(d); print(d==d0, DictExporter().export(t))
try: print(DictExporter().export(Node('x', parent=None, children=[Node('y')])))
except Exception as e: print(e)
je=JsonExporter(maxlevel=1); de=DictExporter(); je2=JsonExporter(dictexporter=de, maxlevel=1); print(je2.export(root), de.maxlevel)
