"""
SPIKE (design-time, not the machinery): drive verification conditions for
NodeMixin.__detach / NodeMixin.__attach from the REAL source AST of
/repo/anytree/node/nodemixin.py (or a mutated copy given as argv[1]).

It interprets exactly the statement forms occurring in those two bodies, path-wise,
with hooks as "returns / raises" splits, the private getter __children_or_empty by
contract, the comprehension by lemma L1 (filter_ne on a duplicate-free list), and ghost
updates placed after the store to self.__parent.  Obligations: 18 WF clauses, complete
post-state, unchanged-view on the _pre_* exceptional exits, internal assertion.

usage: python3-vt spike_symexec_attach_detach.py [path-to-nodemixin.py]
"""
import ast
import sys
import time

from z3 import (And, Array, ArraySort, BoolSort, BoolVal, Const, Consts, DeclareSort, ForAll, Function, If, Implies, Int,
                IntSort, Not, Or, Solver, Store, unsat)

SRC = sys.argv[1] if len(sys.argv) > 1 else "/repo/anytree/node/nodemixin.py"
CLS = "NodeMixin"

R = DeclareSort("Ref")
I = IntSort()
B = BoolSort()
NONE = Const("None_", R)
isn = Function("isnode", R, B)
isl = Function("islist", R, B)
_ver = [0]


def fresh(name):
    _ver[0] += 1
    return "%s!%d" % (name, _ver[0])


class State:
    FIELDS = ("hasP", "hasC", "P", "C", "Llen", "Lat", "alloc")

    def __init__(self, tag=None, **kw):
        if tag is not None:
            self.hasP = Array("hasP" + tag, R, B)
            self.hasC = Array("hasC" + tag, R, B)
            self.P = Array("P" + tag, R, R)
            self.C = Array("C" + tag, R, R)
            self.Llen = Array("Llen" + tag, R, I)
            self.Lat = Array("Lat" + tag, R, ArraySort(I, R))
            self.alloc = Array("alloc" + tag, R, B)
            self.A = Function("A" + tag, R, R, B)
            self.d = Function("d" + tag, R, I)
            self.idx = Function("idx" + tag, R, I)
        self.__dict__.update(kw)

    def copy(self, **kw):
        s = State()
        s.__dict__.update(self.__dict__)
        s.__dict__.update(kw)
        return s

    # view
    def par(self, n):
        return If(self.hasP[n], self.P[n], NONE)

    def cl(self, n):
        return If(self.hasC[n], self.Llen[self.C[n]], 0)

    def ca(self, n, i):
        return self.Lat[self.C[n]][i]


def WF(S):
    x, y, a, b, c = Consts("x y a b c", R)
    i = Int("i")
    A, d, idx = S.A, S.d, S.idx
    return [
        Not(isn(NONE)), Not(isl(NONE)), ForAll([x], Not(And(isn(x), isl(x)))),
        ForAll([x], Implies(isn(x), Or(S.par(x) == NONE, isn(S.par(x))))),
        ForAll([x, i], Implies(And(isn(x), 0 <= i, i < S.cl(x)),
                               And(isn(S.ca(x, i)), S.par(S.ca(x, i)) == x, idx(S.ca(x, i)) == i))),
        ForAll([x], Implies(And(isn(x), S.par(x) != NONE),
                            And(0 <= idx(x), idx(x) < S.cl(S.par(x)), S.ca(S.par(x), idx(x)) == x))),
        ForAll([x], Implies(And(isn(x), S.hasC[x]), And(isl(S.C[x]), S.alloc[S.C[x]], S.Llen[S.C[x]] >= 0))),
        ForAll([x, y], Implies(And(isn(x), isn(y), S.hasC[x], S.hasC[y], S.C[x] == S.C[y]), x == y)),
        ForAll([x], Implies(isn(x), A(x, x))), ForAll([a, x], Implies(A(a, x), And(isn(a), isn(x)))),
        ForAll([a, b, c], Implies(And(A(a, b), A(b, c)), A(a, c))),
        ForAll([a, b], Implies(And(A(a, b), A(b, a)), a == b)),
        ForAll([a, b, x], Implies(And(A(a, x), A(b, x)), Or(A(a, b), A(b, a)))),
        ForAll([x], Implies(And(isn(x), S.par(x) != NONE), And(A(S.par(x), x), S.par(x) != x))),
        ForAll([a, x], Implies(And(A(a, x), a != x), And(S.par(x) != NONE, A(a, S.par(x))))),
        ForAll([x], Implies(isn(x), d(x) == If(S.par(x) == NONE, 0, d(S.par(x)) + 1))),
        ForAll([x], Implies(isn(x), d(x) >= 0)), ForAll([a, b], Implies(And(A(a, b), a != b), d(a) < d(b))),
    ]


def view_equal(S1, S0):
    x = Const("x", R)
    i = Int("i")
    return And(ForAll([x], Implies(isn(x), S1.par(x) == S0.par(x))),
               ForAll([x, i], Implies(isn(x), And(S1.cl(x) == S0.cl(x),
                                                  Implies(And(0 <= i, i < S0.cl(x)), S1.ca(x, i) == S0.ca(x, i))))))


# ---------------------------------------------------------------------------------- front end
def load(path, cls):
    tree = ast.parse(open(path).read())
    c = [n for n in tree.body if isinstance(n, ast.ClassDef) and n.name == cls][0]
    out = {}
    for fn in c.body:
        if isinstance(fn, ast.FunctionDef):
            body = fn.body
            if body and isinstance(body[0], ast.Expr) and isinstance(getattr(body[0], "value", None), ast.Constant) \
                    and isinstance(body[0].value.value, str):
                body = body[1:]
            name = fn.name
            if name.startswith("__") and not name.endswith("__"):
                name = "_%s%s" % (cls, name)
            out[name] = (fn, body)
    return out


def mangle(attr):
    if attr.startswith("__") and not attr.endswith("__"):
        return "_%s%s" % (CLS, attr)
    return attr


# ---------------------------------------------------------------------------------- executor
class Path:
    def __init__(self, env, S, pc, obligations, trace):
        self.env, self.S, self.pc, self.obl, self.trace = env, S, pc, obligations, trace

    def fork(self, extra_pc=None, **kw):
        p = Path(dict(self.env), self.S, list(self.pc), self.obl, list(self.trace))
        if extra_pc is not None:
            p.pc.append(extra_pc)
        p.__dict__.update(kw)
        return p


class Unsupported(Exception):
    pass


class Exec:
    """Interprets the statement forms of __detach/__attach.  kinds: node, optnode, listref, bool."""

    def __init__(self, fname, S0, selfv, ghost_update, hookobs):
        self.fname, self.S0, self.selfv, self.ghost_update, self.hookobs = fname, S0, selfv, ghost_update, hookobs
        self.exits = []  # (kind, info, path)

    def expr(self, e, p):
        if isinstance(e, ast.Name):
            if e.id == "ASSERTIONS":
                return ("bool", p.env.setdefault("ASSERTIONS", Const("ASSERTIONS", B)))
            return p.env[e.id]
        if isinstance(e, ast.Constant) and e.value is None:
            return ("none", NONE)
        if isinstance(e, ast.Compare) and len(e.ops) == 1 and isinstance(e.ops[0], (ast.Is, ast.IsNot)):
            (_, l), (_, r) = self.expr(e.left, p), self.expr(e.comparators[0], p)
            t = l == r
            return ("bool", Not(t) if isinstance(e.ops[0], ast.IsNot) else t)
        if isinstance(e, ast.UnaryOp) and isinstance(e.op, ast.Not):
            k, v = self.expr(e.operand, p)
            assert k == "bool"
            return ("bool", Not(v))
        if isinstance(e, ast.Attribute):
            k, obj = self.expr(e.value, p)
            attr = mangle(e.attr)
            if attr == "_%s__children_or_empty" % CLS:
                # private getter by contract: lazily creates an empty fresh list, returns the list object
                assert k in ("node", "optnode")
                S = p.S
                l = Const(fresh("newlist"), R)
                lazily = And(Not(S.alloc[l]), isl(l))
                p.pc.append(lazily)
                S2 = S.copy(
                    hasC=Store(S.hasC, obj, True),
                    C=If(S.hasC[obj], S.C, Store(S.C, obj, l)),
                    Llen=If(S.hasC[obj], S.Llen, Store(S.Llen, l, 0)),
                    alloc=If(S.hasC[obj], S.alloc, Store(S.alloc, l, True)))
                p.S = S2
                return ("listref", S2.C[obj])
            raise Unsupported(ast.dump(e))
        if isinstance(e, ast.Call) and isinstance(e.func, ast.Name) and e.func.id == "any" \
                and isinstance(e.args[0], ast.GeneratorExp):
            g = e.args[0]
            comp = g.generators[0]
            assert not comp.ifs and isinstance(comp.target, ast.Name)
            k, lst = self.expr(comp.iter, p)
            assert k == "listref"
            j = Int(fresh("j"))
            # any(P(child) for child in lst)  ==  exists j in range. P(lst[j]); keep as skolem-free existential
            from z3 import Exists
            env2 = dict(p.env)
            env2[comp.target.id] = ("node", p.S.Lat[lst][j])
            q = Path(env2, p.S, p.pc, p.obl, p.trace)
            _, body = self.expr(g.elt, q)
            return ("bool", Exists([j], And(0 <= j, j < p.S.Llen[lst], body)))
        raise Unsupported(ast.dump(e))

    def hook(self, name, p, arg):
        # HOOKOBS obligation, then split returns / raises; hooks do not change links (assumed contract)
        self.obligation(p, "HOOKOBS:" + name, self.hookobs[name](p.S))
        r = p.fork()
        r.trace.append(name + ":raises")
        self.exits.append(("raise", name, r))
        p.trace.append(name + ":returns")

    def obligation(self, p, name, goal):
        p.obl.append((self.fname + "/" + name + "/" + ">".join(p.trace), list(p.pc), goal))

    def block(self, stmts, p):
        """returns list of live paths after the block"""
        live = [p]
        for st in stmts:
            nxt = []
            for q in live:
                nxt += self.stmt(st, q)
            live = nxt
        return live

    def stmt(self, st, p):
        S = p.S
        if isinstance(st, ast.If):
            k, c = self.expr(st.test, p)
            assert k == "bool"
            t = p.fork(c)
            f = p.fork(Not(c))
            return self.block(st.body, t) + self.block(st.orelse, f)
        if isinstance(st, ast.Assert):
            k, c = self.expr(st.test, p)
            self.obligation(p, "ASSERT", c)
            p.pc.append(c)
            return [p]
        if isinstance(st, ast.Expr) and isinstance(st.value, ast.Call) and isinstance(st.value.func, ast.Attribute):
            call = st.value
            k, recv = self.expr(call.func.value, p)
            m = call.func.attr
            if m in ("_pre_detach", "_post_detach", "_pre_attach", "_post_attach"):
                assert k == "node" and recv is self.selfv
                self.hook(m, p, self.expr(call.args[0], p)[1])
                return [p]
            if m == "append" and k == "listref":
                _, v = self.expr(call.args[0], p)
                n = S.Llen[recv]
                p.S = S.copy(Llen=Store(S.Llen, recv, n + 1), Lat=Store(S.Lat, recv, Store(S.Lat[recv], n, v)))
                p.trace.append("append")
                return [p]
            raise Unsupported(ast.dump(st))
        if isinstance(st, ast.Assign) and len(st.targets) == 1:
            tgt = st.targets[0]
            if isinstance(tgt, ast.Name):
                p.env[tgt.id] = self.expr(st.value, p)
                return [p]
            if isinstance(tgt, ast.Attribute):
                _, obj = self.expr(tgt.value, p)
                attr = mangle(tgt.attr)
                S = p.S
                if attr == "_%s__children" % CLS and isinstance(st.value, ast.ListComp):
                    lc = st.value
                    comp = lc.generators[0]
                    # recognise  [v for v in L if v is not X]   -> filter_ne(L, X)
                    ok = (isinstance(lc.elt, ast.Name) and isinstance(comp.target, ast.Name)
                          and lc.elt.id == comp.target.id and len(comp.ifs) == 1
                          and isinstance(comp.ifs[0], ast.Compare) and isinstance(comp.ifs[0].ops[0], ast.IsNot)
                          and isinstance(comp.ifs[0].left, ast.Name) and comp.ifs[0].left.id == comp.target.id)
                    if not ok:
                        raise Unsupported("comprehension shape")
                    _, L = self.expr(comp.iter, p)
                    _, X = self.expr(comp.ifs[0].comparators[0], p)
                    l2 = Const(fresh("complist"), R)
                    k = p.S.idx(X)  # witness position supplied by the sidecar (ghost idx)
                    i = Int("i")
                    # lemma L1 premises are obligations: X occurs at k, and nowhere else
                    j = Int("j")
                    self.obligation(p, "L1-premise", And(0 <= k, k < S.Llen[L], S.Lat[L][k] == X,
                                                         ForAll([j], Implies(And(0 <= j, j < S.Llen[L], j != k),
                                                                             S.Lat[L][j] != X))))
                    p.pc += [Not(S.alloc[l2]), isl(l2)]
                    newLat = Array(fresh("Lat"), R, ArraySort(I, R))
                    x = Const("x", R)
                    p.pc += [ForAll([i], newLat[l2][i] == If(i < k, S.Lat[L][i], S.Lat[L][i + 1])),
                             ForAll([x], Implies(x != l2, newLat[x] == S.Lat[x]))]
                    p.S = S.copy(alloc=Store(S.alloc, l2, True), Llen=Store(S.Llen, l2, S.Llen[L] - 1), Lat=newLat,
                                 C=Store(S.C, obj, l2), hasC=Store(S.hasC, obj, True))
                    p.trace.append("store-children")
                    return [p]
                if attr == "_%s__parent" % CLS:
                    _, v = self.expr(st.value, p)
                    p.S = S.copy(P=Store(S.P, obj, v), hasP=Store(S.hasP, obj, True))
                    p.trace.append("store-parent")
                    # ghost code (sidecar): end of ATOMIC block
                    p.S, axioms = self.ghost_update(p.S, p)
                    p.pc += axioms
                    return [p]
            raise Unsupported(ast.dump(st))
        raise Unsupported(ast.dump(st))


# ---------------------------------------------------------------------------------- contracts (sidecar)
def run(fname, funcs):
    fn, body = funcs["_%s%s" % (CLS, fname)]
    S0 = State("0")
    selfv, parent = Consts("self parent", R)
    x, a = Consts("x a", R)
    i = Int("i")
    if fname == "__detach":
        pre = WF(S0) + [isn(selfv), S0.par(selfv) == parent]
        k0 = S0.idx(selfv)

        def ghost(S, p):
            A, d, idx = (Function(fresh(n), *sig) for n, sig in
                         (("A", (R, R, B)), ("d", (R, I)), ("idx", (R, I))))
            ax = [ForAll([a, x], A(a, x) == And(S0.A(a, x), Not(And(S0.A(a, parent), S0.A(selfv, x))))),
                  ForAll([x], d(x) == If(S0.A(selfv, x), S0.d(x) - S0.d(selfv), S0.d(x))),
                  ForAll([x], idx(x) == If(And(S0.par(x) == parent, S0.idx(x) > k0), S0.idx(x) - 1, S0.idx(x)))]
            return S.copy(A=A, d=d, idx=idx), ax
        hookobs = {
            "_pre_detach": lambda S: And(view_equal(S, S0), S.par(selfv) == parent),
            "_post_detach": lambda S: And(S.par(selfv) == NONE,
                                          ForAll([i], Implies(And(0 <= i, i < S.cl(parent)), S.ca(parent, i) != selfv))),
        }

        def post(S):
            return And(S.par(selfv) == NONE, S.cl(parent) == S0.cl(parent) - 1,
                       ForAll([i], Implies(And(0 <= i, i < S.cl(parent)),
                                           S.ca(parent, i) == If(i < k0, S0.ca(parent, i), S0.ca(parent, i + 1)))),
                       ForAll([x], Implies(And(isn(x), x != selfv), S.par(x) == S0.par(x))),
                       ForAll([x, i], Implies(And(isn(x), x != parent),
                                              And(S.cl(x) == S0.cl(x),
                                                  Implies(And(0 <= i, i < S0.cl(x)), S.ca(x, i) == S0.ca(x, i))))))
        unchanged_exits = ("_pre_detach",)
    else:
        pre = WF(S0) + [isn(selfv), S0.par(selfv) == NONE, Or(parent == NONE, And(isn(parent), Not(S0.A(selfv, parent))))]

        def ghost(S, p):
            A, d, idx = (Function(fresh(n), *sig) for n, sig in
                         (("A", (R, R, B)), ("d", (R, I)), ("idx", (R, I))))
            ax = [ForAll([a, x], A(a, x) == Or(S0.A(a, x), And(S0.A(a, parent), S0.A(selfv, x)))),
                  ForAll([x], d(x) == If(S0.A(selfv, x), S0.d(x) + S0.d(parent) + 1, S0.d(x))),
                  ForAll([x], idx(x) == If(x == selfv, S0.cl(parent), S0.idx(x)))]
            return S.copy(A=A, d=d, idx=idx), ax
        hookobs = {
            "_pre_attach": lambda S: And(view_equal(S, S0), S.par(selfv) == NONE),
            "_post_attach": lambda S: And(S.par(selfv) == parent, S.cl(parent) >= 1,
                                          S.ca(parent, S.cl(parent) - 1) == selfv),
        }

        def post(S):
            return And(S.par(selfv) == parent, S.cl(parent) == S0.cl(parent) + 1,
                       S.ca(parent, S0.cl(parent)) == selfv,
                       ForAll([i], Implies(And(0 <= i, i < S0.cl(parent)), S.ca(parent, i) == S0.ca(parent, i))),
                       ForAll([x], Implies(And(isn(x), x != selfv), S.par(x) == S0.par(x))),
                       ForAll([x, i], Implies(And(isn(x), x != parent),
                                              And(S.cl(x) == S0.cl(x),
                                                  Implies(And(0 <= i, i < S0.cl(x)), S.ca(x, i) == S0.ca(x, i))))))
        unchanged_exits = ("_pre_attach",)

    ex = Exec(fname, S0, selfv, ghost, hookobs)
    env = {"self": ("node", selfv), "parent": ("optnode", parent)}
    p0 = Path(env, S0, list(pre), [], [])
    live = ex.block(body, p0)
    obl = p0.obl
    for p in live:
        changed = "store-parent" in p.trace
        tag = fname + "/NORMAL/" + ">".join(p.trace)
        if changed:
            obl.append((tag + "/POST", list(p.pc), post(p.S)))
            for n, g in enumerate(WF(p.S)):
                obl.append((tag + "/WF%d" % n, list(p.pc), g))
        else:
            obl.append((tag + "/POST-noop", list(p.pc), And(parent == NONE, view_equal(p.S, S0))))
    for kind, hook, p in ex.exits:
        tag = fname + "/EXC(" + hook + ")/" + ">".join(p.trace)
        if hook in unchanged_exits:
            obl.append((tag + "/UNCHANGED", list(p.pc), view_equal(p.S, S0)))
        else:
            obl.append((tag + "/STEP-NOT-UNDONE", list(p.pc), post(p.S)))
        for n, g in enumerate(WF(p.S) if "store-parent" in p.trace else []):
            obl.append((tag + "/WF%d" % n, list(p.pc), g))
    return obl


def main():
    funcs = load(SRC, CLS)
    total = bad = 0
    t0 = time.time()
    for fname in ("__detach", "__attach"):
        try:
            obl = run(fname, funcs)
        except Unsupported as e:
            print("STRUCT", fname, "outside spike subset:", str(e)[:120])
            bad += 1
            continue
        for name, pc, goal in obl:
            s = Solver()
            s.set("timeout", 30000)
            s.add(pc)
            s.add(Not(goal))
            t = time.time()
            r = s.check()
            total += 1
            if r != unsat:
                bad += 1
                print("NOT ACCEPTED %-7s %5.2fs %s" % (r, time.time() - t, name))
    print("source: %s   obligations: %d   not accepted: %d   wall: %.1fs" % (SRC, total, bad, time.time() - t0))


if __name__ == "__main__":
    main()
