import ast, sys
def load(path, cls):
    t = ast.parse(open(path).read())
    c = [n for n in t.body if isinstance(n, ast.ClassDef) and n.name==cls][0]
    out = {}
    for n in c.body:
        if isinstance(n, ast.FunctionDef):
            kind = 'method'
            for d in n.decorator_list:
                s = ast.unparse(d)
                if s=='property': kind='getter'
                elif s.endswith('.setter'): kind='setter'
                elif s.endswith('.deleter'): kind='deleter'
                elif s=='staticmethod': kind='static'
            # strip docstring
            body = n.body[1:] if (n.body and isinstance(n.body[0], ast.Expr) and isinstance(getattr(n.body[0],'value',None), ast.Constant) and isinstance(n.body[0].value.value, str)) else n.body
            src = "\n".join(ast.unparse(b) for b in body) or "pass"
            out[(n.name, kind)] = src
        elif isinstance(n, ast.Assign):
            out[(ast.unparse(n.targets[0]), 'assign')] = ast.unparse(n.value)
    return out
a = load('/repo/anytree/node/nodemixin.py', 'NodeMixin')
b = load('/repo/anytree/node/lightnodemixin.py', 'LightNodeMixin')
norm = lambda s: s.replace('_LightNodeMixin', '_NodeMixin').replace('LightNodeMixin', 'NodeMixin')
for k in sorted(set(a)|set(b)):
    if k not in a: print('only light:', k, b[k][:80]); continue
    if k not in b: print('only node :', k); continue
    if norm(a[k]) != norm(b[k]): print('DIFF', k); print('  node :', a[k].replace('\n','\n         ')); print('  light:', b[k].replace('\n','\n         '))
print(len(a), len(b))
