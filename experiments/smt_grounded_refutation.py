# grounded refutation mode: finite universe of K nodes + None, int quantifiers over [-1..K+1]
import time, sys, itertools
from z3 import *
K=3
R, els = EnumSort('Ref', ['None_']+['n%d'%i for i in range(K)]); I=IntSort(); B=BoolSort()
NONE=els[0]; NODES=list(els)
RANGE=list(range(-1,K+2))
def FA(vars_, body):
    # vars_: list of ('r'|'i'); body: python function of concrete terms
    doms=[NODES if v=='r' else [IntVal(t) for t in RANGE] for v in vars_]
    return And(*[body(*combo) for combo in itertools.product(*doms)])
isn = Function('isnode', R, B)
def mk(tag): return dict(par=Function('par'+tag, R, R), cl=Function('cl'+tag, R, I), ca=Function('ca'+tag, R, I, R), idx=Function('idx'+tag, R, I))
def wf(S):
    par,cl,ca,idx = S['par'],S['cl'],S['ca'],S['idx']
    return [ Not(isn(NONE)),
      FA(['r','i'], lambda x,i: Implies(And(isn(x), 0<=i, i<cl(x)), And(isn(ca(x,i)), par(ca(x,i))==x, idx(ca(x,i))==i))),
      FA(['r'], lambda x: Implies(And(isn(x), par(x)!=NONE), And(isn(par(x)), 0<=idx(x), idx(x)<cl(par(x)), ca(par(x),idx(x))==x))),
      FA(['r'], lambda x: And(cl(x)>=0, cl(x)<=K)) ]
S0=mk('0'); S2=mk('2')
n,p = Consts('n p', R)
par,cl,ca,idx = S0['par'],S0['cl'],S0['ca'],S0['idx']; par2,cl2,ca2,idx2 = S2['par'],S2['cl'],S2['ca'],S2['idx']
# BROKEN attach: inserts at front instead of append (mutant), ghost idx per contract (append) -> WF(S2) should fail
upd = [
  FA(['r'], lambda x: par2(x) == If(x==n, p, par(x))),
  FA(['r'], lambda x: cl2(x) == If(x==p, cl(p)+1, cl(x))),
  FA(['r','i'], lambda x,i: ca2(x,i) == If(x==p, If(i==0, n, ca(p,i-1)), ca(x,i))),
]
pre = [isn(n), isn(p), par(n)==NONE, n!=p]
# postcondition from property: n is LAST child of p, others keep order
goal = And(ca2(p, cl2(p)-1) == n, FA(['i'], lambda i: Implies(And(0<=i, i<cl(p)), ca2(p,i)==ca(p,i))))
so=Solver(); so.set('timeout',60000); so.add(wf(S0)+upd+pre); so.add(Not(goal))
t=time.time(); r=so.check(); print(r, '%.2fs'%(time.time()-t))
if r==sat:
    m=so.model()
    for x in NODES[1:]:
        print(x, 'isnode', m.eval(isn(x)), 'par', m.eval(par(x)), 'children', [m.eval(ca(x,IntVal(i))) for i in range(m.eval(cl(x)).as_long())])
    print('n=',m.eval(n),'p=',m.eval(p))
