from anytree import Node, NodeMixin, LoopError, TreeError, Resolver, util
from anytree.exporter import DotExporter, MermaidExporter

def snap(nodes):
    return {n.name: (n.parent.name if n.parent else None, tuple(c.name for c in n.children)) for n in nodes}

class Veto(Exception): pass

class H(Node):
    veto = ()
    def _pre_attach(self, parent):
        if 'pre_attach' in self.veto: raise Veto('pre_attach')
    def _pre_detach(self, parent):
        if 'pre_detach' in self.veto: raise Veto('pre_detach')

print("--- (a) move with _pre_attach veto")
r = H('r'); a = H('a', parent=r); b = H('b', parent=r); x = H('x', parent=a)
nodes = [r,a,b,x]; before = snap(nodes)
x.veto = ('pre_attach',)
try: x.parent = b
except Veto as e: print('raised', e)
print(before == snap(nodes), snap(nodes))

print("--- (b) children setter, 2nd old child vetoes detach")
r = H('r'); a = H('a', parent=r); b = H('b', parent=r); c = H('c')
nodes=[r,a,b,c]; before=snap(nodes)
b.veto = ('pre_detach',)
try: r.children = [c]
except Veto as e: print('raised', e)
print(before == snap(nodes), snap(nodes))

print("--- (c) children setter steals from other parent then fails with LoopError")
r = H('r'); n = H('n', parent=r); a = H('a', parent=n); m = H('m', parent=r); b = H('b', parent=m); b2=H('b2', parent=m)
nodes=[r,n,a,m,b,b2]; before=snap(nodes)
try: n.children = [b, r]
except LoopError as e: print('raised', type(e).__name__)
print(before == snap(nodes)); print(before); print(snap(nodes))

print("--- (c2) children setter: new child vetoes attach")
r = H('r'); n = H('n', parent=r); a = H('a', parent=n); m = H('m', parent=r); b = H('b', parent=m); c=H('c')
nodes=[r,n,a,m,b,c]; before=snap(nodes)
c.veto=('pre_attach',)
try: n.children = [b, c]
except Veto as e: print('raised', e)
print(before == snap(nodes)); print(before); print(snap(nodes))

print("--- (e) del children, 2nd child vetoes")
r = H('r'); a = H('a', parent=r); b = H('b', parent=r)
nodes=[r,a,b]; before=snap(nodes)
b.veto=('pre_detach',)
try: del r.children
except Veto as e: print('raised', e)
print(before == snap(nodes), snap(nodes))

print("--- (f) children = [self]")
r = H('r'); a = H('a', parent=r)
nodes=[r,a]; before=snap(nodes)
try: r.children = [r]
except Exception as e: print('raised', type(e).__name__)
print(before == snap(nodes), snap(nodes))

print("--- (g) persistent readonly: rollback itself vetoed")
class RO(Node):
    ro=False
    def _pre_attach(self, parent):
        if RO.ro: raise Veto('ro attach')
    def _pre_detach(self, parent):
        if RO.ro: raise Veto('ro detach')
r = RO('r'); a = RO('a', parent=r); b = RO('b', parent=r); c = RO('c')
nodes=[r,a,b,c]; before=snap(nodes)
RO.ro=True
for call in ("r.children=[c]", "r.children=[a]", "del r.children", "a.parent=b", "c.parent=r", "r.children=[b,a]", "r.children=[]"):
    try: exec(call)
    except Veto as e: print(call, 'raised', e, before==snap(nodes))
    else: print(call, 'no raise', before==snap(nodes), snap(nodes))

print("--- resolver relax")
top = Node('top'); s0 = Node('sub0', parent=top)
rr = Resolver('name', relax=True)
for p in ("sub2/x", "sub2/..", "sub2/.", "/top/zz/y", "../..", "sub2"):
    try: print(p, '->', rr.get(top, p))
    except Exception as e: print(p, 'RAISED', type(e).__name__, e)
for p in ("sub2/x", "sub2/*", "*/zz/..", "/top/zz/y"):
    try: print('glob', p, '->', rr.glob(top, p))
    except Exception as e: print('glob', p, 'RAISED', type(e).__name__, e)

print("--- dot maxlevel=0 / stop")
root = Node('root'); a = Node('a', parent=root); b = Node('b', parent=a)
print(list(DotExporter(root, maxlevel=0)))
print(list(MermaidExporter(root, maxlevel=0)))
print(list(DotExporter(root, stop=lambda n: n.name=='a')))
print(list(MermaidExporter(root, stop=lambda n: n.name=='a')))
print(list(DotExporter(root, filter_=lambda n: n.name!='a')))
print(list(MermaidExporter(root, filter_=lambda n: n.name!='a')))

print("--- util with falsy / equal nodes")
class F(Node):
    def __bool__(self): return False
r=F('r'); a=F('a',parent=r); b=F('b',parent=r)
print(util.leftsibling(b), util.rightsibling(a))
class E(Node):
    def __eq__(self, o): return True
    __hash__ = None
r=E('r'); a=E('a',parent=r); b=E('b',parent=r); c=E('c',parent=r)
print(util.leftsibling(c), util.rightsibling(a), util.rightsibling(b))
print(Resolver('name').glob(r, '**'))
