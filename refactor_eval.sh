#!/bin/bash
# usage: refactor_eval.sh <refactorings/ID> [Cxx ...]   -- applies a behaviour-preserving refactoring to a scratch export of /repo
# and runs the checks against it: every check must still exit 0 (an alarm here is a false alarm of the machinery).
S=$(realpath $1); shift
CHECKS=${@:-C01 C02 C03 C04 C05 C06 C07 C08 C09 C10 C11 C12 C13 C14 C15 C16 C17 C18 C19 C20}
D=$(mktemp -d /tmp/refacXXXX)
git -C /repo archive HEAD | tar -x -C $D
( cd $D && git init -q . && git apply $S/patch.diff ) || { echo "PATCH DOES NOT APPLY"; rm -rf $D; exit 2; }
out="{\"id\": \"$(basename $S)\", \"suite\": \"$(cd $D && /venv/bin/python -m pytest -q -p no:cacheprovider tests 2>&1 | tail -1)\", \"checks\": {"
first=1
for P in $CHECKS; do
  PYVC_REPO=$D /verif/check $P --tier quick > $D/.out 2>&1; x=$?
  v=$(grep -v "^KNOWN" $D/.out | tail -1 | cut -c1-200 | tr -d '"\\')
  [ $first = 1 ] || out="$out, "
  first=0
  out="$out\"$P\": {\"exit\": $x, \"last\": \"$v\"}"
done
out="$out}}"
echo "$out" > $S/meta.json
echo "$out" | python3 -c "import json,sys; d=json.load(sys.stdin); print(d['id'], d['suite'], {k:v['exit'] for k,v in d['checks'].items() if v['exit']!=0} or 'all 0')"
rm -rf $D
