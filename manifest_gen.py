"""regenerates MANIFEST.json from the table below (python3 manifest_gen.py)"""
import json

PROPS = [json.loads(l)["id"] for l in open("properties.jsonl")]
BASE_NOTE = ("Assumed/trusted: CPython semantics as encoded by the VC generator (pyvc), hook/callback contracts of user "
             "code, SMT solvers; termination and recursion limits not proved. Every assumption is listed in the evidence file.")
CHECKS = {
    "C01": dict(cat="proof", design="3/C01",
                text="WF (the two link views agree, acyclic, unique parent) is proved as an invariant: obligations generated "
                     "from the real bodies of both mixins' parent setter, __detach, __attach, __check_loop, children "
                     "getter/setter/deleter, __check_children, __children_or_empty, iter_path_reverse establish it on every "
                     "exit (normal, TreeError, LoopError, TypeError, every hook exception site), for both settings of "
                     "ASSERTIONS (symbolic) with every internal assertion proved never to fire; unbounded in nodes, depth "
                     "and history (induction over the history by invariant).",
                tech="contract-based deductive verification: AST->SMT VCs from /repo source, sidecar contracts, z3/cvc5"),
    "C02": dict(cat="proof", design="3/C02",
                text="Complete post-states (whole parent map and every children sequence) of parent assignment, children "
                     "assignment and deletion, and 'raises iff' conditions for TreeError/LoopError/TypeError, proved from the "
                     "real bodies of both mixins; children-setter loop by inductive invariant (membership + relative order for "
                     "other parents).",
                tech="contract-based deductive verification: AST->SMT VCs from /repo source, sidecar contracts, z3/cvc5"),
    "C03": dict(cat="proof", design="3/C03",
                text="'forest untouched' is an EXC postcondition on every exceptional exit caused by a refusal or a pre-hook; "
                     "proved per exit site from the real bodies; the four situations where the unchanged tree genuinely "
                     "violates it (KF1-KF4 in known_findings.json) are subtracted by exact case predicates and replayed on "
                     "the real code at every run.",
                tech="contract-based deductive verification (EXC postconditions per exit site) + known-finding replay"),
    "C16": dict(cat="proof", design="3/C16",
                text="Ghost hook log: exact event sequences of the parent setter and deleter as postconditions; what each of "
                     "the eight hooks may observe is a HOOKOBS obligation at its call site in the real bodies; children-level "
                     "ordering follows from the loop invariants over parent-setter contracts.",
                tech="contract-based deductive verification with ghost hook log"),
}
REASONS = {}

m = {"version": 1,
     "setup_cmd": "python3-vt -B -m compileall -q pyvc contracts checks harness >/dev/null; true",
     "hooks": {"guard": "ANYTREE_VERIF",
               "enable": "no source hooks: contracts are sidecars under /verif; nothing in /repo is guarded",
               "baseline_off_cmd": "cd /repo && /venv/bin/python -m pytest -ra -q -p no:cacheprovider --timeout=900 --continue-on-collection-errors",
               "source_commits": [], "add_only": True},
     "engines": [{"name": "pyvc", "path": "pyvc/", "serves_properties": sorted(CHECKS),
                  "kind_free_text": "own VC generator: Python ast of the real /repo functions -> path-wise symbolic execution against "
                                    "sidecar contracts -> SMT-LIB obligations discharged by z3 5.1 / z3 4.8 / cvc5 1.0 (portfolio)"}],
     "checks": [], "not_applicable": []}
for p in PROPS:
    if p in CHECKS:
        c = CHECKS[p]
        m["checks"].append({"property_id": p, "quick_cmd": "./check %s --tier quick" % p,
                            "thorough_cmd": "./check %s --tier thorough" % p,
                            "evidence_file": "evidence/%s.json" % p,
                            "replay_cmd_template": "./check %s --replay {path}" % p, "engine": "pyvc",
                            "level_claimed": {"category": c["cat"], "text": c["text"], "design_ref": "DESIGN.md " + c["design"]},
                            "level_note": c.get("note", BASE_NOTE), "technique": c["tech"]})
    else:
        m["not_applicable"].append({"property_id": p, "reason": REASONS.get(p, "check not built yet (work in progress; see DESIGN.md section 3)")})
json.dump(m, open("MANIFEST.json", "w"), indent=1)
