"""regenerates MANIFEST.json from the table below (python3 manifest_gen.py)"""
import json

PROPS = [json.loads(l)["id"] for l in open("properties.jsonl")]
BASE_NOTE = ("Assumed/trusted: CPython semantics as encoded by the VC generator (pyvc), hook/callback contracts of user "
             "code, SMT solvers; termination and recursion limits not proved. Every assumption is listed in the evidence file.")
CHECKS = {
    "C01": dict(cat="proof", design="3/C01",
                text="WF (the two link views agree, acyclic, unique parent) is proved as an invariant: obligations generated "
                     "from the real bodies of both mixins' parent setter, __detach, __attach, __check_loop, children "
                     "getter/setter/deleter, __check_children, __children_or_empty, iter_path_reverse establish it on every "
                     "exit (normal, TreeError, LoopError, TypeError, every hook exception site), for both settings of "
                     "ASSERTIONS (symbolic) with every internal assertion proved never to fire; unbounded in nodes, depth "
                     "and history (induction over the history by invariant).",
                tech="contract-based deductive verification: AST->SMT VCs from /repo source, sidecar contracts, z3/cvc5"),
    "C02": dict(cat="proof", design="3/C02",
                text="Complete post-states (whole parent map and every children sequence) of parent assignment, children "
                     "assignment and deletion, and 'raises iff' conditions for TreeError/LoopError/TypeError, proved from the "
                     "real bodies of both mixins; children-setter loop by inductive invariant (membership + relative order for "
                     "other parents).",
                tech="contract-based deductive verification: AST->SMT VCs from /repo source, sidecar contracts, z3/cvc5"),
    "C03": dict(cat="proof", design="3/C03",
                text="'forest untouched' is an EXC postcondition on every exceptional exit caused by a refusal or a pre-hook; "
                     "proved per exit site from the real bodies; the four situations where the unchanged tree genuinely "
                     "violates it (KF1-KF4 in known_findings.json) are subtracted by exact case predicates and replayed on "
                     "the real code at every run.",
                tech="contract-based deductive verification (EXC postconditions per exit site) + known-finding replay"),
    "C16": dict(cat="proof", design="3/C16",
                text="Ghost hook log: exact event sequences of the parent setter, the children deleter and the children setter "
                     "(delete phase, pre_attach_children, per child 2 or 4 events at LOGPOS(j), post_attach_children last) as "
                     "postconditions and loop invariants; what each of "
                     "the eight hooks may observe is a HOOKOBS obligation at its call site in the real bodies.",
                tech="contract-based deductive verification with ghost hook log"),
    "C04": dict(cat="proof", design="3/C04",
                text="Each navigation attribute is proved, from its real body in both mixins, to equal its definition over the "
                     "parent/children relation (first-order postconditions over the ghost forest theory: path/ancestors/root/"
                     "depth/siblings/is_leaf/is_root; height against the recursive HEIGHT; descendants/leaves/size against the "
                     "proved PreOrderIter contract); util.commonancestors (longest common prefix, loop invariant over zip(*ancestors)) and "
                     "util.leftsibling/rightsibling (neighbour at idx-1/idx+1 or None) from their real bodies.",
                tech="contract-based deductive verification: AST->SMT VCs from /repo source, sidecar contracts, z3/cvc5",
                note="Assumed: existence of the ghost functions (ancestor relation, depth, index, HEIGHT, ancestor-at-depth) in a "
                     "finite forest; bridge 'HEIGHT = longest downward path' and 'PRE = all nodes below' are Lean/bounded bridges "
                     "(see evidence.lemmas). util.leftsibling/rightsibling are verified on the tree repaired by fix: commit f8175df."),
    "C05": dict(cat="proof", design="3/C05",
                text="Each iterator's generator body (_iter, __next, _get_grandchildren) and the AbstractIter protocol (__init__, "
                     "__init, __next__, helpers) are proved equal to recursive specification functions (PRE, POSTF, LEVEL, LEVELG, "
                     "ZIG) for all trees, by loop invariants / the functions' own contracts at recursive calls; quantifier-free "
                     "sequence obligations. The reading 'every subtree node exactly once, in the defined order' is the bridge "
                     "L3/L4 (validated boundedly on the spec functions, Lean pending).",
                tech="contract-based deductive verification against recursive spec functions (z3 sequences)"),
    "C06": dict(cat="proof", design="3/C06",
                text="Same obligations as C05 with filter_, stop (uninterpreted callbacks) and maxlevel (any integer or None) "
                     "symbolic: the code is proved equal to the budgeted spec functions; maxlevel<=0 and stop(start) yield nothing "
                     "are consequences. The single admitted-set reading is bridge L5 (bounded validation of the spec functions "
                     "against the admitted-set semantics on all trees <=4/5 nodes x all subsets x all maxlevel).",
                tech="contract-based deductive verification against recursive spec functions (z3 sequences)"),
    "C14": dict(cat="proof", design="3/C14",
                text="_findall/_find/_filter_by_name, the four public search functions and the four cachedsearch wrappers are "
                     "proved from their real bodies: result = tuple of the PreOrderIter contract for the same arguments, "
                     "CountError iff below mincount / above maxcount with the message template bound to both numbers, find = "
                     "None/node/CountError, *_by_attr select exactly the nodes whose attribute exists and equals value (no "
                     "AttributeError escapes); the cachedsearch fallback decorator is the identity (syntactic obligation).",
                tech="contract-based deductive verification (seq world) + syntactic obligation for the decorator"),
    "C18": dict(cat="proof", design="3/C18",
                text="ASTEQ obligations: every member of LightNodeMixin is syntactically NodeMixin's member modulo the mangling "
                     "prefix/class name; the two isinstance guards are proved (SMT, from the real guard expressions) to be skips "
                     "for tree-node arguments; plus both families are verified against the same sidecar contracts "
                     "(all C01/C02/C03/C16 obligations of both), the consumers (navigation, iterators, search, Walker, Resolver, "
                     "RenderTree) are verified once against the navigation contracts both families satisfy, and no consumer names "
                     "a mixin family or one of its mangled attributes (syntactic scan).",
                tech="syntactic equivalence obligations + shared contracts discharged for both mixins",
                note="Assumed: slot storage and dict storage agree on get/set/has of the two bookkeeping attributes; syntactically "
                     "equal bodies under equal attribute semantics are observationally equal. Differential lock-step execution "
                     "(bounded) is used only for replay and in the thorough tier."),
    "C15": dict(cat="proof", design="3/C15",
                text="Walker.walk and __calc_common proved from their real bodies against the navigation contracts: WalkError iff "
                     "the nodes have no common ancestor-or-self; otherwise the middle element is the lowest common ancestor "
                     "(ancestor of both, below every common ancestor), upwards/downwards have the stated lengths, each step is "
                     "a parent/child link, ends are start/common/end; ASSERTIONS branch proved; no IndexError.",
                tech="contract-based deductive verification: AST->SMT VCs from /repo source, sidecar contracts, z3/cvc5",
                note="Assumed: lemma L2 (identity-filter over zip with downward-closed agreement = common prefix; Lean), whose "
                     "premise is proved at the use site; ghost forest functions exist (WF invariant, C01); mirror property "
                     "walk(end,start) by symmetry of the postcondition."),
    "C20": dict(cat="proof", design="3/C20",
                text="SymlinkNodeMixin.__getattr__/__setattr__ and SymlinkNode.__init__ proved from their real bodies against "
                     "effect-log contracts: the five names (two bookkeeping names, parent, children, target) are stored on the "
                     "link by the default protocol and nothing touches the target; every other name is stored on / read from the "
                     "target only; bookkeeping names and __setstate__ raise AttributeError without evaluating self.target; "
                     "constructor: target local, kwargs into the target's __dict__, then parent, then children iff truthy.",
                tech="contract-based deductive verification (attribute-effect world), z3 strings for attribute names",
                note="Assumed: CPython's attribute protocol (when __getattr__ is consulted; what object.__setattr__ does for "
                     "property names); the link's own position obeys C01-C03 because SymlinkNodeMixin inherits NodeMixin's "
                     "verified methods and keeps the bookkeeping names local (premise proved here)."),
    "C12": dict(cat="proof", design="3/C12",
                text="DotExporter's __iter__/__iter/__iter_options/__iter_nodes/__iter_edges and the default callbacks are proved "
                     "from their real bodies to emit exactly: header, option lines (indented, verbatim), one node line per "
                     "element of the PreOrderIter contract (quoted escaped identifier, attribute part verbatim), one edge line per "
                     "parent in the pre-order one level less x child passing filter_ and not stop, closing brace; the "
                     "UniqueDotExporter identifier table invariant (injective, stable, below the counter) is proved; esc, "
                     "constructors, UniqueDotExporter.__init__, RenderTreeGraph are pinned by syntactic obligations.",
                tech="contract-based deductive verification (z3 strings/sequences) + syntactic obligations for glue code",
                note="Known finding KF5 (stop not re-checked for the child end; pinned by two reference files of the test "
                     "suite) is subtracted by an exact case predicate and replayed on every run. Assumed: re.sub contract behind "
                     "esc (ESC), bridge 'edge listing = pairs with both ends declared' (validated boundedly), callbacks are "
                     "functions. Repaired by fix: 5775e32: maxlevel=0 edge traversal."),
    "C13": dict(cat="proof", design="3/C13",
                text="Same as C12 for MermaidExporter (__iter__, __iter, __iter_options, __iter_nodes, __iter_edges, default "
                     "callbacks, identifier table invariant N<k>): header 'graph <direction>', option, node and edge lines; the "
                     "child re-check includes stop; to_file, esc and __init__ pinned by syntactic obligations.",
                tech="contract-based deductive verification (z3 strings/sequences) + syntactic obligations for glue code",
                note="Assumed: re.sub contract behind esc, codecs.open/file.write (to_file is compared syntactically with the fenced "
                     "listing template), edge-agreement bridge validated boundedly. Repaired by fix: 5775e32."),
    "C07": dict(cat="proof", design="3/C07",
                text="Resolver.get, __get, __start, __cmp and _getattr are proved from their real bodies against the component-wise "
                     "specification of the statement (GN/GE: node and error status after each component; first matching child; "
                     "case-folded comparison iff ignorecase): the node reached is returned; RootResolverError / ChildResolverError / "
                     "ResolverError exactly for the first failing component (carrying the node); with relax=True None in exactly those "
                     "cases and no exception (proved after fix: 420228b).",
                tech="contract-based deductive verification (z3 strings/sequences), inductive lemmas discharged in SMT",
                note="The round-trip sentence (get of an absolute / Walker-spelled relative path returns the node, for sibling-unique "
                     "names without separator): proved in Lean over the fold that get is proved to compute (L10) and over Walker.walk's "
                     "contract (discharged in this check as well); the link split/join is by review, and the sentence is run on the real "
                     "code by the BOUNDED stand-in (evidence.bounded_parts). Assumed: str built-ins "
                     "split/startswith/upper as axiomatised, navigation contract of node.root."),
    "C08": dict(cat="proof", design="3/C08",
                text="Proved from the real bodies: cache transparency - the representation invariant of Resolver._match_cache (every "
                     "entry is the compiled translation of its own (pattern, ignorecase) key) is preserved by __match on every path "
                     "(hit, miss, miss with eviction) and __match returns the wildcard match for this resolver's own ignorecase "
                     "whatever the cache holds (all histories by invariant); __translate = the character-wise translation; "
                     "is_wildcard; glob = __start with the wildcard matcher (root component rules, relax -> []) then __glob; and the recursive "
                     "descent __glob/__find in both modes: a returned list is the denotation GL of the statement ('..', '', '.', '**' as "
                     "de-duplicated union over the pre-order of the subtree, wildcard/literal components over the matching children in "
                     "order); relaxed mode raises nothing; strict mode (sibling-unique names) raises only at a raise statement that is "
                     "under its dead-end condition, and whenever an error leaves __glob/__find the remaining components denote nothing "
                     "(so errors swallowed by wildcard / '**' alternatives lose no match - proved after fix: c7ab0b3).",
                tech="contract-based deductive verification (representation invariant of the shared cache, z3 strings)",
                note="Agreement of strict glob with get on wildcard-free paths (same node, same error class) and the "
                     "pre-order / duplicate-freeness reading of GL are covered by the BOUNDED stand-in run in both tiers "
                     "(evidence.bounded_parts), never counted as proved. "
                     "`re` semantics assumed (validated boundedly). Repaired by fix: ae02eb6 (strict glob blamed an existing literal "
                     "component) and fix: c7ab0b3 (a '**' alternative hitting the root under a wildcard lost the other matches)."),
    "C09": dict(cat="proof", design="3/C09",
                text="_is_last (look-ahead generator), RenderTree.__iter__, the recursive row generator __next and the row assembly "
                     "__item are proved from their real bodies equal to the recursive specification ROWS (one row per node while "
                     "level < maxlevel or no bound, childiter-ordered children, 'has a following sibling' flag appended per level; "
                     "root row empty, otherwise joined bar/blank segments plus continue/end branch); the built-in styles pass "
                     "three literals of equal width (syntactic obligations). Text layout: _format_row_any, RenderTree.__str__ and "
                     "by_attr (nested generators executed in place) are proved to print, for every row in order, pre + first line and "
                     "fill + each further line of the node's repr / selected attribute (list/tuple values line by line, an empty "
                     "value as one empty line), joined by newlines.",
                tech="contract-based deductive verification (z3 sequences/strings/datatypes), inductive lemma in SMT",
                note="The closed-form reading of ROWS is lemma L8 (Lean, childiter = identity). The Node/AnyNode/SymlinkNode reprs "
                     "(util._repr) are covered by the BOUNDED stand-in run in both tiers (evidence.bounded_parts) plus a syntactic "
                     "obligation on the _repr call sites, never counted as proved; splitlines/join/repr are uninterpreted."),
    "C17": dict(cat="other", design="3/C17",
                text="IDENT obligations decided by a kind analysis of the real AST of every function of the listed modules: no truth "
                     "test, comparison, membership test, hashing, len(), iteration, subscription, list.index/remove/count or "
                     "sorted/min/max is applied to a value that may be a tree node; each flagged site is an unaccepted obligation. "
                     "Complemented by adversarial node classes run through every structural operation (bounded).",
                tech="contract preconditions of built-ins discharged by kind inference over the AST (no solver) + adversarial-class execution",
                note="Level 'other': the discharge is a syntactic kind analysis with reviewed kind tables, not an SMT proof. Repaired by "
                     "fix: f8175df (util siblings) and 645dd4e (glob de-duplication). The optional fastcache branch is outside the claim."),
    "C19": dict(cat="other", design="3/C19",
                text="The round trip is executed by CPython's pickle/copy; no function of anytree implements it. Proved are the "
                     "repository-side conditions under which the assumed dependency contract yields the property: no class "
                     "customises reduction/copying, the link state lives only in the two bookkeeping attributes written by the "
                     "verified mutators, no module-level state, and SymlinkNodeMixin.__getattr__ refuses '__setstate__' and the "
                     "bookkeeping names before touching self.target (obligations from the real body).",
                tech="repository-side contract conditions (AST scans + SMT obligations); dependency contract assumed, validated boundedly",
                note="Level 'other': the isomorphism itself is an ASSUMED contract on pickle/copy, validated only boundedly (all trees "
                     "<= 4/5 nodes x 5 class mixes x every entry node x every protocol and deepcopy)."),
    "C11": dict(cat="proof", design="3/C11",
                text="Delegation equalities proved from the real bodies of JsonExporter._export/export/write and JsonImporter.__import/"
                     "import_/read: exactly one export of the node by the supplied dict exporter (else a default DictExporter()), "
                     "maxlevel forwarded iff not None and no other state touched; exactly one json.dumps / json.dump with that "
                     "dictionary, the file handle and exactly the stored keyword options; json.loads / json.load with the stored "
                     "options feed the shared __import, whose tree is returned.",
                tech="contract-based deductive verification on an ordered effect log (relative to an assumed contract on json)",
                note="Proof RELATIVE to the assumed dependency contract json.loads(json.dumps(d)) == d for JSON-representable d, which is "
                     "validated only boundedly; the DictExporter/DictImporter contracts (C10) the JSON classes delegate to are "
                     "discharged in this check as well."),
    "C10": dict(cat="proof", design="3/C10",
                text="DictExporter.export, the recursive __export and _iter_attr_values are proved from their real bodies against the "
                     "recursive export predicate of the statement: every exported dictionary is made by dictcls from attriter(all "
                     "instance attributes except the two bookkeeping keys), has a 'children' entry iff level < maxlevel (or no "
                     "bound) and childiter(children) is non-empty, holding in order an export of each such child one level deeper; "
                     "the start node is always exported; all options are passed unchanged to every level.",
                tech="contract-based deductive verification with observers on fresh values and a recursive predicate (z3)",
                note="DictImporter.__import is under an effect-log contract (argument copied and never written, 'children' popped from the "
                     "copy, one node constructed from the remaining attributes, every child imported in order under it); that the "
                     "result is isomorphic and the two round-trip sentences hold on the abstraction is lemma L9 (Lean); the link "
                     "effect log <-> abstract import is by review and run by the BOUNDED stand-in in both tiers "
                     "(evidence.bounded_parts), never counted as proved. The constructor contracts of the default node class are "
                     "discharged here as well."),
}
REASONS = {}
DEPS_NOTE = (" Dependency closure (DESIGN.md 2.3a): the run also discharges the obligations of the modules this property rests on - both "
             "node mixin families (C01/C02/C04 obligations and their member-by-member comparison), the symlink and constructor contracts, "
             "the iterator contracts where the code iterates, a pin of config.ASSERTIONS - so that a change which breaks the property "
             "through a dependency is reported by this check too; thorough tier: dependencies at quick solver strength.")

m = {"version": 1,
     "setup_cmd": "./lemmas/check_all.sh >/dev/null 2>&1; python3-vt -B -m compileall -q pyvc contracts checks harness >/dev/null; true",
     "hooks": {"guard": "ANYTREE_VERIF",
               "enable": "no source hooks: contracts are sidecars under /verif; nothing in /repo is guarded",
               "baseline_off_cmd": "cd /repo && /venv/bin/python -m pytest -ra -q -p no:cacheprovider --timeout=900 --continue-on-collection-errors",
               "source_commits": [], "add_only": True},
     "engines": [{"name": "pyvc", "path": "pyvc/", "serves_properties": sorted(CHECKS),
                  "kind_free_text": "own VC generator: Python ast of the real /repo functions -> path-wise symbolic execution against "
                                    "sidecar contracts -> SMT-LIB obligations discharged by z3 5.1 / z3 4.8 / cvc5 1.0 (portfolio)"}],
     "checks": [], "not_applicable": []}
for p in PROPS:
    if p in CHECKS:
        c = CHECKS[p]
        m["checks"].append({"property_id": p, "quick_cmd": "./check %s --tier quick" % p,
                            "thorough_cmd": "./check %s --tier thorough" % p,
                            "evidence_file": "evidence/%s.json" % p,
                            "replay_cmd_template": "./check %s --replay {path}" % p, "engine": "pyvc",
                            "level_claimed": {"category": c["cat"], "text": c["text"], "design_ref": "DESIGN.md " + c["design"]},
                            "level_note": c.get("note", BASE_NOTE) + DEPS_NOTE, "technique": c["tech"]})
    else:
        m["not_applicable"].append({"property_id": p, "reason": REASONS.get(p, "check not built yet (work in progress; see DESIGN.md section 3)")})
json.dump(m, open("MANIFEST.json", "w"), indent=1)
