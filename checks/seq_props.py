"""C05, C06 (iterators), C14 (search): obligations generated from the real bodies in the seq world."""
import ast
import json

from z3 import BoolVal

from contracts import iterators, search
from pyvc import driver, frontend, heapworld
from pyvc.core import Obligation

from . import common

TRUSTED = [
    "callback contract (assumed, user code): filter_/stop/attribute __eq__ are deterministic, total, side-effect free on links",
    "the tree is not mutated while an iterator is live (the view CH/PAR is immutable during the call)",
    "seq-world view axioms restate the proved contract of the children/parent getters (children = tuple of the current children)",
    "generators are executed eagerly (exact for generators that are only iterated; no send/throw)",
    "local lists are values: a list with two live names is never mutated in place (checked syntactically, rejected otherwise)",
    "z3/cvc5 sequence theory",
]
LEMMAS_ITER = [
    {"id": "zero-budget-PRE/POSTF", "statement": "with a bound and budget < 1 the restricted pre-/post-order of any forest prefix is empty",
     "status": "proved by induction in SMT (base + step obligations, part of this run)"},
    {"id": "L3/L4/L5", "statement": "the recursive spec functions PRE/POSTF/LEVEL/LEVELG/ZIG equal the property's reading: the "
     "unrestricted traversal order filtered by (admitted and filter_), admitted = relative depth < maxlevel and no stop node on "
     "the path from the start node; each subtree node exactly once; groups = levels; zig-zag reverses levels 1,3,5,..",
     "status": "L5 (pre-order and post-order: budgeted spec function = unrestricted order filtered by admitted and filter_) "
     "and L3/L4 (pre/post/level orders are permutations of each other; groups flatten to the level order; zig-zag reverses odd "
     "levels) are proved in Lean over rose trees: " + driver.lean_status("L5_restricted_traversals.lean") + "; " +
     driver.lean_status("L34_orders.lean") + ". The correspondence between the Lean definitions and the SMT spec functions "
     "(same equations, written twice) is by review plus the bounded validation of the spec functions against the admitted-set "
     "reading (harness/specfns.py). Level order: LEVELG = one group per level that has an admitted node, each the admitted and "
     "filtered nodes of that level in order, LEVEL = its concatenation, a permutation of the restricted pre-order - " +
     driver.lean_status("L5_level_order.lean") + "."},
]


def add_fn(res, fi, n):
    res.functions.append({"function": fi.ident, "sha256_16": fi.sha, "dropped_decorators": fi.decorators, "obligations": n})


def collect_specs(res, specs, variant_note=True):
    for spec in specs:
        fi, obl, fails = heapworld.verify_spec(spec)
        if fi is not None:
            add_fn(res, fi, len(obl))
            v = getattr(spec, "variant", None)
            if v:
                for o in obl:
                    o.name = o.name.replace(fi.ident, fi.ident + "<" + v + ">", 1)
        res.struct += fails
        res.obligations += obl


def iter_protocol_obligation(res):
    """AbstractIter.__iter__ returns the iterator object itself (so that the one lazily created generator behind __next__ is the
    only source of nodes: a second consumption of the same object continues, it never starts over)"""
    import ast
    from z3 import BoolVal
    from pyvc import frontend
    rel = "anytree/iterators/abstractiter.py"
    try:
        fi = frontend.get_function(rel, "AbstractIter", "__iter__")
        ok = len(fi.body) == 1 and isinstance(fi.body[0], ast.Return) and isinstance(fi.body[0].value, ast.Name) and fi.body[0].value.id == "self"
        note = ast.unparse(fi.body[0]) if fi.body else ""
        add_fn(res, fi, 1)
    except frontend.StructError as e:
        ok, note = False, str(e)
    o = Obligation(rel + ":AbstractIter.__iter__/returns-self", "ASTEQ", [], BoolVal(bool(ok)), {"C05", "C06", "C14", "C04"}, note)
    o.result, o.backend, o.time, o.all_results, o.text = ("unsat" if ok else "sat"), "ast-compare", 0.0, [], ""
    res.obligations.append(o)


def collect_iter(res):
    reg, specs = iterators.build()
    collect_specs(res, specs)
    iter_protocol_obligation(res)
    for name, hyps, goal in iterators.lemma_obligations():
        res.obligations.append(Obligation("spec-functions/" + name, "LEMMA", hyps, goal, {"C05", "C06", "C14", "C04"}))
    return reg


def bridge(res, tier):
    n = 5 if tier == "thorough" else 4
    out = driver.harness_json("specfns.py", "search", {"nodes": n}, timeout=3000)
    res.bounded.append({"what": "bridge lemmas L3/L4/L5 (spec functions = the property's reading), validated boundedly, "
                        "code-independent; never counted as proved", "bound": "all ordered trees <= %d nodes x every start node x "
                        "all stop subsets x all filtered-out subsets x maxlevel in None,-1..height+2 x 5 iterators" % n,
                        "evaluations": out.get("evaluations", 0), "distinct_nontrivial": out.get("nontrivial", 0),
                        "rule": "one instance = (tree, start, stop set, filter set, maxlevel, iterator)", "found": out.get("found")})
    if out.get("found") or out.get("error"):
        res.faults.append("bridge-lemma validation failed: the spec functions do not mean what the property says: %s"
                          % json.dumps(out)[:500])


def run_iter(pid, tier, seed):
    return common.standard(pid, tier, seed, collect_iter, TRUSTED, "queries.py",
                           {"property": pid, "nodes": 4 if pid == "C06" else 5},
                           {"property": pid, "nodes": 5 if pid == "C06" else 7},
                           "all ordered tree shapes up to N nodes, every start node" +
                           (", every stop subset, filtered-out subset, maxlevel -1..height+2" if pid == "C06" else ""),
                           lemmas=LEMMAS_ITER, extra_quick=lambda res: bridge(res, tier), quick_search=True)


# ------------------------------------------------------------------ C14
CACHE_TEMPLATE = """
def _cache(size):
    def decorator(func):
        @wraps(func)
        def wrapped(*args, **kwargs):
            return func(*args, **kwargs)
        return wrapped
    return decorator
"""


def cache_decorator_obligation(res):
    """cachedsearch._cache (fallback branch, the one present without `fastcache`): identity decorator - compared
    syntactically with the template above; every public function must be decorated with exactly _cache(CACHE_SIZE)"""
    def mk(name, ok, note):
        o = Obligation("anytree/cachedsearch.py:%s" % name, "ASTEQ", [], BoolVal(bool(ok)), {"C14"}, note)
        o.result, o.backend, o.time, o.all_results, o.text = ("unsat" if ok else "sat"), "ast-compare", 0.0, [], ""
        res.obligations.append(o)
    try:
        tree = frontend.parse("anytree/cachedsearch.py")
    except frontend.StructError as e:
        res.struct.append(heapworld.StructFailure("anytree/cachedsearch.py", str(e)))
        return
    tries = [n for n in tree.body if isinstance(n, ast.Try)]
    ok = False
    if len(tries) == 1 and len(tries[0].handlers) == 1 and ast.unparse(tries[0].handlers[0].type) == "ImportError":
        fns = [n for n in tries[0].handlers[0].body if isinstance(n, ast.FunctionDef) and n.name == "_cache"]
        want = ast.parse(CACHE_TEMPLATE).body[0]
        ok = len(fns) == 1 and ast.dump(fns[0]) == ast.dump(want)
        imports = [ast.unparse(n) for n in tries[0].body]
        mk("_cache/optional-import", imports == ["from fastcache import clru_cache as _cache"], "the cached branch is fastcache.clru_cache")
    mk("_cache/fallback-is-identity-decorator", ok, "wrapped(*args, **kwargs) returns func(*args, **kwargs)")
    for n in tree.body:
        if isinstance(n, ast.FunctionDef) and not n.name.startswith("_"):
            decs = [ast.unparse(d) for d in n.decorator_list]
            mk("%s/decorated-with-_cache-only" % n.name, decs == ["_cache(CACHE_SIZE)"], str(decs))


def collect_search(res):
    reg = collect_iter(res)
    # only what C14 depends on from the iterators: PreOrderIter chain
    keep = ("preorderiter.py", "abstractiter.py", "spec-functions/")
    res.obligations = [o for o in res.obligations if any(k in o.name for k in keep)]
    res.functions = [f for f in res.functions if any(k in f["function"] for k in keep)]
    collect_specs(res, search.build(reg))
    cache_decorator_obligation(res)


def run_search(pid, tier, seed):
    return common.standard(pid, tier, seed, collect_search, TRUSTED + [
        "the optional `fastcache` branch of cachedsearch is not installed here and is unverified (with it, arguments would be hashed)",
        "CountError.__init__ appends repr(result) to the message; only the message template and its two numbers are verified",
        "getattr(node, name) either yields the attribute value or raises AttributeError (a property raising AttributeError counts as lacking)"],
        "queries.py", {"property": "C14", "nodes": 4}, {"property": "C14", "nodes": 5},
        "all ordered tree shapes up to N nodes, every start node, every kept subset, 3 stop sets, maxlevel, all count bounds, both modules",
        lemmas=LEMMAS_ITER, select=False, extra_quick=lambda res: bridge(res, tier), quick_search=True)


def run(pid, tier, seed):
    if pid == "C14":
        return run_search(pid, tier, seed)
    return run_iter(pid, tier, seed)


def replay(pid, path):
    return common.replay(pid, path, "queries.py")
