"""C18: LightNodeMixin behaves identically to NodeMixin.

Primary obligations ASTEQ: for every member of the two classes the extracted ASTs are identical after mapping the
mangling prefix and the class name.  The documented differences are discharged separately: the two isinstance
guards of NodeMixin are proved to be skips for tree-node arguments (SMT obligation generated from the real guard
expression); `__slots__` changes storage only (assumed: slot and dict storage agree on get/set/has); `anchestors`
exists only in NodeMixin.  In addition both families are verified against the same sidecar contracts
(C01/C02/C16 obligations of both families must all be discharged)."""
import ast
import json

from z3 import And, BoolVal, Const, Not, Or

from contracts import mixins
from pyvc import driver, frontend, heapworld, known
from pyvc.core import Obligation, Path, V
from pyvc.heap import NONE, R, State, isn

from . import heap_props

A = ("anytree/node/nodemixin.py", "NodeMixin")
B = ("anytree/node/lightnodemixin.py", "LightNodeMixin")
ONLY_IN_NODEMIXIN = {("anchestors", "getter")}     # deprecated alias, not among the compared observations


class Ren(ast.NodeTransformer):
    def visit_Name(self, n):
        if n.id == "LightNodeMixin":
            n.id = "NodeMixin"
        return n

    def visit_Constant(self, n):
        if isinstance(n.value, str):
            n.value = n.value.replace("_LightNodeMixin", "_NodeMixin").replace("LightNodeMixin", "NodeMixin")
        return n


def norm(fi, rename):
    fn = ast.parse(ast.unparse(fi.node)).body[0]
    fn.body = frontend.strip_doc(fn.body) or [ast.Pass()]
    fn.decorator_list = []
    if rename:
        fn = Ren().visit(fn)
    return ast.dump(fn, include_attributes=False)


GUARDS = {
    # member -> (index of the leading statement that exists only in NodeMixin, description)
    ("parent", "setter"): "if value is not None and not isinstance(value, (NodeMixin, LightNodeMixin)): raise TreeError",
    ("_NodeMixin__check_children", "static"): "if not isinstance(child, (NodeMixin, LightNodeMixin)): raise TreeError",
}


def strip_guard(fi, key):
    """returns (function AST without the type guard, the guard's test expression) or None if the shape is unexpected"""
    fn = ast.parse(ast.unparse(fi.node)).body[0]
    fn.body = frontend.strip_doc(fn.body)
    fn.decorator_list = []

    def is_guard(st):
        return (isinstance(st, ast.If) and not st.orelse and "isinstance" in ast.unparse(st.test)
                and isinstance(st.body[-1], ast.Raise) and "TreeError" in ast.unparse(st.body[-1]))
    # the guard may stand anywhere among the statements of the function body (parent setter) / of the one loop's body
    # (__check_children): a statement that is a skip can be dropped wherever it stands
    if key[0] == "parent":
        stmts = fn.body
    else:
        loop = [s for s in fn.body if isinstance(s, ast.For)]
        if len(loop) != 1:
            return None
        stmts = loop[0].body
    idx = [i for i, st in enumerate(stmts) if is_guard(st)]
    if len(idx) != 1:
        return None
    g = stmts.pop(idx[0])
    return fn, g.test


def asteq(res):
    """ASTEQ obligations (member by member, modulo mangling and the documented type guards) plus the SMT obligations
    'the type guard is a skip for tree-node arguments'; undischarged obligations have result None"""
    try:
        ma, mb = frontend.members(*A), frontend.members(*B)
    except frontend.StructError as e:
        res.struct.append(heapworld.StructFailure("C18", str(e)))
        ma = mb = {}
    obls = []

    def add(name, ok, note=""):
        o = Obligation("C18/ASTEQ:%s" % name, "ASTEQ", [], BoolVal(bool(ok)), {"C18"}, note)
        o.result, o.backend, o.time, o.all_results, o.text = ("unsat" if ok else "sat"), "ast-compare", 0.0, [], ""
        obls.append(o)
        return o
    keys_b = {(k[0].replace("_LightNodeMixin", "_NodeMixin"), k[1]): k for k in mb}
    guards = []
    for ka, fa in sorted(ma.items()):
        if ka in ONLY_IN_NODEMIXIN:
            continue
        if ka not in keys_b:
            add("%s[%s]" % ka, False, "member exists only in NodeMixin")
            continue
        fb = mb[keys_b[ka]]
        res.functions.append({"function": fa.ident + " == " + fb.ident, "sha256_16": fa.sha + "/" + fb.sha})
        if ka in GUARDS:
            sg = strip_guard(fa, ka)
            if sg is None:
                add("%s[%s]" % ka, False, "the documented type guard has an unexpected shape")
                continue
            fn, test = sg
            fbn = ast.parse(ast.unparse(fb.node)).body[0]
            fbn.body = frontend.strip_doc(fbn.body) or [ast.Pass()]
            fbn.decorator_list = []
            fbn = Ren().visit(fbn)
            same = ast.dump(fn, include_attributes=False) == ast.dump(fbn, include_attributes=False)
            add("%s[%s]/modulo-type-guard" % ka, same, GUARDS[ka])
            guards.append((ka, fa, test))
        else:
            add("%s[%s]" % ka, norm(fa, False) == norm(fb, True))
    for kb in keys_b:
        if kb not in ma:
            add("%s[%s]" % kb, False, "member exists only in LightNodeMixin")
    # class-level assignments: separator must agree; __slots__ is the documented storage difference
    for nm in ("separator",):
        va, vb = frontend.class_assign(A[0], A[1], nm), frontend.class_assign(B[0], B[1], nm)
        add("class-attribute:" + nm, va is not None and vb is not None and ast.dump(va) == ast.dump(vb))
    # the guards are skips for tree-node arguments: SMT obligation from the real guard expression
    fam = mixins.families()[0]
    for ka, fa, test in guards:
        spec = fam.specs.get(ka)
        ex = heapworld.HeapExec(spec, fa)
        S0 = State("0")
        v = Const("arg", R)
        # the guard tests one variable (whatever it is called in the current source)
        names = {n.id for n in ast.walk(test) if isinstance(n, ast.Name)} - {"isinstance", "NodeMixin", "LightNodeMixin", "self"}
        env = {nm: V("ref", v) for nm in names}
        env["self"] = V("ref", Const("arg_self", R))
        if len(names) != 1:
            add("%s[%s]/guard-evaluable" % ka, False, "the guard tests %s" % sorted(names))
            continue
        p = Path(env, S0, [Or(v == NONE, isn(v)) if ka[0] == "parent" else isn(v)], [])
        try:
            for q, c in ex.ev_truth(test, p):
                o = Obligation("C18/%s/GUARD-IS-SKIP/%s" % (fa.ident, ">".join(q.trace)), "POST", q.pc, Not(c), {"C18"},
                               "NodeMixin's isinstance guard never fires for tree-node arguments")
                obls.append(o)
        except Exception as e:      # shape outside the subset
            add("%s[%s]/guard-evaluable" % ka, False, str(e))
    return obls


def run(pid, tier, seed):
    res = driver.Result(pid, tier, seed)
    res.trusted = list(heap_props.TRUSTED) + [
        "slot storage (LightNodeMixin.__slots__) and instance-dict storage agree on getattr/setattr/hasattr for the two "
        "bookkeeping names (CPython attribute protocol)",
        "syntactically equal bodies under equal attribute semantics are observationally equal (all histories, all queries)"]
    obls = asteq(res)
    from . import deps
    dep = driver.Result(pid, tier, seed)
    deps.add(dep, pid)
    obls += dep.obligations
    res.struct += dep.struct
    res.functions += dep.functions
    res.notes += dep.notes
    todo = [o for o in obls if o.result is None]
    driver.discharge_cached(todo, tier, seed)
    # semantic layer: the same contracts hold for both families
    sem = driver.Result(pid, tier, seed)
    heap_props.collect(sem)
    sem.obligations = [o for o in sem.obligations if o.kind not in ("CANARY", "PROBE")]
    driver.discharge_cached(sem.obligations, tier, seed)
    res.obligations = obls + sem.obligations
    res.struct += sem.struct
    res.notes.append("ASTEQ obligations: %d; shared-contract obligations of both families: %d" % (len(obls), len(sem.obligations)))
    dis = [o for o in res.obligations if str(getattr(o, "second", "") or "").startswith("DISAGREE")]
    if dis:
        res.faults.append("back ends disagree on %s (%s)" % (dis[0].name, dis[0].second))
    bad = [o for o in res.obligations if o.result != "unsat"]
    if bad or res.struct:
        names = [o.name for o in bad] + ["STRUCT:" + s.ident for s in res.struct]
        out = driver.harness_json("mutators.py", "diffsearch", {"nodes": 3, "maxlen": 2, "max_cases": 300000}, timeout=1500)
        if not out.get("found"):
            out = driver.harness_json("mutators.py", "diffsearch", {"nodes": 3, "maxlen": 2, "max_cases": 300000, "eq": True}, timeout=1500)
        payload = {"property": pid, "failed_obligations": names[:40], "notes": [o.note for o in bad[:10]],
                   "solver_output": [{"obligation": o.name, "attempts": o.all_results} for o in bad[:10]]}
        if out.get("found"):
            payload.update({"case": out["case"], "observed": out["result"], "diff": True,
                            "how_found": "lock-step differential execution of both families on the real code"})
        path = driver.write_replay(res, names[0], payload)
        res.violations.append({"obligation": names[0], "replay": path, "input_found": bool(out.get("found"))})
    if tier == "thorough":
        out = driver.harness_json("mutators.py", "diffsearch", {"nodes": 3, "maxlen": 2}, timeout=3000)
        res.bounded.append({"what": "lock-step differential execution of a NodeMixin class and a slotted LightNodeMixin class "
                            "(bounded, not counted as proved)", "bound": "3 nodes, every call, every fault plan, then all "
                            "read-only queries", "evaluations": out.get("evaluations", 0),
                            "distinct_nontrivial": out.get("nontrivial", 0), "rule": "non-trivial = call changed the forest or raised"})
        if out.get("found"):
            path = driver.write_replay(res, "diff", {"property": pid, "case": out["case"], "observed": out["result"], "diff": True})
            res.violations.append({"obligation": "bounded-diff", "replay": path, "input_found": True})
    return res


def replay(pid, path):
    d = json.load(open(path))
    if "case" not in d:
        print("replay file names failed obligations only: %s" % d.get("failed_obligations", [])[:3])
        return 1
    out = driver.harness_json("mutators.py", "diffreplay", d["case"])
    print(json.dumps(out, indent=1)[:3000])
    return 1 if out.get("differs") else 0
