"""C19: pickle and deepcopy.  The round trip itself is executed by CPython's pickle/copy (C code outside /repo): what contracts
on the repository can state and prove are the repository-side conditions under which the ASSUMED dependency contract
('for default-reducible objects loads(dumps(x)) / deepcopy(x) return an isomorphic, fresh copy of the reachable object graph')
yields the property; the dependency contract is validated only boundedly.  Level: other."""
import ast
import json

from z3 import BoolVal

from contracts import symlink
from pyvc import driver, frontend, heapworld
from pyvc.core import Obligation

from . import common, seq_props

CLASSES = [("anytree/node/nodemixin.py", "NodeMixin"), ("anytree/node/lightnodemixin.py", "LightNodeMixin"),
           ("anytree/node/symlinknodemixin.py", "SymlinkNodeMixin"), ("anytree/node/node.py", "Node"),
           ("anytree/node/anynode.py", "AnyNode"), ("anytree/node/symlinknode.py", "SymlinkNode")]
REDUCERS = {"__reduce__", "__reduce_ex__", "__getstate__", "__setstate__", "__getnewargs__", "__getnewargs_ex__", "__copy__",
            "__deepcopy__", "__new__"}
BOOK = {"_NodeMixin__parent", "_NodeMixin__children", "_LightNodeMixin__parent", "_LightNodeMixin__children"}
WRITERS = {"parent[setter]", "__detach", "__attach", "__children_or_empty[getter]"}
TRUSTED = [
    "ASSUMED dependency contract (CPython pickle, all protocols; copy.deepcopy): for objects using the default reduction, the result is an "
    "isomorphic copy of the reachable object graph - same classes, same instance dictionaries / slots, sharing preserved, all objects "
    "fresh; validated only boundedly (harness/pickling.py)",
    "WF (C01) and 'position of n' are predicates of the object graph only, hence transfer along an isomorphism; symlink targets are "
    "ordinary attribute references, hence mapped to the copied node (meta-argument)",
    "recursion-limit failures on very deep trees and protocols < 2 for __slots__ classes are outside the claim",
]


def syn(res, name, ok, note=""):
    o = Obligation(name, "STRUCT-COND", [], BoolVal(bool(ok)), {"C19"}, note)
    o.result, o.backend, o.time, o.all_results, o.text = ("unsat" if ok else "sat"), "ast-scan", 0.0, [], ""
    res.obligations.append(o)


def run(pid, tier, seed):
    res = driver.Result(pid, tier, seed)
    res.trusted = list(TRUSTED)
    res.level = "other"
    # (a) no class customises pickling / copying
    for rel, cls in CLASSES:
        try:
            ms = {k[0] for k in frontend.members(rel, cls)}
            res.functions.append({"function": "%s:%s" % (rel, cls), "members": len(ms)})
            syn(res, "%s:%s/default-reduction (no %s)" % (rel, cls, "/".join(sorted(REDUCERS & ms)) or "custom reducer"),
                not (REDUCERS & ms), "defines %s" % sorted(REDUCERS & ms))
        except frontend.StructError as e:
            res.struct.append(heapworld.StructFailure(rel, str(e)))
    # (b) the link state lives in the two bookkeeping attributes only: they are written by the known mutators only, and the node
    #     package keeps no module-level registry
    import os
    writers = []
    for root, _, files in os.walk(os.path.join(frontend.REPO, "anytree")):
        for f in files:
            if not f.endswith(".py"):
                continue
            rel = os.path.relpath(os.path.join(root, f), frontend.REPO)
            tree = frontend.parse(rel)
            for cls in [n for n in tree.body if isinstance(n, ast.ClassDef)]:
                for fn in [m for m in cls.body if isinstance(m, ast.FunctionDef)]:
                    role, _ = frontend._role(fn)
                    q = fn.name + ("[%s]" % role if role in ("getter", "setter", "deleter") else "")
                    for n in ast.walk(fn):
                        tgt = None
                        if isinstance(n, ast.Attribute) and isinstance(n.ctx, (ast.Store, ast.Del)):
                            tgt = frontend.mangle(cls.name, n.attr)
                        if isinstance(n, ast.Call) and isinstance(n.func, ast.Name) and n.func.id in ("setattr", "delattr") and len(n.args) >= 2 \
                                and isinstance(n.args[1], ast.Constant):
                            tgt = n.args[1].value
                        if tgt in BOOK:
                            writers.append("%s:%s.%s" % (rel, cls.name, q))
            if "/node/" in rel.replace(os.sep, "/"):
                for n in tree.body:
                    if isinstance(n, ast.Assign) and len(n.targets) == 1 and isinstance(n.targets[0], ast.Name) and n.targets[0].id == "__all__":
                        continue        # the export list is not state
                    if isinstance(n, ast.Assign) and not all(isinstance(n.value, ast.Constant) for _ in [0]) \
                            and not (isinstance(n.value, (ast.Constant, ast.Tuple)) or ast.unparse(n.value).startswith("bool(")):
                        syn(res, "%s/no-module-level-state:%s" % (rel, ast.unparse(n.targets[0])), False, ast.unparse(n)[:80])
    # no id()-keyed state: id() of a node is meaningless in a copy, so it may only be used transiently (the duplicate check)
    idsites = []
    for rel, cls in CLASSES:
        try:
            for (nm, role), fi in frontend.members(rel, cls).items():
                if any(isinstance(n, ast.Call) and isinstance(n.func, ast.Name) and n.func.id == "id" for st in fi.body for n in ast.walk(st)):
                    # transient use: a static helper (no instance at hand) that stores into no attribute, subscript or global -
                    # the ids can only reach its own locals and the local set its caller hands in
                    stores = [n for st in fi.body for n in ast.walk(st)
                              if (isinstance(n, (ast.Attribute, ast.Subscript)) and isinstance(n.ctx, (ast.Store, ast.Del)))
                              or isinstance(n, (ast.Global, ast.Nonlocal))]
                    if role == "static" and not stores:
                        continue
                    idsites.append("%s.%s" % (cls, fi.name))
        except frontend.StructError:
            pass
    syn(res, "anytree/node/**:id()-is-used-only-by-the-transient-duplicate-check", not idsites,
        "id() used in %s" % sorted(set(idsites)))
    bad_writers = [w for w in writers if w.split(".")[-1] not in WRITERS or "mixin.py" not in w]
    syn(res, "anytree/**:bookkeeping-attributes-written-only-by-the-mixins' mutators", not bad_writers,
        "writers: %s" % sorted(set(writers)))
    # (c) SymlinkNodeMixin.__getattr__ refuses '__setstate__' and the bookkeeping names without evaluating self.target
    reg, specs = symlink.build()
    sp = [s for s in specs if s.name == "__getattr__"]
    tmp = driver.Result(pid, tier, seed)
    seq_props.collect_specs(tmp, sp)
    driver.discharge_cached([o for o in tmp.obligations], tier, seed)
    res.obligations += [o for o in tmp.obligations]
    res.functions += tmp.functions
    res.struct += tmp.struct
    from . import deps
    dep = driver.Result(pid, tier, seed)
    deps.add(dep, pid)
    driver.discharge_cached([o for o in dep.obligations if o.result is None], tier, seed)
    res.obligations += dep.obligations
    res.struct += dep.struct
    res.functions += dep.functions
    res.notes += dep.notes
    res.extra["explanation"] = ("Repository-side conditions proved: (a) none of the six node classes customises reduction/copying (AST scan); "
                                "(b) the two bookkeeping attributes are written only by the mixins' mutators and the node package keeps no "
                                "module-level state (AST scan), so the tree is exactly the object graph reachable through them; (c) "
                                "SymlinkNodeMixin.__getattr__ raises AttributeError for '__setstate__' and the bookkeeping names before "
                                "touching self.target (obligations from the real body, z3). The isomorphism itself is CPython's: assumed, "
                                "validated boundedly.")
    spec = {"nodes": 4 if tier == "quick" else 5}
    out = driver.harness_json("pickling.py", "search", spec, timeout=3000)
    res.bounded.append({"what": "dependency contract of pickle/copy validated on the real code (bounded; never counted as proved)",
                        "bound": json.dumps(spec) + " - all ordered trees up to `nodes` nodes x 5 class mixes (Node, AnyNode, SymlinkNode, user "
                        "NodeMixin, user LightNodeMixin with slots) x every entry node x deepcopy and every pickle protocol",
                        "evaluations": out.get("evaluations", 0), "distinct_nontrivial": out.get("nontrivial", 0),
                        "rule": "one case = (tree, class mix, entry node, protocol/deepcopy)", "found": out.get("found")})
    bad = [o for o in res.obligations if o.kind not in ("CANARY", "PROBE") and o.result != "unsat"]
    if bad or res.struct or out.get("found"):
        payload = {"property": pid, "failed_obligations": [o.name for o in bad], "notes": [o.note for o in bad],
                   "struct_failures": [{"function": s.ident, "reason": s.msg} for s in res.struct], "harness": "pickling.py"}
        if out.get("found"):
            payload.update({"case": out["case"], "observed": out["result"], "how_found": "pickle/deepcopy round trips on the real code"})
        path = driver.write_replay(res, bad[0].name if bad else "roundtrip", payload)
        res.violations.append({"obligation": bad[0].name if bad else "roundtrip", "replay": path, "input_found": bool(out.get("found"))})
    elif out.get("error"):
        res.faults.append("harness failed: %s" % out["error"][-300:])
    return res


def replay(pid, path):
    return common.replay(pid, path, "pickling.py")
