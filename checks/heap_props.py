"""C01, C02, C03, C16: obligations generated from the real bodies of both node mixins' mutators and getters."""
import json
import os

from contracts import mixins
from pyvc import driver, heapworld, known

FUNCTIONS = {
    # property -> members whose contracts carry it (all of them share the supporting obligations)
    "C01": None, "C02": None, "C03": None, "C16": None,
}
MUTATORS = [("parent", "setter"), ("children", "setter"), ("children", "deleter")]

TRUSTED = [
    "hook contract (assumed, user code): the eight _pre_*/_post_* hooks return or raise an Exception and do not change "
    "any parent/children link",
    "lemma L1 (filter_ne on a duplicate-free list holding x at position k = remove_at k): proved in Lean "
    "(lemmas/L1_filter_ne.lean); its premises are obligations at each use",
    "tuple()/list comprehension/append/any() built-ins as axiomatised in pyvc/heapworld.py",
    "existence of the ghost forest functions (ancestor relation, depth, child index) for the entry state: they are "
    "definable in every finite forest; their preservation by every mutation is proved (ghost updates)",
]


def collect(res, fams=None, want=None):
    fams = fams or mixins.families()
    for fam in fams:
        for key, spec in fam.specs.items():
            if want and key not in want:
                continue
            fi, obl, fails = heapworld.verify_spec(spec)
            if fi is not None:
                res.functions.append({"function": fi.ident, "sha256_16": fi.sha, "dropped_decorators": fi.decorators,
                                      "obligations": len(obl)})
            res.struct += fails
            res.obligations += obl
    return fams


def find_input(res, pid, failing):
    """concrete failing input for a not-accepted obligation: bounded search on the real code with the reference
    model of the property (3 nodes, every call, every fault position), known findings subtracted"""
    fams = sorted({("LightNodeMixin" if "lightnodemixin" in n else "NodeMixin") for n in failing})
    fams = fams + [f + "/eq" for f in fams]       # also an adversarial node class whose instances all compare equal
    kn = [e["id"] for e in known.entries() if e["status"] == "known"]
    for props in ([pid], ["C01", "C02", "C03", "C16"]):
        out = driver.harness_json("mutators.py", "search", {"properties": props, "nodes": 3, "maxlen": 2, "known": kn,
                                                            "families": fams, "max_cases": 400000}, timeout=1500)
        if out.get("found"):
            return out, props
    return None, None


def run(pid, tier, seed):
    res = driver.Result(pid, tier, seed)
    res.trusted = list(TRUSTED)
    res.lemmas = [{"id": "L1", "statement": "filter_ne on a duplicate-free list holding x at position k = remove_at k",
                   "status": driver.lean_status("L1_filter_ne.lean")}]
    collect(res)
    if pid == "C02":
        # the constructors delegate to the (verified) setters: effect-log contracts of Node.__init__ / AnyNode.__init__
        from contracts import symlink
        from . import seq_props
        seq_props.collect_specs(res, symlink.build_ctors())
    if pid == "C01":
        # "no node is ever its own ancestor" rests on the refusal conditions as well (LoopError/TreeError exactly when ...): the
        # obligations carrying C02 belong to C01's check too
        res.obligations = [o for o in res.obligations if set(o.props) & {"C01", "C02"} or o.kind in driver.SUPPORT_KINDS]
    else:
        res.obligations = driver.select(res.obligations, pid)
    from . import deps
    deps.add(res, pid)
    if not res.obligations and not res.struct:
        res.faults.append("no obligations generated")
        return res
    driver.discharge_cached(res.obligations, tier, seed)
    per, dead = driver.canary_verdict(res.obligations)
    # an outcome all of whose paths are refutable: tolerated only when the contract declares it conditional
    # (e.g. TreeError of the recursive restore); reported in the evidence
    res.notes.append("outcomes with only refutable paths (dead under the contract): %s" % sorted("%s:%s" % k for k in dead))
    bad = [o for o in res.obligations if o.kind not in ("CANARY", "PROBE") and o.result != "unsat"]
    dis = [o for o in res.obligations if str(getattr(o, "second", "") or "").startswith("DISAGREE")]
    if dis:
        res.faults.append("back ends disagree on %s (%s)" % (dis[0].name, dis[0].second))
    if bad or res.struct:
        names = [o.name for o in bad] + ["STRUCT:" + s.ident for s in res.struct]
        found, props = find_input(res, pid, names)
        payload = {"property": pid, "failed_obligations": names[:40],
                   "struct_failures": [{"function": s.ident, "reason": s.msg} for s in res.struct],
                   "solver_output": [{"obligation": o.name, "attempts": o.all_results} for o in bad[:10]],
                   "solver_counterexample": driver.solver_counterexample(bad),
                   "replay_cmd": "./check %s --replay <this file>" % pid}
        if found:
            payload["case"] = found["case"]
            payload["observed"] = found["result"]
            payload["searched_properties"] = props
            payload["how_found"] = ("bounded search on the real code (3 nodes, all calls, all fault positions) after the "
                                    "obligation failed; evaluations: %d" % found["evaluations"])
        path = driver.write_replay(res, names[0], payload)
        res.violations.append({"obligation": names[0], "replay": path, "input_found": bool(found)})
    # known findings of this property: replay the stored witness on the real code
    for e in known.for_property(pid):
        if e["status"] != "known":
            continue
        w = e["witness"]
        for fam in ("NodeMixin", "LightNodeMixin"):
            case = {"family": fam, "forest": w["forest"], "call": w["call"],
                    "fault": (w["raise_in"] + [0] if w.get("raise_in") and w["raise_in"][1] != "*" else
                              (w["raise_in"] + ["always"] if w.get("raise_in") else None))}
            out = driver.harness_json("mutators.py", "replay", case)
            still = out.get("valid") and pid in out.get("violations", {})
            if still:
                if fam == "NodeMixin":
                    res.known_lines.append("%s: %s" % (e["id"], e["text"]))
            else:
                res.notes.append("known finding %s no longer reproduces for %s: %s" % (e["id"], fam, json.dumps(out)[:300]))
    if pid in ("C01", "C16"):
        # benign re-entrant hooks: outside the contracts (hook frame assumption), pinned by a handful of concrete scenarios
        out = driver.harness_json("reentrant.py", "search", {}, timeout=600)
        res.bounded.append({"what": "BOUNDED scenarios (never counted as proved): a notification hook that itself performs a valid "
                            "structural operation on other nodes (evicts / adds a sibling in _pre_attach, _pre_detach, _post_detach, "
                            "_pre_attach_children, _pre_detach_children): the two views stay consistent, _post_attach sees the node as "
                            "the last child, the final children lists are the expected ones",
                            "bound": "6 scenarios x 2 mixin families on a fixed 6-node forest", "evaluations": out.get("evaluations", 0),
                            "distinct_nontrivial": out.get("nontrivial", 0), "rule": "one case = (family, scenario)",
                            "found": out.get("found")})
        if out.get("found"):
            path = driver.write_replay(res, "bounded:reentrant:" + json.dumps(out["case"], sort_keys=True),
                                       {"property": pid, "case": out["case"], "observed": out["result"], "harness": "reentrant.py",
                                        "how_found": "re-entrant hook scenario"})
            res.violations.append({"obligation": "bounded:reentrant", "replay": path, "input_found": True})
        elif out.get("error"):
            res.faults.append("re-entrant scenarios failed to run: %s" % out["error"][-300:])
    if tier == "thorough":
        kn = [e["id"] for e in known.entries() if e["status"] == "known"]
        out = driver.harness_json("mutators.py", "search", {"properties": [pid], "nodes": 3, "maxlen": 2, "known": kn,
                                                            "families": ["NodeMixin", "LightNodeMixin"]}, timeout=3000)
        res.bounded.append({"what": "contract cross-check / COVER: exhaustive small-scope execution of the real code "
                            "against the reference model of the property (bounded, not counted as proved)",
                            "bound": "all ordered forests over 3 labelled nodes x every call (children sequences up to "
                            "length 2, incl. non-node, non-iterable) x every fault plan (each hook, each node, "
                            "occurrence 0/1/always)", "evaluations": out.get("evaluations", 0),
                            "distinct_nontrivial": out.get("nontrivial", 0),
                            "rule": "non-trivial = the call changed the forest or raised",
                            "found": out.get("found")})
        if out.get("found"):
            path = driver.write_replay(res, "bounded:" + json.dumps(out["case"], sort_keys=True),
                                       {"property": pid, "case": out["case"], "observed": out["result"],
                                        "how_found": "bounded stand-in (thorough tier)"})
            res.violations.append({"obligation": "bounded", "replay": path, "input_found": True})
    return res


def replay(pid, path):
    d = json.load(open(path))
    if "case" not in d:
        print("replay file names failed obligations only (no concrete input): %s" % d.get("failed_obligations", [])[:3])
        return 1
    if d.get("harness") == "reentrant.py":
        out = driver.harness_json("reentrant.py", "replay", d["case"])
        print(json.dumps(out, indent=1)[:3000])
        return 1 if out.get("violation") else 0
    out = driver.harness_json("mutators.py", "replay", d["case"])
    print(json.dumps(out, indent=1)[:3000])
    return 1 if out.get("violations") else 0
