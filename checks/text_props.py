"""C12 (DOT export) and C13 (Mermaid export): text world obligations + syntactic obligations for the glue code."""
import ast
import json

from z3 import BoolVal

from contracts import exporters
from pyvc import driver, frontend, heapworld, known
from pyvc.core import Obligation

from . import common, seq_props

DOT, MER = "anytree/exporter/dotexporter.py", "anytree/exporter/mermaidexporter.py"
TRUSTED = seq_props.TRUSTED + [
    "callbacks nodenamefunc/nodeattrfunc/edgeattrfunc/edgetypefunc/nodefunc/edgefunc are deterministic total functions of their "
    "arguments; the stateful default identifier function is one by its proved stability contract",
    "'%s' % x is str(x); %-formatting with a constant template is a concatenation (mechanical translation); ' ' * n is SPACES(n)",
    "esc(): assumed contract relative to re.sub with the character class [\"\\\\] (ESC = character-wise backslash escaping); the body "
    "and the compiled pattern are pinned syntactically, ESC is injective/invertible by Lean lemma L7, re.sub is validated boundedly",
    "hex() and '%d' are injective on natural numbers (distinct numbers give distinct identifiers)",
]
ESC_BODY = 'return _RE_ESC.sub(lambda m: r"\\%s" % m.group(0), six.text_type(value))'
RE_ESC = "re.compile(r'[\"\\\\]')"
TO_FILE = '''
with codecs.open(filename, "w", "utf-8") as file:
    file.write("```mermaid\\n")
    for line in self:
        file.write("%s\\n" % line)
    file.write("```")
'''
LEGACY_INIT = '''
warnings.warn("anytree.RenderTreeGraph has moved. Use anytree.exporter.DotExporter instead", DeprecationWarning)
super(RenderTreeGraph, self).__init__(*args, **kwargs)
'''


def dump(stmts):
    return [ast.dump(s) for s in stmts]


def syn(res, pid, name, ok, note=""):
    o = Obligation(name, "ASTEQ", [], BoolVal(bool(ok)), {pid}, note)
    o.result, o.backend, o.time, o.all_results, o.text = ("unsat" if ok else "sat"), "ast-compare", 0.0, [], ""
    res.obligations.append(o)


def fn(res, rel, cls, name, role="method"):
    try:
        fi = frontend.get_function(rel, cls, name, role)
        res.functions.append({"function": fi.ident, "sha256_16": fi.sha, "dropped_decorators": fi.decorators, "obligations": 1})
        return fi
    except frontend.StructError as e:
        res.struct.append(heapworld.StructFailure("%s:%s.%s" % (rel, cls, name), str(e)))
        return None


def init_stores_params(fi, extra=()):
    """__init__ stores every parameter into the attribute of the same name, once, and nothing else (besides `extra`)"""
    params = fi.params()[1:]
    want = sorted("self.%s = %s" % (p, p) for p in params) + sorted(extra)
    got = sorted(ast.unparse(s) for s in fi.body if not (isinstance(s, ast.Expr) and "super" in ast.unparse(s)))
    return got == sorted(want), "%s vs %s" % (got, sorted(want))


def syntactic(res, pid):
    if pid == "C12":
        rel, cls = DOT, "DotExporter"
    else:
        rel, cls = MER, "MermaidExporter"
    f = fn(res, rel, cls, "esc", "static")
    if f:
        syn(res, pid, rel + ":%s.esc/body" % cls, dump(f.body) == dump(ast.parse(ESC_BODY).body), "esc is re.sub over [\"\\\\] with a backslash prefix")
    try:
        v = frontend.module_assign(rel, "_RE_ESC")
        syn(res, pid, rel + ":_RE_ESC", ast.dump(v) == ast.dump(ast.parse(RE_ESC, mode="eval").body), "pattern is the class of double quote and backslash")
    except frontend.StructError as e:
        res.struct.append(heapworld.StructFailure(rel + ":_RE_ESC", str(e)))
    f = fn(res, rel, cls, "__init__")
    if f:
        extra = () if pid == "C12" else ("self.__node_ids = {}", "self.__node_counter = itertools.count()")
        ok, note = init_stores_params(f, extra)
        syn(res, pid, rel + ":%s.__init__/stores-every-option" % cls, ok, note)
    if pid == "C12":
        f = fn(res, rel, "UniqueDotExporter", "__init__")
        if f:
            params = f.params()[1:]
            sup = [s for s in f.body if isinstance(s, ast.Expr) and "super" in ast.unparse(s)]
            ok = False
            if len(sup) == 1 and isinstance(sup[0].value, ast.Call):
                c = sup[0].value
                pos = [ast.unparse(a) for a in c.args]
                kws = {k.arg: ast.unparse(k.value) for k in c.keywords}
                ok = (ast.unparse(c.func) == "super(UniqueDotExporter, self).__init__" and pos == params[:len(pos)]
                      and all(kws.get(p) == p for p in params[len(pos):]) and len(kws) == len(params) - len(pos))
            rest = sorted(ast.unparse(s) for s in f.body if s not in sup)
            syn(res, pid, rel + ":UniqueDotExporter.__init__/forwards-every-option", ok and rest == sorted(
                ["self.__node_ids = {}", "self.__node_counter = itertools.count()"]), str(rest))
        f = fn(res, rel, "UniqueDotExporter", "_default_nodeattrfunc", "static")
        if f:
            syn(res, pid, rel + ":UniqueDotExporter._default_nodeattrfunc", dump(f.body) == dump(ast.parse("return 'label=\"%s\"' % (node.name,)").body))
        try:
            bases = frontend.class_bases(DOT, "UniqueDotExporter")
            syn(res, pid, rel + ":UniqueDotExporter/bases", bases == ["DotExporter"], str(bases))
            members = sorted(k[0] for k in frontend.members(DOT, "UniqueDotExporter"))
            syn(res, pid, rel + ":UniqueDotExporter/overrides-only-the-id-and-label-defaults",
                members == ["__init__", "_default_nodeattrfunc", "_default_nodenamefunc"], str(members))
        except frontend.StructError as e:
            res.struct.append(heapworld.StructFailure(DOT + ":UniqueDotExporter", str(e)))
        LEG = "anytree/dotexport.py"
        f = fn(res, LEG, "RenderTreeGraph", "__init__")
        if f:
            syn(res, pid, LEG + ":RenderTreeGraph.__init__/warns-and-delegates", dump(f.body) == dump(ast.parse(LEGACY_INIT).body)
                and ast.unparse(f.node.args) == "self, *args, **kwargs")
            try:
                syn(res, pid, LEG + ":RenderTreeGraph/adds-nothing-else", frontend.class_bases(LEG, "RenderTreeGraph") == ["DotExporter"]
                    and sorted(k[0] for k in frontend.members(LEG, "RenderTreeGraph")) == ["__init__"])
            except frontend.StructError as e:
                res.struct.append(heapworld.StructFailure(LEG, str(e)))
    else:
        f = fn(res, rel, cls, "to_file")
        if f:
            syn(res, pid, rel + ":MermaidExporter.to_file/fenced-listing", dump(f.body) == dump(ast.parse(TO_FILE).body),
                "writes the fence, every line of iter(self) followed by a newline, and the closing fence")


def collect(pid):
    def c(res):
        kind = "Dot" if pid == "C12" else "Mermaid"
        M, reg, specs = exporters.build(kind)
        seq_props.collect_specs(res, specs + exporters.build_ids(kind))
        # the iterator contract the listings rest on
        tmp = driver.Result(pid, res.tier, res.seed)
        seq_props.collect_iter(tmp)
        keep = ("preorderiter.py", "abstractiter.py", "spec-functions/")
        res.obligations += [o for o in tmp.obligations if any(k in o.name for k in keep)]
        res.functions += [f for f in tmp.functions if any(k in f["function"] for k in keep)]
        res.struct += tmp.struct
        syntactic(res, pid)
        for o in res.obligations:
            o.props = set(o.props) | {pid}
    return c


LEMMAS = seq_props.LEMMAS_ITER + [
    {"id": "L7", "statement": "unesc(esc s) = s, esc injective, no unescaped quote in esc s", "status": driver.lean_status("L7_esc_injective.lean")},
    {"id": "edge-agreement", "statement": "edges listed for parents in PRE(start; filter_, stop, maxlevel-1) and children passing filter_ "
     "and not stop = the parent-child pairs both of whose ends are declared (no edge names an undeclared node, no admitted link is missing)",
     "status": "over rose trees, as a list equality (order and multiplicity included): " + driver.lean_status("L11_edge_agreement.lean") +
     "; correspondence of its definitions with the SMT spec functions by review, plus the harness on all trees <= 4 nodes x subsets x maxlevel"},
]


def run(pid, tier, seed):
    kn = [e["id"] for e in known.entries() if e["status"] == "known"]
    res = common.standard(pid, tier, seed, collect(pid), TRUSTED, "exporters.py", {"property": pid, "nodes": 3, "known": kn},
                          {"property": pid, "nodes": 4, "known": kn},
                          "all ordered tree shapes up to N nodes with awkward names (quotes, backslashes, spaces, non-ASCII, colliding), "
                          "2 start nodes, every stop subset, filtered-out subset, maxlevel 0..N, default and custom callbacks/options",
                          lemmas=LEMMAS, select=False, quick_search=True)
    for e in known.for_property(pid):
        if e["status"] != "known":
            continue
        case = {"property": "C12", "exporter": "Dot", "shape": [[[]]], "start": 0, "stop": [1], "filt": [], "maxlevel": None, "custom": False}
        out = driver.harness_json("exporters.py", "replay", {"case": case, "known": [e["id"]]})
        if out.get("violation") == e["id"]:
            res.known_lines.append("%s: %s" % (e["id"], e["text"]))
        else:
            res.notes.append("known finding %s no longer reproduces: %s" % (e["id"], json.dumps(out)[:200]))
    return res


def replay(pid, path):
    return common.replay(pid, path, "exporters.py")
