"""C09: RenderTree rows and prefixes, and the text layout of str()/by_attr()/_format_row_any, proved in the text world; the reprs by
the bounded stand-in."""
import ast
import json

from contracts import render
from pyvc import driver, frontend, heapworld
from pyvc.core import Obligation

from . import common, seq_props, text_props

REL = "anytree/render.py"
TRUSTED = seq_props.TRUSTED[:3] + [
    "childiter is a deterministic function from the tuple of children to a finite sequence of nodes",
    "' ' * n is SPACES(n); ''.join over a comprehension of two alternatives is JOINSEG (defining equation in contracts/render.py)",
    "the style object handed to __item is the renderer's own style (its three strings are the fixed symbols of the proof)",
    "text layout: str.splitlines, repr(node), str(value) and sep.join(lines) are uninterpreted functions (what the lines of a text ARE "
    "is CPython's business; the contract fixes which text is split, that an empty result is replaced by one empty line, which prefix "
    "goes before which line, and in which order everything is joined); a list/tuple value is the sequence of its elements, each "
    "printed through str(); the attribute selector of by_attr is either callable or an attribute name (getattr with default '')",
]
LEMMAS = [
    {"id": "shape-of-LP", "statement": "_is_last's specification function has length n and element i = (s[i], i is the last index)",
     "status": "proved by induction in SMT (base + step obligations, part of this run)"},
    {"id": "L8", "statement": "closed form of the statement (segment k of a row tells whether the node's ancestor at depth k has a following "
     "sibling; rows exist exactly for relative depth < max(maxlevel, 1); shape reconstructible from the text) from the recursive ROWS",
     "status": "for childiter = identity: " + driver.lean_status("L8_render_rows.lean") + " (L8a: row i belongs to the i-th visited position "
     "and has one flag per ancestor level; L8b: flag k says that the ancestor at depth k+1 is not the last child of the one at depth k; "
     "L8c: the rows' nodes are the pre-order of the tree pruned to relative depth < max(maxlevel, 1)). The Lean rows/krows are the "
     "equations of ROWS/KROWS in contracts/render.py written a second time (correspondence by review); a childiter that reorders is "
     "covered by reading `children` as childiter(children); the reconstruction of the shape from the *text* additionally needs the "
     "style strings to be distinguishable, which the bounded stand-in checks for the four built-in styles"},
]


def syntactic(res):
    """the four built-in styles pass three literals of equal length to AbstractStyle.__init__ (so ASSERTIONS never fires and all
    segments have the style's width)"""
    for cls in ("AsciiStyle", "ContStyle", "ContRoundStyle", "DoubleStyle"):
        f = text_props.fn(res, REL, cls, "__init__")
        if not f:
            continue
        ok = False
        if len(f.body) == 1 and isinstance(f.body[0], ast.Expr) and isinstance(f.body[0].value, ast.Call):
            c = f.body[0].value
            lits = [a.value for a in c.args if isinstance(a, ast.Constant) and isinstance(a.value, str)]
            ok = (ast.unparse(c.func) == "super(%s, self).__init__" % cls and len(lits) == 3 and len(c.args) == 3 and not c.keywords
                  and len({len(x) for x in lits}) == 1 and len(lits[0]) > 0)
        text_props.syn(res, "C09", REL + ":%s.__init__/three-literals-of-equal-width" % cls, ok)
    f = text_props.fn(res, REL, "AbstractStyle", "empty", "getter")
    if f:
        text_props.syn(res, "C09", REL + ":AbstractStyle.empty/blank-of-the-width-of-end",
                       text_props.dump(f.body) == text_props.dump(ast.parse('return " " * len(self.end)').body))
    f = text_props.fn(res, REL, "AbstractStyle", "__init__")
    if f:
        stores = sorted(ast.unparse(s) for s in f.body if isinstance(s, ast.Assign))
        text_props.syn(res, "C09", REL + ":AbstractStyle.__init__/stores-the-three-strings",
                       stores == ["self.cont = cont", "self.end = end", "self.vertical = vertical"], str(stores))


def repr_call_sites(res):
    """`item[0] not in nameblacklist` in _repr is an exact-name test only over a list/tuple of names (over a string it is a substring
    test): every __repr__ passes a list/tuple display of string constants, or nothing"""
    for rel, cls in (("anytree/node/node.py", "Node"), ("anytree/node/anynode.py", "AnyNode"), ("anytree/node/symlinknode.py", "SymlinkNode")):
        f = text_props.fn(res, rel, cls, "__repr__")
        if not f:
            continue
        calls = [n for s_ in f.body for n in ast.walk(s_) if isinstance(n, ast.Call) and isinstance(n.func, ast.Name) and n.func.id == "_repr"]
        ok = len(calls) == 1
        for c in calls:
            vals = [k.value for k in c.keywords if k.arg == "nameblacklist"] + list(c.args[2:3])
            for v in vals:
                ok = ok and isinstance(v, (ast.List, ast.Tuple)) and all(isinstance(e, ast.Constant) and isinstance(e.value, str) for e in v.elts)
        text_props.syn(res, "C09", rel + ":%s.__repr__/hidden-names-are-a-list-of-names" % cls, ok)


def collect(res):
    reg, specs = render.build()
    seq_props.collect_specs(res, specs)
    for name, hyps, goal in render.lemma_obligations():
        res.obligations.append(Obligation("spec-functions(render)/" + name, "LEMMA", hyps, goal, {"C09"}))
    syntactic(res)
    repr_call_sites(res)
    for o in res.obligations:
        o.props = set(o.props) | {"C09"}


def bounded_part(tier):
    def f(res):
        spec = {"nodes": 4 if tier == "quick" else 5}
        out = driver.harness_json("render.py", "search", spec, timeout=6000)
        res.bounded.append({"what": "BOUNDED stand-in (never counted as proved): Node/AnyNode/SymlinkNode reprs (_repr); CPython's "
                            "splitlines/join behind the proved line layout of str(RenderTree) / by_attr(); and the closed-form reading "
                            "of the rows on the real code (L8 is proved in Lean for the spec function)",
                            "bound": json.dumps(spec) + " - all ordered trees up to `nodes` nodes x 2 start nodes x 5 styles x 4 childiter "
                            "functions x maxlevel None,0..n+1 x single/multi-line names",
                            "evaluations": out.get("evaluations", 0), "distinct_nontrivial": out.get("nontrivial", 0),
                            "rule": "one case = (tree, start, style, childiter, maxlevel, multi-line)", "found": out.get("found")})
        if out.get("found"):
            path = driver.write_replay(res, "bounded:" + json.dumps(out["case"], sort_keys=True),
                                       {"property": "C09", "case": out["case"], "observed": out["result"], "how_found": "bounded stand-in", "harness": "render.py"})
            res.violations.append({"obligation": "bounded", "replay": path, "input_found": True})
        elif out.get("error"):
            res.faults.append("bounded stand-in failed to run: %s" % out["error"][-300:])
    return f


def run(pid, tier, seed):
    return common.standard(pid, tier, seed, collect, TRUSTED, "render.py", {"nodes": 4}, None, "", lemmas=LEMMAS, select=False,
                           extra_quick=bounded_part(tier))


def replay(pid, path):
    return common.replay(pid, path, "render.py")
