from . import c04, c15, c17, c18, c19, c20, json_props, render_props, resolver_props, text_props, heap_props, seq_props

MODULES = {"C01": heap_props, "C02": heap_props, "C03": heap_props, "C16": heap_props, "C18": c18, "C04": c04, "C15": c15, "C11": json_props, "C10": json_props, "C19": c19, "C17": c17, "C09": render_props, "C07": resolver_props, "C08": resolver_props, "C12": text_props, "C13": text_props, "C20": c20, "C05": seq_props, "C06": seq_props, "C14": seq_props}
