from . import heap_props

MODULES = {"C01": heap_props, "C02": heap_props, "C03": heap_props, "C16": heap_props}
