"""C07 (Resolver.get) and C08 (Resolver.glob): text world obligations; the clauses not (yet) under contract are covered by
the bounded stand-in, labelled as such."""
import json

from contracts import resolver
from pyvc import driver, heapworld
from pyvc.core import Obligation

from . import common, seq_props

TRUSTED = seq_props.TRUSTED[:3] + [
    "str built-ins as axiomatised: s.split(sep) has at least one piece and, for a non-empty separator, a leading separator gives an "
    "empty first piece; startswith = prefix; upper() is a function; str() of the path attribute (missing attribute -> 'None')",
    "node.separator is a non-empty string; node.root is the parentless ancestor (navigation contract, C04); children are not None",
    "`re` (assumed, validated boundedly against CPython by the harness): compile/match are functions of (pattern, flags, name); "
    "the translated pattern '(?ms)' + ... + '\\\\Z' with '*' -> '.*', '?' -> '.', other characters re.escape'd matches exactly the "
    "statement's wildcard language, case-folded iff IGNORECASE",
]
G7 = ("_getattr", "__cmp", "__get", "__start", "get")
G8 = ("_getattr", "is_wildcard", "__translate", "__match", "__start", "glob", "__glob", "__find")


def collect(pid):
    def c(res):
        reg, specs = resolver.build()
        want = G7 if pid == "C07" else G8
        seq_props.collect_specs(res, [s for s in specs if s.name in want])
        if pid == "C07":
            # the relative round trip is spelled from Walker.walk(m, n): its contract (C15: the unique simple path, by identity)
            # is part of what the sentence rests on and is discharged here as well
            from . import c15
            from contracts import mixins, walker
            wf = walker.build(mixins.families()[0])
            for key in (("walk", "static"), (wf.attr("__calc_common"), "static")):
                fi, obl, fails = heapworld.verify_spec(wf.specs[key])
                if fi is not None:
                    res.functions.append({"function": fi.ident, "sha256_16": fi.sha, "dropped_decorators": fi.decorators, "obligations": len(obl)})
                res.struct += fails
                res.obligations += obl
        lemmas = resolver.lemma_obligations() + (reg.glob_lemmas() if pid == "C08" else [])
        for name, hyps, goal in lemmas:
            res.obligations.append(Obligation("spec-functions(resolver)/" + name, "LEMMA", hyps, goal, {pid}))
        for o in res.obligations:
            o.props = set(o.props) | {pid}
    return c


def bounded_part(pid, tier):
    def f(res):
        spec = {"property": pid, "nodes": 3 if tier == "quick" else 4, "comps": 2 if tier == "quick" else 3}
        out = driver.harness_json("resolver.py", "search", spec, timeout=6000)
        what = ("round-trip sentence (get(m, absolute path of n) is n; get(m, Walker-spelled relative path) is n) and the agreement of "
                "the code-level specification with the statement's component semantics" if pid == "C07" else
                "agreement of strict glob with get on wildcard-free paths (same node first, same error class), the pre-order / "
                "duplicate-freeness reading of the denotation GL, cache histories end to end, deep patterns (4 components over "
                "'..', '*', '**'), and the assumed `re` axioms.  Proved, not bounded: in both modes a returned list is GL; relaxed mode "
                "raises nothing; strict mode raises only from a raise statement that is under its dead-end condition ('..' at the "
                "root, literal component no child matches, root component), and whenever it raises GL is empty (sibling-unique names)")
        res.bounded.append({"what": "BOUNDED stand-in (never counted as proved): " + what, "bound": json.dumps(spec) +
                            " - all ordered trees up to `nodes` nodes x 4 name sets (incl. regex metacharacters, case variants, "
                            "duplicates, missing attribute) x 2 separators/path attributes (+ a two-character separator on the first name set) x paths of up to `comps` components over 15 components x "
                            "ignorecase x relax (x 3 cache histories for C08); plus names and 1-2 component paths over [ ] ! + characters on trees up to 4 nodes",
                            "evaluations": out.get("evaluations", 0), "distinct_nontrivial": out.get("nontrivial", 0),
                            "rule": "one case = (tree, names, separator, start, path, ignorecase, relax, history)", "found": out.get("found")})
        if out.get("found"):
            path = driver.write_replay(res, "bounded:" + json.dumps(out["case"], sort_keys=True),
                                       {"property": pid, "case": out["case"], "observed": out["result"], "how_found": "bounded stand-in", "harness": "resolver.py"})
            res.violations.append({"obligation": "bounded", "replay": path, "input_found": True})
        elif out.get("error"):
            res.faults.append("bounded stand-in failed to run: %s" % out["error"][-300:])
    return f


def run(pid, tier, seed):
    lem = [{"id": "sticky", "statement": "once a path component failed, status and node stay; the first matching child stays the first",
            "status": "proved by induction in SMT (base + step obligations, part of this run)"},
           {"id": "L10", "statement": "round trips of get on sibling-unique names (absolute path, Walker-spelled relative path)",
            "status": "on the abstraction (finite forest, sibling-unique names none of which is '', '.', '..'; get = fold of the one-step "
            "function over the components, which is what Resolver.get is proved to compute - spec function GN of contracts/resolver.py): "
            "names of a downward chain resolve to its end, k times '..' to the k-th ancestor, the Walker spelling (ups then downs) and the "
            "absolute path to the target - " + driver.lean_status("L10_resolver_roundtrip.lean") + ". That str.split/join with a "
            "separator not occurring in any name are inverse, and Walker.walk's contract (C15) yields exactly such an up/down pair, "
            "links the lemma to the code by review; the bounded stand-in runs the round trips on the real code"}]
    if pid == "C08":
        lem[-1] = {"id": "L12", "statement": "agreement of glob with get on wildcard-free components over sibling-unique names: the relaxed "
                   "denotation GL is [get's node] or [] and strict glob returns the singleton of get's node or fails with get's error "
                   "(same kind, same node, same component)",
                   "status": "on the abstraction (the recursive denotation GL that __glob/__find are proved to compute, and the fold that get "
                   "is proved to compute): " + driver.lean_status("L12_glob_get_agreement.lean") + ". Literal matching = name equality is "
                   "the assumed `re` contract for patterns without wildcard characters; the bounded stand-in compares strict glob with get "
                   "on the real code"}
    res = common.standard(pid, tier, seed, collect(pid), TRUSTED, "resolver.py", {"property": pid, "nodes": 3, "comps": 2}, None, "",
                          lemmas=lem, select=False, extra_quick=bounded_part(pid, tier))
    # the thorough-tier generic bounded run of common.standard is replaced by bounded_part above
    return res


def replay(pid, path):
    return common.replay(pid, path, "resolver.py")
