"""C07 (Resolver.get) and C08 (Resolver.glob): text world obligations; the clauses not (yet) under contract are covered by
the bounded stand-in, labelled as such."""
import json

from contracts import resolver
from pyvc import driver, heapworld
from pyvc.core import Obligation

from . import common, seq_props

TRUSTED = seq_props.TRUSTED[:3] + [
    "str built-ins as axiomatised: s.split(sep) has at least one piece and, for a non-empty separator, a leading separator gives an "
    "empty first piece; startswith = prefix; upper() is a function; str() of the path attribute (missing attribute -> 'None')",
    "node.separator is a non-empty string; node.root is the parentless ancestor (navigation contract, C04); children are not None",
    "`re` (assumed, validated boundedly against CPython by the harness): compile/match are functions of (pattern, flags, name); "
    "the translated pattern '(?ms)' + ... + '\\\\Z' with '*' -> '.*', '?' -> '.', other characters re.escape'd matches exactly the "
    "statement's wildcard language, case-folded iff IGNORECASE",
]
G7 = ("_getattr", "__cmp", "__get", "__start", "get")
G8 = ("_getattr", "is_wildcard", "__translate", "__match", "__start", "glob", "__glob", "__find")


def collect(pid):
    def c(res):
        reg, specs = resolver.build()
        want = G7 if pid == "C07" else G8
        seq_props.collect_specs(res, [s for s in specs if s.name in want])
        for name, hyps, goal in resolver.lemma_obligations():
            res.obligations.append(Obligation("spec-functions(resolver)/" + name, "LEMMA", hyps, goal, {pid}))
        for o in res.obligations:
            o.props = set(o.props) | {pid}
    return c


def bounded_part(pid, tier):
    def f(res):
        spec = {"property": pid, "nodes": 3 if tier == "quick" else 4, "comps": 2 if tier == "quick" else 3}
        out = driver.harness_json("resolver.py", "search", spec, timeout=6000)
        what = ("round-trip sentence (get(m, absolute path of n) is n; get(m, Walker-spelled relative path) is n) and the agreement of "
                "the code-level specification with the statement's component semantics" if pid == "C07" else
                "strict mode of Resolver.__glob / __find (which errors are raised or swallowed: dead-end rule, agreement with get on "
                "wildcard-free paths), the pre-order / duplicate-freeness reading of the relaxed denotation GL, cache histories end to "
                "end, and the assumed `re` axioms (relaxed mode itself is proved: result = GL, nothing raised)")
        res.bounded.append({"what": "BOUNDED stand-in (never counted as proved): " + what, "bound": json.dumps(spec) +
                            " - all ordered trees up to `nodes` nodes x 3 name sets (incl. regex metacharacters, case variants, "
                            "duplicates) x 2 separators/path attributes x paths of up to `comps` components over 15 components x "
                            "ignorecase x relax (x 3 cache histories for C08)",
                            "evaluations": out.get("evaluations", 0), "distinct_nontrivial": out.get("nontrivial", 0),
                            "rule": "one case = (tree, names, separator, start, path, ignorecase, relax, history)", "found": out.get("found")})
        if out.get("found"):
            path = driver.write_replay(res, "bounded:" + json.dumps(out["case"], sort_keys=True),
                                       {"property": pid, "case": out["case"], "observed": out["result"], "how_found": "bounded stand-in", "harness": "resolver.py"})
            res.violations.append({"obligation": "bounded", "replay": path, "input_found": True})
        elif out.get("error"):
            res.faults.append("bounded stand-in failed to run: %s" % out["error"][-300:])
    return f


def run(pid, tier, seed):
    lem = [{"id": "sticky", "statement": "once a path component failed, status and node stay; the first matching child stays the first",
            "status": "proved by induction in SMT (base + step obligations, part of this run)"},
           {"id": "L10", "statement": "round trips of get on sibling-unique names (absolute path, Walker-spelled relative path)",
            "status": "on the abstraction (finite forest, sibling-unique names none of which is '', '.', '..'; get = fold of the one-step "
            "function over the components, which is what Resolver.get is proved to compute - spec function GN of contracts/resolver.py): "
            "names of a downward chain resolve to its end, k times '..' to the k-th ancestor, the Walker spelling (ups then downs) and the "
            "absolute path to the target - " + driver.lean_status("L10_resolver_roundtrip.lean") + ". That str.split/join with a "
            "separator not occurring in any name are inverse, and Walker.walk's contract (C15) yields exactly such an up/down pair, "
            "links the lemma to the code by review; the bounded stand-in runs the round trips on the real code"}]
    res = common.standard(pid, tier, seed, collect(pid), TRUSTED, "resolver.py", {"property": pid, "nodes": 3, "comps": 2}, None, "",
                          lemmas=lem, select=False, extra_quick=bounded_part(pid, tier))
    # the thorough-tier generic bounded run of common.standard is replaced by bounded_part above
    return res


def replay(pid, path):
    return common.replay(pid, path, "resolver.py")
