"""C20: a symlink node has its own tree position and forwards the rest to its target (attr world)."""
from contracts import symlink
from pyvc import heapworld

from . import common, seq_props

TRUSTED = [
    "CPython attribute protocol (assumed): __getattr__ is consulted only after normal lookup (instance dict, class, "
    "properties) failed; object.__setattr__(name, value) for 'parent'/'children' runs the mixin's property setter on the "
    "link itself, for other names it stores into the link's instance dict; object has no __getattr__",
    "getattr/setattr on the target are the target's own protocol (for a link to a link: the same contracts, chain assumed acyclic)",
    "consequence used by C01-C03: on a symlink instance the two bookkeeping attributes have default semantics "
    "(kept local by __setattr__, AttributeError from __getattr__ when unset), so the mixin proofs apply to links unchanged; "
    "link and target have separate bookkeeping attributes, hence independent positions (frame of the setter contracts)",
    "names resolvable on the link's class (the NodeMixin API: separator, path, ...) are the link's own by Python's lookup order",
]


def collect(res):
    reg, specs = symlink.build()
    seq_props.collect_specs(res, specs)


def run(pid, tier, seed):
    return common.standard(pid, tier, seed, collect, TRUSTED, "symlink.py", {}, {},
                           "3 link kinds (mixin subclass, link to link, SymlinkNode) x 6 operations x 5 attribute names x 4 values",
                           select=False, quick_search=True)


def replay(pid, path):
    return common.replay(pid, path, "symlink.py")
