"""Dependency closure of a property's check.

A property about iterators, exporters, the resolver ... is stated over trees that are built and read through the node mixins
(and may contain symlink nodes built by the node classes' constructors).  Modularly its functions are verified against the
*contracts* of what they use; a change that breaks one of those contracts breaks the property through the dependency.  So that
the check of the property itself reports it, the obligations of the modules it rests on are discharged in the same run:

    mixins     both mixin families: every obligation that carries C01 (well-formedness on every exit), C02 (complete post-states,
               "raises iff") or C04 (navigation getters), the member-by-member comparison of the two families (C18's syntactic layer),
               and the benign re-entrant hook scenarios (bounded)
                                                                           -- not for C01/C02/C03/C16/C18, which consist of them
    symlink    SymlinkNodeMixin.__getattr__/__setattr__, SymlinkNode.__init__, Node/AnyNode constructors
    iterators  the five iterators, AbstractIter                              -- for the properties whose code iterates
    config     anytree/config.py defines ASSERTIONS = bool(int(os.environ.get("ANYTREE_ASSERTIONS", 0)))   (syntactic)
    neutral    C18: nothing outside the two mixins names a mixin family or one of its mangled attributes, beyond the documented
               sites (syntactic)

Dependency obligations are tagged with the property of the running check and listed in the evidence like its own.
"""
import ast
import os

from z3 import BoolVal

from pyvc import driver, frontend, heapworld
from pyvc.core import Obligation

MIXIN_CHECKS = {"C01", "C02", "C03", "C16", "C18"}
ITER_USERS = {"C04", "C08", "C12", "C13", "C14"}


def _syn(res, pid, name, ok, note=""):
    o = Obligation(name, "ASTEQ", [], BoolVal(bool(ok)), {pid}, note)
    o.result, o.backend, o.time, o.all_results, o.text = ("unsat" if ok else "sat"), "ast-compare", 0.0, [], ""
    res.obligations.append(o)


def config_pin(res, pid):
    want = "ASSERTIONS = bool(int(os.environ.get('ANYTREE_ASSERTIONS', 0)))"
    try:
        node = frontend.module_assign("anytree/config.py", "ASSERTIONS")
        got = "ASSERTIONS = " + ast.unparse(node)
    except frontend.StructError as e:
        got = str(e)
    _syn(res, pid, "anytree/config.py:ASSERTIONS/off-by-default-and-for-0", got == want, got)


ALLOWED_FAMILY_MENTIONS = {
    # (file, unparsed expression / string) that may name a mixin family outside the two mixin modules
    "anytree/node/symlinknodemixin.py": {"_NodeMixin__parent", "_NodeMixin__children"},     # the link keeps its own position (C20)
    "anytree/exporter/dictexporter.py": {"_NodeMixin__parent", "_NodeMixin__children"},     # bookkeeping keys are not exported (C10)
}


def family_neutral(res, pid):
    """every consumer treats the two families alike: outside the mixin modules no isinstance test against a family, no mangled
    family attribute - except the documented string constants above"""
    bad = []
    root = os.path.join(frontend.REPO, "anytree")
    for dp, _, fs in os.walk(root):
        for f in sorted(fs):
            rel = os.path.relpath(os.path.join(dp, f), frontend.REPO).replace(os.sep, "/")
            if not f.endswith(".py") or rel in ("anytree/node/nodemixin.py", "anytree/node/lightnodemixin.py"):
                continue
            try:
                tree = frontend.parse(rel)
            except frontend.StructError:
                continue
            allowed = ALLOWED_FAMILY_MENTIONS.get(rel, set())
            for n in ast.walk(tree):
                if isinstance(n, ast.Constant) and isinstance(n.value, str) and ("_NodeMixin__" in n.value or "_LightNodeMixin__" in n.value):
                    if n.value not in allowed and len(n.value) < 60:
                        bad.append("%s: %r" % (rel, n.value))
                if isinstance(n, ast.Attribute) and (n.attr.startswith("_NodeMixin__") or n.attr.startswith("_LightNodeMixin__")):
                    bad.append("%s: .%s" % (rel, n.attr))
                if isinstance(n, ast.Call) and isinstance(n.func, ast.Name) and n.func.id in ("isinstance", "issubclass") and len(n.args) == 2:
                    names = {x.id for x in ast.walk(n.args[1]) if isinstance(x, ast.Name)}
                    if names & {"NodeMixin", "LightNodeMixin"} and not {"NodeMixin", "LightNodeMixin"} <= names:
                        bad.append("%s: %s" % (rel, ast.unparse(n)))
    _syn(res, pid, "anytree/**:consumers-do-not-distinguish-the-mixin-families", not bad, "; ".join(bad[:6]))


def add(res, pid):
    """append the dependency obligations of property `pid` (already tagged with it)"""
    before = len(res.obligations)
    tmp = driver.Result(pid, res.tier, res.seed)
    if pid not in MIXIN_CHECKS:
        from . import heap_props
        heap_props.collect(tmp)
        keep = [o for o in tmp.obligations if set(o.props) & {"C01", "C02", "C04"}]
        tmp.obligations = keep
        # the two families member by member (C18's syntactic layer): a divergence of one family is a change of the tree API
        from . import c18
        tmp.obligations += c18.asteq(tmp)
    if pid != "C20":
        from contracts import symlink
        from . import seq_props
        reg, specs = symlink.build()
        t2 = driver.Result(pid, res.tier, res.seed)
        seq_props.collect_specs(t2, specs)
        if pid not in ("C02", "C10", "C11"):
            seq_props.collect_specs(t2, symlink.build_ctors())
        tmp.obligations += t2.obligations
        tmp.struct += t2.struct
        tmp.functions += t2.functions
    if pid in ITER_USERS:
        from . import seq_props
        t3 = driver.Result(pid, res.tier, res.seed)
        seq_props.collect_iter(t3)
        have = {f["function"] for f in res.functions}
        tmp.obligations += [o for o in t3.obligations if not any(o.name.startswith(h + "/") for h in have)]
        tmp.struct += t3.struct
        tmp.functions += [f for f in t3.functions if f["function"] not in have]
    # the vacuity guards of a dependency's contracts belong to its own property's check
    tmp.obligations = [o for o in tmp.obligations if o.kind not in ("CANARY", "PROBE")]
    for o in tmp.obligations:
        o.props = {pid}
        o.dependency = True      # discharged at quick strength also in the thorough tier (their own property's thorough run goes deeper)
    for f in tmp.functions:
        f["dependency"] = True
    res.obligations += tmp.obligations
    res.struct += tmp.struct
    res.functions += tmp.functions
    if pid == "C18":
        # "the same values for every navigation attribute, iterator, Walker, Resolver and RenderTree result": the consumers are
        # verified once, against the navigation contracts both families satisfy - their obligations belong to C18 as well
        from . import c04, c15, render_props, resolver_props, seq_props
        t4 = driver.Result(pid, res.tier, res.seed)
        for fn in (c04.collect_all, c15.collect, seq_props.collect_search, resolver_props.collect("C07"), resolver_props.collect("C08"),
                   render_props.collect):
            try:
                fn(t4)
            except Exception as e:      # noqa
                res.faults.append("dependency collection failed: %s" % e)
        seen = set()
        keep = []
        for o in t4.obligations:
            if o.kind in ("CANARY", "PROBE") or o.name in seen:
                continue
            seen.add(o.name)
            o.props = {pid}
            o.dependency = True
            keep.append(o)
        res.obligations += keep
        res.struct += t4.struct
        have = {f["function"] for f in res.functions}
        for f in t4.functions:
            if f["function"] not in have:
                f["dependency"] = True
                res.functions.append(f)
                have.add(f["function"])
    config_pin(res, pid)
    if pid not in ("C01", "C16"):
        out = driver.harness_json("reentrant.py", "search", {}, timeout=600)
        if out.get("found"):
            path = driver.write_replay(res, "bounded:reentrant", {"property": pid, "case": out["case"], "observed": out["result"],
                                                                  "harness": "reentrant.py", "how_found": "re-entrant hook scenario (dependency: node mixins)"})
            res.violations.append({"obligation": "bounded:reentrant", "replay": path, "input_found": True})
    if pid == "C18":
        family_neutral(res, pid)
    res.notes.append("dependency closure: %d obligations of the modules this property rests on (mixins C01/C02, symlink/constructors, "
                     "iterators where used, config) are discharged in this run as well" % (len(res.obligations) - before))
