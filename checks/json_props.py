"""C11 (JSON export/import: delegation equalities proved, json dependency contract assumed) and C10 (dictionary export/import)."""
import json

from contracts import jsonio
from pyvc import driver, heapworld

from . import common, seq_props

TRUSTED11 = [
    "ASSUMED dependency contract: json.loads(json.dumps(d, **kw), **kw') == d for JSON-representable d (nested lists/dicts, None, booleans, "
    "ints, floats, non-ASCII and control characters) and the option sets of the property; json.dump writes the text json.dumps returns; "
    "validated only boundedly on CPython (harness/dictjson.py)",
    "the dictionary exporter/importer handed in (or the default DictExporter()/DictImporter()) is used through export()/import_() only "
    "(effect-log model: which helper, with which state, which json function with which data and keyword options)",
    "the round trip is the composition of these delegation equalities with the DictExporter/DictImporter contracts (C10, discharged in this "
    "run as well) and the json contract (meta-argument)",
]


def init_obligations(res):
    """the constructors store every option under its own name and no parameter has a mutable (shared) default"""
    import ast
    from . import text_props
    for rel, cls in (("anytree/exporter/jsonexporter.py", "JsonExporter"), ("anytree/importer/jsonimporter.py", "JsonImporter")):
        f = text_props.fn(res, rel, cls, "__init__")
        if not f:
            continue
        params = [p for p in f.params()[1:]]
        kw = f.node.args.kwarg.arg if f.node.args.kwarg else None
        want = sorted(["self.%s = %s" % (p, p) for p in params] + (["self.%s = %s" % (kw, kw)] if kw else []))
        got = sorted(ast.unparse(s) for s in f.body)
        text_props.syn(res, "C11", rel + ":%s.__init__/stores-every-option" % cls, got == want, "%s vs %s" % (got, want))
        defaults = f.node.args.defaults + [d for d in f.node.args.kw_defaults if d is not None]
        text_props.syn(res, "C11", rel + ":%s.__init__/no-shared-mutable-default" % cls,
                       all(isinstance(d, ast.Constant) for d in defaults), [ast.unparse(d) for d in defaults])


def collect11(res):
    reg, specs = jsonio.build()
    seq_props.collect_specs(res, specs)
    init_obligations(res)
    # the JSON classes delegate to the dictionary exporter/importer: their contracts (C10, incl. the default node class's
    # constructor) are part of what C11 rests on and are discharged here as well
    from . import dict_props
    dict_props.collect(res)
    for o in res.obligations:
        o.props = (set(o.props) - {"C10"}) | {"C11"}


def bounded(pid, tier, what):
    def f(res):
        spec = {"property": pid, "nodes": 3 if tier == "quick" else 5}
        out = driver.harness_json("dictjson.py", "search", spec, timeout=6000)
        res.bounded.append({"what": "BOUNDED (never counted as proved): " + what,
                            "bound": json.dumps(spec) + " - all ordered trees up to `nodes` nodes x 3 node classes x 2 start nodes x every "
                            "maxlevel x childiter/attriter/dictcls choices (C10) or json option sets (C11), attribute dictionaries with nested "
                            "values, None, booleans, ints, floats, non-ASCII and control characters",
                            "evaluations": out.get("evaluations", 0), "distinct_nontrivial": out.get("nontrivial", 0),
                            "rule": "one case = (tree, class, start, maxlevel, options)", "found": out.get("found")})
        if out.get("found"):
            path = driver.write_replay(res, "bounded:" + json.dumps(out["case"], sort_keys=True),
                                       {"property": pid, "case": out["case"], "observed": out["result"], "how_found": "bounded stand-in", "harness": "dictjson.py"})
            res.violations.append({"obligation": "bounded", "replay": path, "input_found": True})
        elif out.get("error"):
            res.faults.append("bounded stand-in failed to run: %s" % out["error"][-300:])
    return f


def run(pid, tier, seed):
    if pid == "C11":
        return common.standard(pid, tier, seed, collect11, TRUSTED11, "dictjson.py", {"property": "C11", "nodes": 3}, None, "",
                               select=False, extra_quick=bounded("C11", tier, "the assumed json round-trip contract and the end-to-end "
                                                                 "sentence import_(export(t)) isomorphic to t, write == export, read == import_"))
    from . import dict_props
    return dict_props.run(pid, tier, seed)


def replay(pid, path):
    return common.replay(pid, path, "dictjson.py")
