"""C15: Walker.walk returns the unique tree path between two nodes."""
from contracts import mixins, walker
from pyvc import driver, heapworld

from . import common, heap_props

NEED = [("parent", "getter"), ("iter_path_reverse", "method"), ("_path", "getter"), ("path", "getter"), ("root", "getter")]
LEMMAS = [{"id": "L2", "statement": "identity-filter over the zip of two sequences whose agreeing positions are downward closed = "
           "their common prefix (exists k: equal below k, different at k)", "status": driver.lean_status("L2_zip_filter_prefix.lean") +
           "; its premise is an obligation at the use site"}]


def collect(res):
    fams = mixins.families()
    for fam in fams:
        heap_props.collect(res, [fam], set(NEED))
    wf = walker.build(fams[0])
    for key in (("walk", "static"), (wf.attr("__calc_common"), "static")):
        fi, obl, fails = heapworld.verify_spec(wf.specs[key])
        if fi is not None:
            res.functions.append({"function": fi.ident, "sha256_16": fi.sha, "dropped_decorators": fi.decorators, "obligations": len(obl)})
        res.struct += fails
        res.obligations += obl
    for o in res.obligations:
        o.props = set(o.props) | {"C15"}


def run(pid, tier, seed):
    return common.standard(pid, tier, seed, collect, heap_props.TRUSTED[2:] + [
        "ghost forest functions exist for the current forest (WF is an invariant: C01)",
        "mirror property walk(end, start) follows from the symmetric postcondition (meta-argument)",
        "Walker is verified once against the navigation contracts, which both mixin families satisfy"],
        "queries.py", {"property": "C15", "nodes": 5}, {"property": "C15", "nodes": 7},
        "all ordered tree shapes up to N nodes, every ordered pair of nodes, plus nodes of a second tree", lemmas=LEMMAS, quick_search=True)


def replay(pid, path):
    return common.replay(pid, path, "queries.py")
