"""shared flow of a check: collect -> select -> discharge -> vacuity -> violation (with concrete input) -> bounded part"""
import json

from pyvc import driver


def standard(pid, tier, seed, collect, trusted, search_script, search_spec, thorough_spec=None, bounded_text="",
             lemmas=(), level="proof", notes=(), select=True, extra_quick=None, quick_search=False):
    res = driver.Result(pid, tier, seed)
    res.trusted = list(trusted)
    res.lemmas = list(lemmas)
    res.level = level
    res.notes += list(notes)
    collect(res)
    if select:
        res.obligations = driver.select(res.obligations, pid)
    from . import deps
    deps.add(res, pid)
    if not res.obligations and not res.struct:
        res.faults.append("no obligations generated")
        return res
    driver.discharge_cached(res.obligations, tier, seed)
    per, dead = driver.canary_verdict(res.obligations)
    if dead:
        res.notes.append("outcomes with only refutable paths: %s" % sorted("%s:%s" % k for k in dead))
    dis = [o for o in res.obligations if getattr(o, "second", None) and str(o.second).startswith("DISAGREE")]
    if dis:
        res.faults.append("back ends disagree on %s" % dis[0].name)
        return res
    bad = [o for o in res.obligations if o.kind not in ("CANARY", "PROBE") and o.result != "unsat"]
    if bad or res.struct:
        names = [o.name for o in bad] + ["STRUCT:" + s.ident for s in res.struct]
        found = None
        if search_script:
            found = driver.harness_json(search_script, "search", search_spec, timeout=1500)
        payload = {"property": pid, "failed_obligations": names[:40], "notes": [o.note for o in bad[:10]],
                   "struct_failures": [{"function": s.ident, "reason": s.msg} for s in res.struct],
                   "solver_output": [{"obligation": o.name, "attempts": o.all_results} for o in bad[:10]],
                   "solver_counterexample": driver.solver_counterexample(bad),
                   "harness": search_script}
        ok = bool(found and found.get("found"))
        if ok:
            payload.update({"case": found["case"], "observed": found["result"],
                            "how_found": "bounded search on the real code after the obligation failed (%s)" % json.dumps(search_spec)})
        elif found and found.get("error"):
            payload["harness_error"] = found["error"]
        path = driver.write_replay(res, names[0], payload)
        res.violations.append({"obligation": names[0], "replay": path, "input_found": ok})
    if extra_quick:
        extra_quick(res)
    if quick_search and search_script and tier == "quick" and not res.violations:
        # the small-scope run of the real code against the property's reference reading is cheap: run it on every change as well
        out = driver.harness_json(search_script, "search", search_spec, timeout=1500)
        res.bounded.append({"what": "contract cross-check on the real code at the quick bound (never counted as proved): " + bounded_text,
                            "bound": json.dumps(search_spec), "evaluations": out.get("evaluations", 0),
                            "distinct_nontrivial": out.get("nontrivial", 0), "rule": "non-trivial = tree with more than one node",
                            "found": out.get("found"), "error": out.get("error")})
        if out.get("found"):
            path = driver.write_replay(res, "bounded:" + json.dumps(out["case"], sort_keys=True),
                                       {"property": pid, "case": out["case"], "observed": out["result"],
                                        "how_found": "bounded cross-check (quick tier)", "harness": search_script})
            res.violations.append({"obligation": "bounded", "replay": path, "input_found": True})
        elif out.get("error"):
            res.faults.append("bounded cross-check failed to run: %s" % out["error"][-300:])
    if tier == "thorough" and search_script and thorough_spec is not None:
        spec = thorough_spec
        out = driver.harness_json(search_script, "search", spec, timeout=6000)
        res.bounded.append({"what": "bounded stand-in / contract cross-check on the real code (never counted as proved): " + bounded_text,
                            "bound": json.dumps(spec), "evaluations": out.get("evaluations", 0),
                            "distinct_nontrivial": out.get("nontrivial", 0), "rule": "non-trivial = tree with more than one node",
                            "found": out.get("found"), "error": out.get("error")})
        if out.get("found"):
            path = driver.write_replay(res, "bounded:" + json.dumps(out["case"], sort_keys=True),
                                       {"property": pid, "case": out["case"], "observed": out["result"],
                                        "how_found": "bounded stand-in (thorough tier)", "harness": search_script})
            res.violations.append({"obligation": "bounded", "replay": path, "input_found": True})
    return res


def replay(pid, path, script):
    d = json.load(open(path))
    if "case" not in d:
        print("replay file names failed obligations only (no concrete input): %s" % d.get("failed_obligations", [])[:3])
        return 1
    out = driver.harness_json(script, "replay", d["case"])
    print(json.dumps(out, indent=1)[:3000])
    return 1 if (out.get("violation") or out.get("violations")) else 0
