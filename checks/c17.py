"""C17: tree operations use node identity only.  IDENT obligations from the kind analysis (pyvc/kinds.py) over every function
of the listed modules; replay / bounded stand-in by adversarial node classes (harness/special.py)."""
import json

from z3 import BoolVal

from pyvc import driver, frontend, heapworld, kinds
from pyvc.core import Obligation

from . import common

FILES = ["anytree/node/nodemixin.py", "anytree/node/lightnodemixin.py", "anytree/node/node.py", "anytree/node/anynode.py",
         "anytree/node/symlinknode.py", "anytree/node/symlinknodemixin.py", "anytree/util/__init__.py", "anytree/resolver.py",
         "anytree/walker.py", "anytree/render.py", "anytree/iterators/abstractiter.py", "anytree/iterators/preorderiter.py",
         "anytree/iterators/postorderiter.py", "anytree/iterators/levelorderiter.py", "anytree/iterators/levelordergroupiter.py",
         "anytree/iterators/zigzaggroupiter.py", "anytree/exporter/dotexporter.py", "anytree/exporter/mermaidexporter.py",
         "anytree/search.py", "anytree/cachedsearch.py", "anytree/exporter/dictexporter.py", "anytree/importer/dictimporter.py"]
TRUSTED = [
    "kind tables of pyvc/kinds.py (reviewed): which attributes/parameters/calls yield nodes or node sequences; everything that comes from "
    "user data (attribute values other than the navigation API, callback results, strings, numbers) is not a node",
    "built-in operations invoke user special methods only as listed in pyvc/kinds.py (truth test, comparisons, membership, hashing, len, "
    "iteration, subscription, list.index/remove/count, sorted/min/max); identity tests, id(), tuple()/list() of a node sequence, "
    "iteration over tuples/lists do not",
    "'same result as for a plain class' additionally follows from the functional contracts (C01-C16), which mention identity only",
    "the optional `fastcache` branch of cachedsearch (hashes its arguments) is not installed here and is outside the claim",
]


def run(pid, tier, seed):
    res = driver.Result(pid, tier, seed)
    res.trusted = list(TRUSTED)
    res.level = "other"
    nfun = 0
    flagged = []
    for rel in FILES:
        try:
            n, sites = kinds.analyze_file(rel)
        except frontend.StructError as e:
            res.struct.append(heapworld.StructFailure(rel, str(e)))
            continue
        nfun += n
        res.functions.append({"function": rel, "functions_analysed": n, "flagged_sites": len(sites)})
        o = Obligation("%s/IDENT:no-special-method-of-a-node-is-invoked" % rel, "IDENT", [], BoolVal(not sites), {"C17"},
                       "; ".join("%s line %d: %s [%s]" % (s.func, s.lineno, s.what, s.expr) for s in sites))
        o.result, o.backend, o.time, o.all_results, o.text = ("unsat" if not sites else "sat"), "kind-analysis", 0.0, [], ""
        res.obligations.append(o)
        flagged += sites
    res.extra["explanation"] = ("IDENT obligations: a flow-sensitive kind analysis of the real AST of all %d functions of %d modules shows that no "
                                "truth test, comparison, membership test, hashing, len(), iteration, subscription, list.index/remove/count or "
                                "sorted/min/max is applied to a value that may be a tree node (or node sequence where elements would be "
                                "compared). Decided syntactically per site (no solver); over-approximating. Plus adversarial-class execution "
                                "(bounded) of every structural operation." % (nfun, len(FILES)))
    spec = {"nodes": 4 if tier == "quick" else 5}
    out = driver.harness_json("special.py", "search", spec, timeout=3000)
    res.bounded.append({"what": "adversarial node classes (every comparison/hash/truth/container special method overridden, recording, answering "
                        "adversarially) through every structural operation; results compared with a plain class (bounded, not counted as proved)",
                        "bound": json.dumps(spec) + " - all ordered trees up to `nodes` nodes x both mixin families x the operation battery",
                        "evaluations": out.get("evaluations", 0), "distinct_nontrivial": out.get("nontrivial", 0),
                        "rule": "one case = (tree shape, family); each runs several hundred operations", "found": out.get("found")})
    from . import deps
    dep = driver.Result(pid, tier, seed)
    deps.add(dep, pid)
    driver.discharge_cached([o for o in dep.obligations if o.result is None], tier, seed)
    res.obligations += [o for o in dep.obligations if o.kind not in ("CANARY", "PROBE")]
    res.struct += dep.struct
    res.functions += dep.functions
    res.notes += dep.notes
    bad = [o for o in res.obligations if o.result != "unsat"]
    if bad or res.struct or out.get("found"):
        payload = {"property": pid, "failed_obligations": [o.name for o in bad], "flagged_sites": [o.note for o in bad],
                   "struct_failures": [{"function": s.ident, "reason": s.msg} for s in res.struct], "harness": "special.py"}
        if out.get("found"):
            payload.update({"case": out["case"], "observed": out["result"], "how_found": "adversarial node classes on the real code"})
        path = driver.write_replay(res, (bad[0].name if bad else "adversarial"), payload)
        res.violations.append({"obligation": bad[0].name if bad else "adversarial", "replay": path, "input_found": bool(out.get("found"))})
    elif out.get("error"):
        res.faults.append("adversarial harness failed: %s" % out["error"][-300:])
    res.extra["coverage"] = {"functions_analysed": nfun}
    return res


def replay(pid, path):
    return common.replay(pid, path, "special.py")
