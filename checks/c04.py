"""C04: navigation attributes and sibling/ancestor helpers equal their definitions."""
from contracts import mixins
from pyvc import driver, heapworld

from . import common, heap_props

KEYS = [("parent", "getter"), ("children", "getter"), ("iter_path_reverse", "method"), ("_path", "getter"), ("path", "getter"),
        ("ancestors", "getter"), ("root", "getter"), ("siblings", "getter"), ("is_leaf", "getter"), ("is_root", "getter"),
        ("height", "getter"), ("depth", "getter")]
LEMMAS = [
    {"id": "L6", "statement": "a function HEIGHT with hgt(n) = 0 for leaves and 1 + max over children exists in every finite "
     "forest and equals the number of edges on the longest downward path; any function with the recursive characterisation "
     "equals it", "status": driver.lean_status("L6_height.lean")},
    {"id": "L1", "statement": "filter_ne on a duplicate-free list holding x at position k = remove_at k (siblings)",
     "status": driver.lean_status("L1_filter_ne.lean")},
]


def collect(res):
    from contracts import iterators
    from . import seq_props
    fams = mixins.families()
    for fam in fams:
        want = set(KEYS) | {(fam.attr("__children_or_empty"), "getter")}
        heap_props.collect(res, [fam], want)
    # descendants / leaves / size are computed through PreOrderIter: seq world, on top of the iterator contracts
    reg = seq_props.collect_iter(res)
    keep = ("preorderiter.py", "abstractiter.py", "spec-functions/", "node/")
    res.obligations = [o for o in res.obligations if any(k in o.name for k in keep)]
    res.functions = [f for f in res.functions if any(k in f["function"] for k in keep)]
    seq_props.collect_specs(res, iterators.build_nav(reg))
    # util helpers (verified once against the navigation contracts both families satisfy)
    from contracts import util
    uf = util.build(fams[0])
    for key in (("commonancestors", "function"), ("leftsibling", "function"), ("rightsibling", "function")):
        fi, obl, fails = heapworld.verify_spec(uf.specs[key])
        if fi is not None:
            res.functions.append({"function": fi.ident, "sha256_16": fi.sha, "dropped_decorators": fi.decorators, "obligations": len(obl)})
        res.struct += fails
        res.obligations += obl


def run(pid, tier, seed):
    return common.standard(pid, tier, seed, collect_all, heap_props.TRUSTED[2:] + [
        "ghost functions A (ancestor-or-self), d (depth), idx (child index), hgt (height), ANC (ancestor at depth j) exist for "
        "the current forest (definable in every finite forest satisfying WF, which C01 proves invariant)",
        "'correct immediately after any mutation': the functions read only the two link attributes (no cached state); "
        "their value is a function of the current view"],
        "queries.py", {"property": "C04", "nodes": 5}, {"property": "C04", "nodes": 7},
        "all ordered tree shapes up to N nodes, every node, all pairs/triples for commonancestors", lemmas=LEMMAS, quick_search=True)


def collect_all(res):
    collect(res)
    for o in res.obligations:
        if "iterators/" in o.name or "spec-functions/" in o.name:
            o.props = set(o.props) | {"C04"}


def replay(pid, path):
    return common.replay(pid, path, "queries.py")
