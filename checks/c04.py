"""C04: navigation attributes and sibling/ancestor helpers equal their definitions."""
from contracts import mixins
from pyvc import heapworld

from . import common, heap_props

KEYS = [("parent", "getter"), ("children", "getter"), ("iter_path_reverse", "method"), ("_path", "getter"), ("path", "getter"),
        ("ancestors", "getter"), ("root", "getter"), ("siblings", "getter"), ("is_leaf", "getter"), ("is_root", "getter"),
        ("height", "getter"), ("depth", "getter")]
LEMMAS = [
    {"id": "L6", "statement": "a function HEIGHT with hgt(n) = 0 for leaves and 1 + max over children exists in every finite "
     "forest and equals the number of edges on the longest downward path", "status": "assumed bridge (Lean proof pending)"},
]


def collect(res):
    fams = mixins.families()
    for fam in fams:
        want = set(KEYS) | {(fam.attr("__children_or_empty"), "getter")}
        heap_props.collect(res, [fam], want)


def run(pid, tier, seed):
    return common.standard(pid, tier, seed, collect, heap_props.TRUSTED[2:] + [
        "ghost functions A (ancestor-or-self), d (depth), idx (child index), hgt (height), ANC (ancestor at depth j) exist for "
        "the current forest (definable in every finite forest satisfying WF, which C01 proves invariant)",
        "'correct immediately after any mutation': the functions read only the two link attributes (no cached state); "
        "their value is a function of the current view"],
        "queries.py", {"property": "C04", "nodes": 5}, {"property": "C04", "nodes": 7},
        "all ordered tree shapes up to N nodes, every node, all pairs/triples for commonancestors", lemmas=LEMMAS)


def replay(pid, path):
    return common.replay(pid, path, "queries.py")
