"""C10: DictExporter proved in the text world against the recursive export predicate; DictImporter and the two round-trip
sentences by the bounded stand-in (labelled)."""
from contracts import dictio
from pyvc import driver

from . import common, json_props, seq_props

TRUSTED = seq_props.TRUSTED[:3] + [
    "exported dictionaries are fresh objects known through observers (class, constructor argument, 'children' entry): dictcls(arg) has "
    "no 'children' entry, d['children'] = kids sets exactly that entry (user dictcls classes behave like dict for item assignment)",
    "node.__dict__.items() is a finite sequence of (key, value) pairs; attriter/childiter/dictcls are deterministic functions",
    "ISEXP (the recursive export predicate) is well defined by recursion on the height of the tree (definitional axiom, both directions)",
]
LEMMAS = [{"id": "L9", "statement": "import_(export(t)) is isomorphic to t; export(import_(d)) equals d up to empty 'children' lists; neither "
           "call modifies its argument", "status": "two halves. (1) On the code: DictExporter is proved against the recursive export "
           "predicate ISEXP; DictImporter.__import is proved to copy its argument, pop 'children' from the copy, construct one node from "
           "the remaining attributes and import every child in order under it (effect-log contract); neither writes to its argument "
           "(frame). (2) On the abstraction (labelled rose trees / nested dictionaries with an optional 'children' list, export omitting "
           "the key for leaves, import treating a missing key as no children): import(export t) = t, export(import d) = normalize d "
           "(d with empty 'children' lists dropped), normalize(export t) = export t - " + driver.lean_status("L9_dict_roundtrip.lean") +
           ". The link between the two halves (the effect log of __import builds, through the constructor contract of C02, the tree the "
           "abstract import denotes; attribute dictionaries compare by ==) is by review and exercised by the bounded stand-in"}]


IMPORT_BODY = '''
if ASSERTIONS:
    assert isinstance(data, dict)
    assert "parent" not in data
attrs = dict(data)
children = attrs.pop("children", [])
node = self.nodecls(parent=parent, **attrs)
for child in children:
    self.__import(child, parent=node)
return node
'''


def importer_obligations(res):
    """DictImporter is not under a semantic contract (it builds nodes from a dictionary: heap world meets value world); its three
    small methods are pinned syntactically - copy of the argument, 'children' popped from the copy, one nodecls call with the
    remaining attributes, every child imported in order under the new node - and its behaviour is covered by the bounded stand-in"""
    import ast
    from . import text_props
    rel = "anytree/importer/dictimporter.py"
    from contracts import jsonio
    _, ispecs = jsonio.build_importer()
    seq_props.collect_specs(res, ispecs)        # effect-log contract of __import (copy, pop from the copy, construct, import every child)
    f = text_props.fn(res, rel, "DictImporter", "import_")
    if f:
        text_props.syn(res, "C10", rel + ":DictImporter.import_/delegates", text_props.dump(f.body) == text_props.dump(ast.parse("return self.__import(data)").body))
    f = text_props.fn(res, rel, "DictImporter", "__init__")
    if f:
        text_props.syn(res, "C10", rel + ":DictImporter.__init__/stores-nodecls", text_props.dump(f.body) == text_props.dump(ast.parse("self.nodecls = nodecls").body))


def collect(res):
    reg, specs = dictio.build()
    seq_props.collect_specs(res, specs)
    importer_obligations(res)
    # the importer's default node class: AnyNode.__init__ (and Node.__init__) store the keyword attributes into __dict__ and assign
    # parent / children through the verified setters (constructor contracts of C02) - "arbitrary attribute keys" rests on that
    from contracts import symlink
    seq_props.collect_specs(res, symlink.build_ctors())
    for o in res.obligations:
        o.props = set(o.props) | {"C10"}


def run(pid, tier, seed):
    return common.standard(pid, tier, seed, collect, TRUSTED, "dictjson.py", {"property": "C10", "nodes": 3}, None, "", lemmas=LEMMAS,
                           select=False, extra_quick=json_props.bounded("C10", tier, "DictImporter.import_/__import (shape, order, attributes of the "
                                                                       "imported tree, argument unmodified) and the two round-trip sentences; "
                                                                       "the export is also compared with an independent serialisation"))


def replay(pid, path):
    return common.replay(pid, path, "dictjson.py")
