"""C10: DictExporter proved in the text world against the recursive export predicate; DictImporter and the two round-trip
sentences by the bounded stand-in (labelled)."""
from contracts import dictio

from . import common, json_props, seq_props

TRUSTED = seq_props.TRUSTED[:3] + [
    "exported dictionaries are fresh objects known through observers (class, constructor argument, 'children' entry): dictcls(arg) has "
    "no 'children' entry, d['children'] = kids sets exactly that entry (user dictcls classes behave like dict for item assignment)",
    "node.__dict__.items() is a finite sequence of (key, value) pairs; attriter/childiter/dictcls are deterministic functions",
    "ISEXP (the recursive export predicate) is well defined by recursion on the height of the tree (definitional axiom, both directions)",
]
LEMMAS = [{"id": "L9", "statement": "import_(export(t)) is isomorphic to t; export(import_(d)) equals d up to empty 'children' lists; neither "
           "call modifies its argument", "status": "not proved: DictImporter.__import builds nodes through the constructor (heap world) from a "
           "dictionary (value world); covered by the bounded stand-in only"}]


IMPORT_BODY = '''
if ASSERTIONS:
    assert isinstance(data, dict)
    assert "parent" not in data
attrs = dict(data)
children = attrs.pop("children", [])
node = self.nodecls(parent=parent, **attrs)
for child in children:
    self.__import(child, parent=node)
return node
'''


def importer_obligations(res):
    """DictImporter is not under a semantic contract (it builds nodes from a dictionary: heap world meets value world); its three
    small methods are pinned syntactically - copy of the argument, 'children' popped from the copy, one nodecls call with the
    remaining attributes, every child imported in order under the new node - and its behaviour is covered by the bounded stand-in"""
    import ast
    from . import text_props
    rel = "anytree/importer/dictimporter.py"
    f = text_props.fn(res, rel, "DictImporter", "__import")
    if f:
        text_props.syn(res, "C10", rel + ":DictImporter.__import/copy-pop-construct-recurse-in-order",
                       text_props.dump(f.body) == text_props.dump(ast.parse(IMPORT_BODY).body) and ast.unparse(f.node.args) == "self, data, parent=None")
    f = text_props.fn(res, rel, "DictImporter", "import_")
    if f:
        text_props.syn(res, "C10", rel + ":DictImporter.import_/delegates", text_props.dump(f.body) == text_props.dump(ast.parse("return self.__import(data)").body))
    f = text_props.fn(res, rel, "DictImporter", "__init__")
    if f:
        text_props.syn(res, "C10", rel + ":DictImporter.__init__/stores-nodecls", text_props.dump(f.body) == text_props.dump(ast.parse("self.nodecls = nodecls").body))


def collect(res):
    reg, specs = dictio.build()
    seq_props.collect_specs(res, specs)
    importer_obligations(res)
    for o in res.obligations:
        o.props = set(o.props) | {"C10"}


def run(pid, tier, seed):
    return common.standard(pid, tier, seed, collect, TRUSTED, "dictjson.py", {"property": "C10", "nodes": 3}, None, "", lemmas=LEMMAS,
                           select=False, extra_quick=json_props.bounded("C10", tier, "DictImporter.import_/__import (shape, order, attributes of the "
                                                                       "imported tree, argument unmodified) and the two round-trip sentences; "
                                                                       "the export is also compared with an independent serialisation"))


def replay(pid, path):
    return common.replay(pid, path, "dictjson.py")
