#!/bin/bash
# usage: dev_check_mut.sh <file-relative> <sed-expr> <Cxx> [more Cxx...]   -- applies the edit to a scratch copy, runs checks against it
D=$(mktemp -d /tmp/mutXXXX)
cp -r /repo/anytree $D/anytree
F=$1; E=$2; shift; shift
sed -i "$E" $D/$F
diff -u /repo/$F $D/$F | grep '^[-+]' | grep -v '^+++\|^---'
for P in "$@"; do
  PYVC_REPO=$D /verif/check $P --tier quick 2>&1 | grep -v "^KNOWN" | tail -4 | cut -c1-300
  echo "exit=${PIPESTATUS[0]}"
done
rm -rf $D
