import sys, time
sys.path.insert(0, '/verif')
from pyvc import heapworld, solve
from pyvc.core import Obligation
from contracts import resolver, render
only = sys.argv[1:]
import os
if os.environ.get('WHICH')=='render':
    resolver = render
reg, specs = resolver.build()
allobl=[]
for spec in specs:
    nm = "%s.%s" % (spec.cls, spec.name)
    if only and not any(o in nm for o in only): continue
    fi, obl, fails = heapworld.verify_spec(spec)
    print("==", nm, "obligations:", len(obl), "struct:", [f.msg[:300] for f in fails])
    allobl += obl
for name, hyps, goal in resolver.lemma_obligations() + (reg.glob_lemmas() if hasattr(reg, "glob_lemmas") else []):
    allobl.append(Obligation(name, "LEMMA", hyps, goal))
t0=time.time()
solve.discharge(allobl)
can=[o for o in allobl if o.kind=='CANARY']
print('canaries',len(can),'unsat:',[o.name[-80:] for o in can if o.result=='unsat'])
bad=[o for o in allobl if o.result!='unsat' and o.kind not in ('CANARY','PROBE')]
for o in bad: print("NOT ACCEPTED", o.result, o.time, o.name[24:260])
print("total", len(allobl), "bad", len(bad), "solve %.1fs"%(time.time()-t0))
for o in sorted(allobl,key=lambda o:-o.time)[:4]: print(o.time,o.backend,o.result,o.name[24:160])
