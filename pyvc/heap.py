"""State model of the 'heap world': object identities, the two-level heap of the node mixins, the ghost
forest theory T_forest and the data-structure invariant WF (DESIGN.md 2.3, 2.4).

    Ref            uninterpreted sort of object identities (None is the distinguished NONE)
    hasP,hasC      attribute present   (the code uses hasattr)
    P, C           raw `_K__parent`, raw `_K__children` (a list object)
    Llen, Lat      contents of list objects
    alloc          allocated list objects (fresh allocation of [] / comprehensions)
    A, d, idx      ghost: ancestor-or-self, depth, position in the parent's list

view:  par(n) = hasP(n) ? P(n) : None       ch(n) = hasC(n) ? contents(C(n)) : []
"""
import itertools

from z3 import (And, Array, ArraySort, BoolSort, Const, Consts, DeclareSort, ForAll, Function, If, Implies, Int,
                IntSort, Not, Or)

R = DeclareSort("Ref")
I = IntSort()
B = BoolSort()
IA = ArraySort(I, R)
NONE = Const("None_", R)
isn = Function("isnode", R, B)      # is an instance of the node mixin family under verification
isl = Function("islist", R, B)      # is a list object
_ctr = itertools.count(1)


def fresh(name):
    return "%s!%d" % (name, next(_ctr))


def fresh_const(name, sort):
    return Const(fresh(name), sort)


class ASeq:
    """immutable sequence value of object references: length term + index array"""
    __slots__ = ("n", "a")

    def __init__(self, n, a):
        self.n, self.a = n, a

    def at(self, i):
        return self.a[i]

    @staticmethod
    def fresh(name="seq"):
        return ASeq(Int(fresh(name + "_len")), Array(fresh(name + "_at"), I, R))


RAW = ("hasP", "hasC", "P", "C", "Llen", "Lat", "alloc")
GHOST = ("A", "d", "idx")
LOG = ("loglen", "logk", "logr", "loga")


VIEWDEPS = ("hasP", "hasC", "P", "C", "Llen", "Lat")


class State:
    """raw maps + ghost + hook log.  The *view* (par, cl, ca) is a triple of function symbols per state with
    definitional axioms (`axioms`) linking it to the raw maps; contracts talk about the view only, which keeps
    quantifier instantiation patterns simple (par(x), cl(x), ca(x,i))."""

    def __init__(self, tag=None, **kw):
        if tag is not None:
            self.hasP = Array("hasP" + tag, R, B)
            self.hasC = Array("hasC" + tag, R, B)
            self.P = Array("P" + tag, R, R)
            self.C = Array("C" + tag, R, R)
            self.Llen = Array("Llen" + tag, R, I)
            self.Lat = Array("Lat" + tag, R, IA)
            self.alloc = Array("alloc" + tag, R, B)
            self.A = Function("A" + tag, R, R, B)
            self.d = Function("d" + tag, R, I)
            self.idx = Function("idx" + tag, R, I)
            # ghost hook log: event k = (hook id, receiver, argument)
            self.loglen = Int("loglen" + tag)
            self.logk = Array("logk" + tag, I, I)
            self.logr = Array("logr" + tag, I, R)
            self.loga = Array("loga" + tag, I, R)
        self.__dict__.update(kw)
        if tag is not None:
            self._mkview(tag)

    def _mkview(self, tag):
        self.vpar = Function("par" + tag, R, R)
        self.vcl = Function("cl" + tag, R, I)
        self.vca = Function("ca" + tag, R, I, R)
        x = Const("x", R)
        i = Int("i")
        self.axioms = [
            ForAll([x], self.vpar(x) == If(self.hasP[x], self.P[x], NONE)),
            ForAll([x], self.vcl(x) == If(self.hasC[x], self.Llen[self.C[x]], 0)),
            ForAll([x, i], self.vca(x, i) == self.Lat[self.C[x]][i]),
        ]

    @staticmethod
    def fresh(name="S"):
        return State(fresh("_" + name))

    def copy(self, **kw):
        s = State()
        s.__dict__.update(self.__dict__)
        s.__dict__.update(kw)
        if any(k in VIEWDEPS for k in kw):
            s._mkview(fresh("_v"))
        else:
            s.axioms = []
        return s

    def havoc(self, fields, name="S"):
        f = State.fresh(name)
        return self.copy(**{k: getattr(f, k) for k in fields})

    # ------------------------------------------------------------------ view
    def par(self, n):
        return self.vpar(n)

    def cl(self, n):
        return self.vcl(n)

    def ca(self, n, i):
        return self.vca(n, i)

    def log_append(self, kind, recv, arg):
        n = self.loglen
        from z3 import Store
        return self.copy(loglen=n + 1, logk=Store(self.logk, n, kind), logr=Store(self.logr, n, recv),
                         loga=Store(self.loga, n, arg))


def qv():
    return tuple(Consts("x y a b c", R)) + (Int("i"), Int("j"))


def WF(S):
    """named clauses of the data-structure invariant, T_forest included"""
    x, y, a, b, c, i, j = qv()
    A, d, idx = S.A, S.d, S.idx
    return [
        ("none-not-node", And(Not(isn(NONE)), Not(isl(NONE)))),
        ("node-list-disjoint", ForAll([x], Not(And(isn(x), isl(x))))),
        ("parent-is-node", ForAll([x], Implies(isn(x), Or(S.par(x) == NONE, isn(S.par(x)))))),
        ("listed-child-points-back", ForAll([x, i], Implies(And(isn(x), 0 <= i, i < S.cl(x)),
                                                           And(isn(S.ca(x, i)), S.par(S.ca(x, i)) == x,
                                                               idx(S.ca(x, i)) == i)))),
        ("child-is-listed", ForAll([x], Implies(And(isn(x), S.par(x) != NONE),
                                                And(0 <= idx(x), idx(x) < S.cl(S.par(x)),
                                                    S.ca(S.par(x), idx(x)) == x)))),
        ("list-objects", ForAll([x], Implies(And(isn(x), S.hasC[x]),
                                             And(isl(S.C[x]), S.alloc[S.C[x]], S.Llen[S.C[x]] >= 0)))),
        ("list-separation", ForAll([x, y], Implies(And(isn(x), isn(y), S.hasC[x], S.hasC[y], S.C[x] == S.C[y]),
                                                   x == y))),
        ("A-refl", ForAll([x], Implies(isn(x), A(x, x)))),
        ("A-nodes", ForAll([a, x], Implies(A(a, x), And(isn(a), isn(x))))),
        ("A-trans", ForAll([a, b, c], Implies(And(A(a, b), A(b, c)), A(a, c)))),
        ("A-antisym", ForAll([a, b], Implies(And(A(a, b), A(b, a)), a == b))),
        ("A-linear", ForAll([a, b, x], Implies(And(A(a, x), A(b, x)), Or(A(a, b), A(b, a))))),
        ("A-parent", ForAll([x], Implies(And(isn(x), S.par(x) != NONE), And(A(S.par(x), x), S.par(x) != x)))),
        ("A-step", ForAll([a, x], Implies(And(A(a, x), a != x), And(S.par(x) != NONE, A(a, S.par(x)))))),
        ("d-def", ForAll([x], Implies(isn(x), d(x) == If(S.par(x) == NONE, 0, d(S.par(x)) + 1)))),
        ("d-nonneg", ForAll([x], Implies(isn(x), d(x) >= 0))),
        ("d-mono", ForAll([a, b], Implies(And(A(a, b), a != b), d(a) < d(b)))),
    ]


def wf(S):
    return [f for _, f in WF(S)]


def par_equal(S1, S0):
    x = Const("x", R)
    return ForAll([x], Implies(isn(x), S1.par(x) == S0.par(x)))


def ch_equal_except(S1, S0, excl=()):
    """every node except the listed ones has the same children sequence (two quantifiers, so that the length
    part can be instantiated without an index term)"""
    x = Const("x", R)
    i = Int("i")
    other = And(isn(x), *[x != e for e in excl])
    return And(ForAll([x], Implies(other, S1.cl(x) == S0.cl(x))),
               ForAll([x, i], Implies(And(other, 0 <= i, i < S0.cl(x)), S1.ca(x, i) == S0.ca(x, i))))


def view_equal(S1, S0):
    return And(par_equal(S1, S0), ch_equal_except(S1, S0))


def alloc_mono(S1, S0):
    x = Const("x", R)
    return ForAll([x], Implies(S0.alloc[x], S1.alloc[x]))


def log_equal(S1, S0):
    return And(S1.loglen == S0.loglen, S1.logk == S0.logk, S1.logr == S0.logr, S1.loga == S0.loga)


def ghost_equal(S1, S0):
    x, y = Consts("x y", R)
    return And(ForAll([x, y], S1.A(x, y) == S0.A(x, y)), ForAll([x], S1.d(x) == S0.d(x)),
               ForAll([x], S1.idx(x) == S0.idx(x)))
