"""Common driver of the checks: collect obligations, discharge, vacuity guards, violation replay, known findings,
evidence.  Exit codes: 0 held / 1 VIOLATION / 3 checker fault (never together with a VIOLATION line)."""
import hashlib
import json
import os
import subprocess
import sys
import time

from . import frontend, known, solve

VERIF = os.path.dirname(os.path.dirname(os.path.abspath(__file__)))
REPO = frontend.REPO
PY_REAL = "/venv/bin/python"
CACHE = os.path.join(VERIF, ".cache", "smt")

SUPPORT_KINDS = {"PRE", "INV0", "INV+", "SAFE", "FRAME", "KIND", "LEMMA-PREMISE", "CANARY", "PROBE", "DECR"}
GUARD_KINDS = ("CANARY", "PROBE")

GENERAL_ASSUMPTIONS = [
    "CPython semantics as encoded by the executor: attribute protocol (instance dict/slots, properties as data "
    "descriptors, __getattr__ only after normal lookup fails), name mangling, evaluation order, generator semantics; "
    "id() injective on live objects; single thread",
    "recursion depth and memory unbounded (RecursionError / MemoryError not modelled); termination is not proved",
    "user code: subclasses do not override the mixins' properties or name-mangled members; hooks do not modify links "
    "or re-enter the setters and raise only Exception subclasses; a forest is homogeneous in its mixin family",
    "Python int is an unbounded integer (no machine arithmetic involved)",
    "SMT solvers (z3 5.1, z3 4.8.12, cvc5 1.0.3) are trusted; an obligation counts only when a solver answers unsat",
]


class Result:
    def __init__(self, pid, tier, seed):
        self.pid, self.tier, self.seed = pid, tier, seed
        self.t0 = time.time()
        self.functions = []          # dicts: ident, sha, dropped decorators
        self.obligations = []
        self.struct = []
        self.violations = []         # dicts: obligation, replay, input_found
        self.known_lines = []
        self.faults = []
        self.bounded = []            # dicts describing bounded stand-ins
        self.lemmas = []
        self.notes = []
        self.assumptions = list(GENERAL_ASSUMPTIONS)
        self.trusted = []
        self.level = "proof"
        self.extra = {}


def lean_status(fname):
    """result of the last `lemmas/check_all.sh` (run by MANIFEST.setup_cmd) for one lemma file"""
    try:
        with open(os.path.join(VERIF, "lemmas", "STATUS.json")) as f:
            st = json.load(f).get(fname)
    except Exception:
        st = None
    if st == "ok":
        return "proved in Lean 4 + Mathlib (lemmas/%s, type-checked by lemmas/check_all.sh at setup)" % fname
    return "Lean file lemmas/%s present but not (re)checked in this sandbox state (%s): treated as ASSUMED bridge" % (fname, st)


def cache_key(text):
    return hashlib.sha256(text.encode()).hexdigest()


_L1 = {}
_SMT = {}


def _smt_load():
    """the text-keyed cache: append-only .jsonl files (one per process), read once per run"""
    if "map" not in _SMT:
        m = {}
        d = os.path.join(CACHE, "bytext")
        if os.path.isdir(d):
            for f in os.listdir(d):
                try:
                    with open(os.path.join(d, f)) as fh:
                        for line in fh:
                            e = json.loads(line)
                            m[e["key"]] = e
                except Exception:
                    pass
        _SMT["map"] = m
    return _SMT["map"]


def _l1_key():
    """identifies everything an obligation's text is generated from: every source file of the package under verification and
    every file of the generator and the sidecar contracts"""
    if "key" not in _L1:
        import hashlib
        h = hashlib.sha256()
        roots = [os.path.join(REPO, "anytree"), os.path.join(VERIF, "pyvc"), os.path.join(VERIF, "contracts"), os.path.join(VERIF, "checks")]
        for root in roots:
            for dp, dn, fs in sorted(os.walk(root)):
                dn.sort()
                for f in sorted(fs):
                    if f.endswith(".py"):
                        h.update(os.path.relpath(os.path.join(dp, f), root).encode())
                        with open(os.path.join(dp, f), "rb") as fh:
                            h.update(fh.read())
        _L1["key"] = h.hexdigest()[:24]
    return _L1["key"]


def _l1_load():
    if "map" not in _L1:
        d = os.path.join(CACHE, "byname", _l1_key())
        m = {}
        if os.path.isdir(d):
            for f in os.listdir(d):
                try:
                    with open(os.path.join(d, f)) as fh:
                        for line in fh:
                            e = json.loads(line)
                            m[e["name"]] = e
                except Exception:
                    pass
        _L1["map"] = m
    return _L1["map"]


def discharge_cached(obls, tier, seed, use_cache=True):
    """results of `unsat` are cached (a) by the SHA-256 of the exact SMT-LIB text (which is generated from the current
    source), so an unchanged obligation is not solved twice across the checks of one session, and (b) - quick tier only - by
    obligation name under a key that hashes every source file of the package, the generator, the sidecar contracts and the
    checks: with all of those unchanged the same name denotes the same text, and serialising it again is skipped (the
    dependency closure makes every check carry several thousand shared obligations)"""
    os.makedirs(CACHE, exist_ok=True)
    if tier == "thorough" and any(getattr(o, "dependency", False) for o in obls):
        discharge_cached([o for o in obls if getattr(o, "dependency", False)], "quick", seed, use_cache)
        discharge_cached([o for o in obls if not getattr(o, "dependency", False)], tier, seed, use_cache)
        return obls
    todo = []
    l1 = _l1_load() if (use_cache and tier != "thorough") else {}
    names = {}
    for ob in obls:
        names[ob.name] = names.get(ob.name, 0) + 1
    fresh_l1 = []
    for ob in obls:
        if l1 and ob.kind not in GUARD_KINDS and names[ob.name] == 1 and ob.name in l1:
            e = l1[ob.name]
            ob.text, ob.key = "", e.get("key", "")
            ob.result, ob.backend, ob.time, ob.all_results, ob.cached = "unsat", e["backend"], e["time"], [], True
            continue
        ob.text = solve.to_smt2(ob)
        ob.key = cache_key(ob.text)
        ob.cached = False
        d = _smt_load().get(ob.key) if (use_cache and ob.kind not in GUARD_KINDS) else None
        if d is not None:
            ob.result, ob.backend, ob.time, ob.all_results, ob.cached = "unsat", d["backend"], d["time"], [], True
            continue
        todo.append(ob)
    rounds = solve.ROUNDS_THOROUGH if tier == "thorough" else solve.ROUNDS_QUICK
    solve.discharge(todo, rounds=rounds, seed=seed, both=(tier == "thorough"))
    solved = [ob for ob in todo if ob.result == "unsat" and ob.kind not in GUARD_KINDS]
    if solved and use_cache:
        try:
            d = os.path.join(CACHE, "bytext")
            os.makedirs(d, exist_ok=True)
            with open(os.path.join(d, "%d.jsonl" % os.getpid()), "a") as f:
                for ob in solved:
                    e = {"key": ob.key, "backend": ob.backend, "time": ob.time}
                    f.write(json.dumps(e) + "\n")
                    _smt_load()[ob.key] = e
        except OSError:
            pass        # the cache is an optimisation only
    if use_cache and tier != "thorough":
        d = os.path.join(CACHE, "byname", _l1_key())
        os.makedirs(d, exist_ok=True)
        new = [ob for ob in obls if ob.result == "unsat" and ob.kind not in GUARD_KINDS and names[ob.name] == 1 and ob.name not in l1
               and getattr(ob, "key", "")]
        if new:
            try:
                with open(os.path.join(d, "%d.jsonl" % os.getpid()), "a") as f:
                    for ob in new:
                        f.write(json.dumps({"name": ob.name, "backend": ob.backend, "time": ob.time, "key": ob.key}) + "\n")
                        l1[ob.name] = {"name": ob.name, "backend": ob.backend, "time": ob.time, "key": ob.key}
            except OSError:
                pass
    return obls


def select(obls, pid):
    return [o for o in obls if pid in o.props or o.kind in SUPPORT_KINDS]


def canary_verdict(obls):
    """vacuity guard: for every (function, outcome) at least one exit path must not be refutable; an outcome whose
    every path condition is contradictory means a vacuous contract (or dead code) -> checker fault"""
    per = {}
    for o in obls:
        if o.kind != "CANARY":
            continue
        fn = o.name.split("/CANARY:")[0]
        lab = o.name.split("/CANARY:")[1].split("/")[0]
        if o.result != "skipped":
            per.setdefault((fn, lab), []).append(o.result)
    dead = [k for k, v in per.items() if all(r == "unsat" for r in v)]
    return per, dead


def run_real(args, timeout=3600, env_extra=None):
    env = dict(os.environ)
    env["PYTHONPATH"] = REPO
    env.pop("ANYTREE_ASSERTIONS", None)
    if env_extra:
        env.update(env_extra)
    r = subprocess.run([PY_REAL] + args, capture_output=True, text=True, timeout=timeout, env=env, cwd=VERIF)
    return r


def harness_json(script, cmd, payload, timeout=3600, env_extra=None):
    os.makedirs(os.path.join(VERIF, "replays"), exist_ok=True)
    tmp = os.path.join(VERIF, "replays", "tmp_%d_%s.json" % (os.getpid(), cache_key(json.dumps(payload, sort_keys=True))[:8]))
    with open(tmp, "w") as f:
        json.dump(payload, f)
    try:
        r = run_real([os.path.join(VERIF, "harness", script), cmd, tmp], timeout=timeout, env_extra=env_extra)
        if r.returncode != 0:
            return {"error": (r.stderr or r.stdout)[-2000:]}
        return json.loads(r.stdout.strip().splitlines()[-1])
    finally:
        try:
            os.unlink(tmp)
        except OSError:
            pass


def solver_counterexample(obls, limit=2, timeout_ms=5000):
    """for obligations the solver refuted (`sat`): its model of (path condition and not goal), as text, for the replay file"""
    from z3 import Not, Solver, sat
    out = []
    for o in [o for o in obls if o.result == "sat" and o.pc is not None][:limit]:
        try:
            s = Solver()
            s.set("timeout", timeout_ms)
            s.add(*o.pc)
            s.add(Not(o.goal))
            if s.check() == sat:
                out.append({"obligation": o.name, "model": str(s.model())[:4000]})
        except Exception as e:       # noqa
            out.append({"obligation": o.name, "model": "unavailable: %s" % e})
    return out


def write_replay(res, name, payload):
    os.makedirs(os.path.join(VERIF, "replays"), exist_ok=True)
    h = cache_key(name)[:10]
    path = os.path.join(VERIF, "replays", "%s_%s.json" % (res.pid, h))
    with open(path, "w") as f:
        json.dump(payload, f, indent=1, default=str)
    return path


def evidence(res, coverage_extra=None):
    obls = [o for o in res.obligations if o.kind not in GUARD_KINDS]
    can = [o for o in res.obligations if o.kind in GUARD_KINDS]
    discharged = [o for o in obls if o.result == "unsat"]
    by_backend = {}
    for o in discharged:
        by_backend[o.backend] = by_backend.get(o.backend, 0) + 1
    kinds = {}
    for o in obls:
        kinds[o.kind] = kinds.get(o.kind, 0) + 1
    samples = []
    for o in obls[:: max(1, len(obls) // 4)][:4]:
        samples.append({"obligation": o.name, "kind": o.kind, "result": o.result, "backend": o.backend,
                        "seconds": o.time, "note": o.note, "smt2_head": getattr(o, "text", "")[-600:]})
    cov = {
        "obligations": len(obls) + len(res.struct),
        "discharged": len(discharged),
        "checker_cmd": "./check %s --tier %s" % (res.pid, res.tier),
        "trusted_base": res.trusted,
        "functions_under_contract": res.functions,
        "obligation_kinds": kinds,
        "discharged_by_backend": by_backend,
        "served_from_cache": len([o for o in obls if getattr(o, "cached", False)]),
        "solver_seconds": round(sum(o.time for o in res.obligations), 2),
        "slowest": [{"obligation": o.name, "seconds": o.time, "backend": o.backend}
                    for o in sorted(obls, key=lambda o: -o.time)[:3]],
        "canaries": {"count": len(can), "refutable_paths": len([o for o in can if o.result == "unsat"])},
        "second_backend_confirmations": len([o for o in obls if getattr(o, "second", None) and not str(o.second).startswith("DISAGREE")]),
        "not_accepted": [{"obligation": o.name, "result": o.result, "attempts": getattr(o, "all_results", [])}
                         for o in obls if o.result != "unsat"][:20],
        "struct_failures": [{"function": s.ident, "reason": s.msg} for s in res.struct],
        "bounded_parts": res.bounded,
        "lemmas": res.lemmas,
        "known_findings": res.known_lines,
        "samples": samples,
        "notes": res.notes,
    }
    if res.level != "proof":
        cov["explanation"] = res.extra.get("explanation", "")
    ev = sum(b.get("evaluations", 0) for b in res.bounded)
    if ev:
        cov["evaluations"] = ev
        cov["distinct_nontrivial"] = sum(b.get("distinct_nontrivial", 0) for b in res.bounded)
        cov["rule"] = "; ".join(b.get("rule", "") for b in res.bounded)
    if coverage_extra:
        cov.update(coverage_extra)
    cov.update(res.extra.get("coverage", {}))
    doc = {
        "property_id": res.pid, "tier": res.tier, "seed": res.seed, "level": res.level, "coverage": cov,
        "assumptions": res.assumptions, "wall_s": round(time.time() - res.t0, 2),
        "violations": len(res.violations),
    }
    # runs against a scratch copy of the repository (PYVC_REPO set: mutation experiments) never touch the evidence directory
    edir = "evidence" if REPO == "/repo" else os.path.join(".cache", "evidence_scratch")
    os.makedirs(os.path.join(VERIF, edir), exist_ok=True)
    with open(os.path.join(VERIF, edir, res.pid + ".json"), "w") as f:
        json.dump(doc, f, indent=1, default=str)
    return doc


def guard_faults(res):
    """vacuity / solver-soundness guards: a refuted input probe, or an outcome all of whose exit paths are refutable, means the
    hypotheses are inconsistent (or a solver is wrong): checker fault - unless the run already has a violation to report"""
    bad_probe = [o.name for o in res.obligations if o.kind == "PROBE" and o.result == "unsat"]
    per, dead = canary_verdict(res.obligations)
    if bad_probe:
        res.faults.append("input probe refuted (inconsistent hypotheses or unsound solver answer): %s" % bad_probe[:3])
    if dead and not res.violations:
        res.faults.append("outcome with only refutable exit paths: %s" % sorted("%s:%s" % k for k in dead)[:3])


def finish(res):
    guard_faults(res)
    if res.violations:
        res.faults = [f for f in res.faults if not f.startswith("outcome with only")]
    evidence(res)
    for line in res.known_lines:
        print("KNOWN-FINDING: property=%s %s" % (res.pid, line))
    if res.faults and not res.violations:
        for f in res.faults:
            print("CHECKER-FAULT: %s" % f)
        print("%s: checker fault (no verdict)" % res.pid)
        return 3
    if res.violations:
        for v in res.violations:
            rel = os.path.relpath(v["replay"], VERIF)
            print("VIOLATION property=%s replay=%s%s" % (res.pid, rel, "" if v.get("input_found") else " no-failing-input-found"))
        return 1
    obls = [o for o in res.obligations if o.kind not in GUARD_KINDS]
    print("%s: held - %d obligations discharged from %d functions (%s tier, %.1fs)"
          % (res.pid, len(obls), len(res.functions), res.tier, time.time() - res.t0))
    return 0
