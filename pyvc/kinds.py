"""Kind analysis for C17 (identity only): every operation of the listed modules that would hand a tree node (or a
sequence of tree nodes) to a user-overridable special method is an IDENT obligation.

In the assumed semantics each built-in operation has a precondition on operand kinds:
  truth test (if/while/not/and/or/assert/comprehension filter/conditional expression)      operand is not a node
  == != < <= > >=                                                                         no operand is a node or a node sequence
  in / not in                                                                             neither side is a node / node sequence
  len(x), iter(x)/for-loop over x, x[i], hashing (set, dict key, set(...))                x is not a node
  list.index / remove / count, sorted / min / max without key                             not applied to nodes
The analysis is flow-sensitive within a function body (assignments update the kind of a name), over-approximating:
a value is NODE / NODESEQ / NODESEQSEQ / PAIRS as soon as one source says so; everything that comes from user data
(attribute values other than the navigation API, callback results, strings, numbers) is OTHER."""
import ast

from . import frontend

NODE, SEQ, SEQSEQ, PAIRS, OTHER = "node", "nodeseq", "nodeseqseq", "pairs", "other"

NODE_ATTRS = {"parent", "root", "target", "node", "_NodeMixin__parent", "_LightNodeMixin__parent"}
SEQ_ATTRS = {"children", "path", "_path", "ancestors", "anchestors", "descendants", "siblings", "leaves",
             "_NodeMixin__children", "_LightNodeMixin__children", "_NodeMixin__children_or_empty",
             "_LightNodeMixin__children_or_empty"}
NODE_PARAMS = {"node", "child", "parent", "start", "end", "root", "subnode", "target", "value", "self_node", "child_"}
SEQ_PARAMS = {"children", "nodes", "old_children", "startpath", "endpath", "start_", "matches"}
SEQ_CALLS = {"PreOrderIter", "PostOrderIter", "LevelOrderIter", "iter_path_reverse", "_get_children", "_get_grandchildren",
             "__calc_common", "_Walker__calc_common", "findall", "findall_by_attr", "_findall", "__glob", "__find", "glob",
             "commonancestors", "childiter", "_iter", "__next", "_AbstractIter__init", "__init"}
SEQSEQ_CALLS = {"LevelOrderGroupIter", "ZigZagGroupIter"}
NODE_CALLS = {"find", "find_by_attr", "_find", "__get", "get", "leftsibling", "rightsibling", "nodecls", "__import", "import_"}
PAIR_CALLS = {"_is_last"}
SAME_KIND = {"tuple", "list", "reversed", "iter", "sorted_with_key"}


class Site:
    def __init__(self, func, lineno, what, expr):
        self.func, self.lineno, self.what, self.expr = func, lineno, what, expr


class Analyzer(ast.NodeVisitor):
    def __init__(self, relpath, qual, fn, is_method, cls):
        self.relpath, self.qual, self.fn, self.cls = relpath, qual, fn, cls
        self.env = {}
        self.sites = []
        a = fn.args
        names = [x.arg for x in a.posonlyargs + a.args + a.kwonlyargs]
        for i, n in enumerate(names):
            if i == 0 and is_method and n == "self":
                self.env[n] = NODE if cls in ("NodeMixin", "LightNodeMixin", "SymlinkNodeMixin", "Node", "AnyNode", "SymlinkNode") else OTHER
            elif n == "value" and cls not in ("NodeMixin", "LightNodeMixin"):
                self.env[n] = OTHER        # user data (search value, attribute value); a node only in the parent setter
            elif n in ("start", "end") and cls != "Walker":
                self.env[n] = OTHER        # strings of the styles / slices; nodes only in Walker.walk
            elif n in NODE_PARAMS:
                self.env[n] = NODE
            elif n in SEQ_PARAMS:
                self.env[n] = SEQ
            else:
                self.env[n] = OTHER
        if a.vararg and a.vararg.arg in ("nodes",):
            self.env[a.vararg.arg] = SEQ

    def flag(self, node, what):
        self.sites.append(Site("%s:%s" % (self.relpath, self.qual), getattr(node, "lineno", 0), what, ast.unparse(node)[:80]))

    # ------------------------------------------------------------------ kinds of expressions
    def kind(self, e):
        if isinstance(e, ast.Name):
            return self.env.get(e.id, OTHER)
        if isinstance(e, ast.Constant):
            return OTHER
        if isinstance(e, ast.Attribute):
            a = frontend.mangle(self.cls, e.attr)
            if a in NODE_ATTRS:
                return NODE
            if a in SEQ_ATTRS:
                return SEQ
            return OTHER
        if isinstance(e, ast.Subscript):
            k = self.kind(e.value)
            if isinstance(e.slice, ast.Slice):
                return k
            return {SEQ: NODE, SEQSEQ: SEQ, PAIRS: OTHER}.get(k, OTHER if k != NODE else NODE)
        if isinstance(e, ast.Call):
            f = e.func
            nm = f.id if isinstance(f, ast.Name) else (frontend.mangle(self.cls, f.attr) if isinstance(f, ast.Attribute) else None)
            if nm in ("tuple", "list", "reversed", "iter") and e.args:
                return self.kind(e.args[0])
            if nm == "sorted" and e.args:
                return self.kind(e.args[0])
            if nm == "next" and e.args:
                return {SEQ: NODE, SEQSEQ: SEQ}.get(self.kind(e.args[0]), OTHER)
            if nm == "zip":
                ks = [self.kind(a.value if isinstance(a, ast.Starred) else a) for a in e.args]
                return SEQSEQ if any(k in (SEQ, SEQSEQ) for k in ks) else OTHER
            if nm == "enumerate":
                return PAIRS if e.args and self.kind(e.args[0]) == SEQ else OTHER
            if nm in SEQSEQ_CALLS:
                return SEQSEQ
            if nm in SEQ_CALLS or (nm or "").endswith("__glob") or (nm or "").endswith("__find") or (nm or "").endswith("__calc_common"):
                return SEQ
            if nm in NODE_CALLS or (nm or "").endswith("__get") or (nm or "").endswith("__import"):
                return NODE
            if nm in PAIR_CALLS:
                return PAIRS
            return OTHER
        if isinstance(e, (ast.Tuple, ast.List)):
            ks = [self.kind(x) for x in e.elts]
            if any(k == NODE for k in ks):
                return SEQ
            if any(k in (SEQ, SEQSEQ) for k in ks):
                return SEQSEQ
            return OTHER
        if isinstance(e, ast.BinOp):
            l, r = self.kind(e.left), self.kind(e.right)
            return l if l in (SEQ, SEQSEQ) else (r if r in (SEQ, SEQSEQ) else OTHER)
        if isinstance(e, ast.IfExp):
            return self.join(self.kind(e.body), self.kind(e.orelse))
        if isinstance(e, ast.BoolOp):
            k = OTHER
            for v in e.values:
                k = self.join(k, self.kind(v))
            return k
        if isinstance(e, (ast.ListComp, ast.GeneratorExp, ast.SetComp)):
            saved = dict(self.env)
            for g in e.generators:
                self.bind(g.target, self.elem(self.kind(g.iter)))
            k = self.kind(e.elt)
            self.env = saved
            return SEQ if k == NODE else (SEQSEQ if k == SEQ else OTHER)
        return OTHER

    @staticmethod
    def join(a, b):
        order = [OTHER, PAIRS, NODE, SEQ, SEQSEQ]
        return a if order.index(a) >= order.index(b) else b

    @staticmethod
    def elem(k):
        return {SEQ: NODE, SEQSEQ: SEQ, PAIRS: PAIRS}.get(k, OTHER)

    def bind(self, target, k):
        if isinstance(target, ast.Name):
            self.env[target.id] = k
        elif isinstance(target, (ast.Tuple, ast.List)):
            if k == PAIRS:
                # (index, node) from enumerate / (node, flag) from _is_last: every component may be the node
                for t in target.elts:
                    self.bind(t, NODE if isinstance(t, ast.Name) and t.id not in ("i", "idx", "depth", "size", "is_last", "_") else OTHER)
            elif k == SEQ:
                for t in target.elts:
                    self.bind(t, NODE)
            else:
                for t in target.elts:
                    self.bind(t, OTHER)

    # ------------------------------------------------------------------ operations with preconditions
    def truth(self, e):
        if isinstance(e, ast.BoolOp):
            for v in e.values:
                self.truth(v)
            return
        if isinstance(e, ast.UnaryOp) and isinstance(e.op, ast.Not):
            self.truth(e.operand)
            return
        if isinstance(e, ast.Compare):
            return
        if self.kind(e) == NODE:
            self.flag(e, "truth value of a node (invokes __bool__/__len__)")

    def visit_If(self, n):
        self.truth(n.test)
        self.generic_visit(n)

    def visit_While(self, n):
        self.truth(n.test)
        self.generic_visit(n)

    def visit_IfExp(self, n):
        self.truth(n.test)
        self.generic_visit(n)

    def visit_Assert(self, n):
        self.truth(n.test)
        self.generic_visit(n)

    def visit_UnaryOp(self, n):
        if isinstance(n.op, ast.Not):
            self.truth(n.operand)
        self.generic_visit(n)

    def visit_BoolOp(self, n):
        for v in n.values[:-1]:
            self.truth(v)
        self.generic_visit(n)

    def visit_Compare(self, n):
        operands = [n.left] + n.comparators
        for op, a, b in zip(n.ops, operands, operands[1:]):
            if isinstance(op, (ast.Is, ast.IsNot)):
                continue
            ka, kb = self.kind(a), self.kind(b)
            if isinstance(op, (ast.In, ast.NotIn)):
                if ka in (NODE, SEQ) or kb in (NODE, SEQ, SEQSEQ):
                    self.flag(n, "membership test involving nodes (invokes __eq__/__contains__)")
            elif ka in (NODE, SEQ, SEQSEQ) or kb in (NODE, SEQ, SEQSEQ):
                self.flag(n, "comparison of nodes with %s (invokes __eq__/ordering)" % type(op).__name__)
        self.generic_visit(n)

    def visit_For(self, n):
        k = self.kind(n.iter)
        if k == NODE:
            self.flag(n.iter, "iteration over a node (invokes __iter__)")
        self.bind(n.target, self.elem(k))
        self.generic_visit(n)

    def visit_comprehension(self, g):
        k = self.kind(g.iter)
        if k == NODE:
            self.flag(g.iter, "iteration over a node (invokes __iter__)")
        self.bind(g.target, self.elem(k))
        for c in g.ifs:
            self.truth(c)
        self.generic_visit(g)

    def comp(self, n):
        saved = dict(self.env)
        for g in n.generators:
            self.visit_comprehension(g)
        self.visit(n.elt) if hasattr(n, "elt") else None
        self.env = saved

    visit_ListComp = visit_GeneratorExp = visit_SetComp = comp

    def visit_Assign(self, n):
        self.generic_visit(n)
        k = self.kind(n.value)
        for t in n.targets:
            if isinstance(t, ast.Name):
                self.env[t.id] = k
            elif isinstance(t, (ast.Tuple, ast.List)):
                self.bind(t, k if k in (SEQ, PAIRS) else OTHER)
            elif isinstance(t, ast.Subscript) and self.kind(t.slice) == NODE:
                self.flag(t, "node used as dictionary key (invokes __hash__/__eq__)")

    def visit_AugAssign(self, n):
        self.generic_visit(n)
        if isinstance(n.target, ast.Name):
            self.env[n.target.id] = self.join(self.env.get(n.target.id, OTHER), self.kind(n.value))

    def visit_Subscript(self, n):
        if self.kind(n.value) == NODE:
            self.flag(n, "subscript of a node (invokes __getitem__)")
        elif self.kind(n.value) == OTHER and not isinstance(n.slice, ast.Slice) and self.kind(n.slice) == NODE:
            self.flag(n, "node used as key (invokes __hash__/__eq__)")
        self.generic_visit(n)

    def visit_Call(self, n):
        f = n.func
        nm = f.id if isinstance(f, ast.Name) else (f.attr if isinstance(f, ast.Attribute) else None)
        args = [a.value if isinstance(a, ast.Starred) else a for a in n.args]
        if nm in ("len", "iter", "hash", "bool") and args and self.kind(args[0]) == NODE:
            self.flag(n, "%s() of a node" % nm)
        if nm in ("set", "frozenset", "dict") and args and self.kind(args[0]) in (SEQ, NODE):
            self.flag(n, "%s() of nodes (invokes __hash__/__eq__)" % nm)
        if nm in ("min", "max", "sorted") and args and self.kind(args[0]) == SEQ and not any(k.arg == "key" for k in n.keywords):
            self.flag(n, "%s() of nodes (invokes ordering)" % nm)
        if nm in ("index", "remove", "count") and isinstance(f, ast.Attribute) and self.kind(f.value) in (SEQ,) and args \
                and self.kind(args[0]) == NODE:
            self.flag(n, "list.%s(node) (invokes __eq__)" % nm)
        if nm == "add" and isinstance(f, ast.Attribute) and args and self.kind(args[0]) == NODE:
            self.flag(n, "set.add(node) (invokes __hash__/__eq__)")
        self.generic_visit(n)

    def visit_Set(self, n):
        if any(self.kind(e) == NODE for e in n.elts):
            self.flag(n, "set display containing nodes")
        self.generic_visit(n)

    def visit_Dict(self, n):
        if any(k is not None and self.kind(k) == NODE for k in n.keys):
            self.flag(n, "dict display keyed by nodes")
        self.generic_visit(n)

    def visit_FunctionDef(self, n):
        if n is self.fn:
            for st in n.body:
                self.visit(st)
        else:
            sub = Analyzer(self.relpath, self.qual + "." + n.name, n, False, self.cls)
            sub.env.update({k: v for k, v in self.env.items() if k not in sub.env or sub.env[k] == OTHER})
            sub.visit(n)
            self.sites += sub.sites

    def visit_Lambda(self, n):
        saved = dict(self.env)
        for a in n.args.args:
            self.env[a.arg] = NODE if a.arg in NODE_PARAMS | {"n", "x"} else OTHER
        self.visit(n.body)
        self.env = saved


def analyze_file(relpath):
    """returns (number of functions analysed, [Site])"""
    tree = frontend.parse(relpath)
    sites, count = [], 0

    def do(fn, cls):
        nonlocal count
        count += 1
        is_method = cls is not None and not any(isinstance(d, ast.Name) and d.id == "staticmethod" for d in fn.decorator_list)
        a = Analyzer(relpath, ("%s.%s" % (cls, fn.name)) if cls else fn.name, fn, is_method, cls)
        a.visit(fn)
        sites.extend(a.sites)
    for n in tree.body:
        if isinstance(n, ast.FunctionDef):
            do(n, None)
        elif isinstance(n, ast.ClassDef):
            for m in n.body:
                if isinstance(m, ast.FunctionDef):
                    do(m, n.name)
        elif isinstance(n, ast.Try):
            for h in [n] + n.handlers:
                for m in h.body:
                    if isinstance(m, ast.FunctionDef):
                        do(m, None)
    return count, sites
