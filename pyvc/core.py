"""Path-wise symbolic executor = verification-condition generator (DESIGN.md 2.3).

Forward execution of one extracted function body.  Loops are cut at sidecar invariants, calls are replaced
by the callee's contract (a caller never sees a callee body), every path ends in a normal exit, an
exceptional exit, a loop back-edge or a call site, and each such end point yields named obligations.

This module holds the control-flow skeleton and the generic expression forms; the meaning of attribute
access, calls and built-ins on the different kinds of values lives in the world modules (heapworld, seqworld).
"""
import ast

from z3 import And, BoolVal, Const, If, Implies, Int, IntVal, Not, Or, is_true, is_false, simplify, BoolSort

from . import frontend
from .heap import B, I, NONE, R, ASeq, State, fresh, fresh_const


class Unsupported(Exception):
    """statement / expression form outside the interpreted subset -> STRUCT failure of the function"""


class V:
    """symbolic value: kind + z3 term (or python payload)"""
    __slots__ = ("k", "t", "x")

    def __init__(self, k, t, x=None):
        self.k, self.t, self.x = k, t, x

    def __repr__(self):
        return "V(%s,%s)" % (self.k, self.t)


def vref(t):
    return V("ref", t)


def vbool(t):
    return V("bool", t if not isinstance(t, bool) else BoolVal(t))


def vint(t):
    return V("int", t if not isinstance(t, int) else IntVal(t))


VNONE = V("ref", NONE)


class Exc:
    """exception in flight: class name (static), site label, optional payload"""

    def __init__(self, cls, site, payload=None):
        self.cls, self.site, self.payload = cls, site, payload

    def __repr__(self):
        return "%s@%s" % (self.cls, self.site)


# static exception hierarchy (library classes + the built-ins the code relies on)
EXC_PARENTS = {
    "BaseException": None, "Exception": "BaseException", "RuntimeError": "Exception",
    "TreeError": "RuntimeError", "LoopError": "TreeError",
    "ResolverError": "RuntimeError", "ChildResolverError": "ResolverError", "RootResolverError": "ResolverError",
    "CountError": "RuntimeError", "WalkError": "RuntimeError",
    "AttributeError": "Exception", "LookupError": "Exception", "KeyError": "LookupError", "IndexError": "LookupError",
    "StopIteration": "Exception", "TypeError": "Exception", "ValueError": "Exception",
    "AssertionError": "Exception", "NotImplementedError": "RuntimeError", "UnboundLocalError": "Exception",
    # exception of unknown class raised by user code (hook / callback): only known to be an Exception
    "UserExc": "Exception",
}


def exc_isa(cls, base):
    while cls is not None:
        if cls == base:
            return True
        cls = EXC_PARENTS.get(cls)
    return False


class Obligation:
    def __init__(self, name, kind, pc, goal, props=(), note=""):
        self.name, self.kind, self.pc, self.goal, self.props, self.note = name, kind, list(pc), goal, set(props), note
        self.result = None
        self.time = 0.0
        self.backend = None


class Path:
    def __init__(self, env, S, pc, trace=None, out=None, extra=None):
        self.env, self.S, self.pc = env, S, pc
        self.trace = trace if trace is not None else []
        self.out = out          # generator output so far (world specific)
        self.extra = extra if extra is not None else {}
        self.cur_exc = None

    def fork(self, cond=None, label=None):
        p = Path(dict(self.env), self.S, list(self.pc), list(self.trace), self.out, dict(self.extra))
        p.cur_exc = self.cur_exc
        if cond is not None:
            p.pc.append(cond)
        if label:
            p.trace.append(label)
        return p

    def assume(self, *conds):
        self.pc.extend(conds)
        return self

    def set_state(self, S):
        """install a new heap state; its view-definition axioms become part of the path condition"""
        self.S = S
        self.pc.extend(getattr(S, "axioms", []))
        return self


class Exit:
    def __init__(self, kind, path, value=None, exc=None):
        self.kind, self.path, self.value, self.exc = kind, path, value, exc

    @property
    def label(self):
        return "return" if self.kind == "return" else "raise:%r" % (self.exc,)


class IterSeq:
    """python-level view of something a `for` loop can run over: symbolic length + element accessor"""

    def __init__(self, n, at, static=None, desc=""):
        self.n, self.at, self.static, self.desc = n, at, static, desc


class _AliasEnv(dict):
    """environment handed to a sidecar invariant: a name the invariant refers to but the current source no longer has (a
    harmless rename of a local) is looked up through `alias` (see Exec.loop_aliases)"""

    def __init__(self, env, alias, used):
        dict.__init__(self, env)
        self._alias, self._used = alias, used

    def __getitem__(self, k):
        self._used.add(k)
        if not dict.__contains__(self, k) and k in self._alias:
            k = self._alias[k]
        return dict.__getitem__(self, k)

    def __contains__(self, k):
        return dict.__contains__(self, k) or (k in self._alias and dict.__contains__(self, self._alias[k]))

    def get(self, k, d=None):
        try:
            return self[k]
        except KeyError:
            return d


class LoopCtx:
    """what a sidecar loop invariant may refer to"""

    def __init__(self, ex, i, seq, v, S, out, pre_v, S_pre, out_pre, fn, extra=None):
        alias = getattr(ex, "_alias", {})
        used = getattr(ex, "_used", set())
        self.ex, self.i, self.seq, self.S, self.out = ex, i, seq, S, out
        self.v = _AliasEnv(v, alias, used)
        self.pre_v = _AliasEnv(pre_v, alias, used)
        self.S_pre, self.out_pre, self.fn = S_pre, out_pre, fn
        self.extra = extra or {}

    def t(self, name):
        return self.v[name].t


class LoopSpec:
    """inv(L) -> [(name, formula)];  hints(L) -> instances of spec-function definitions (assumed wherever the
    invariant is assumed or has to be shown)"""

    def __init__(self, inv, mods=(), vars_kinds=None, note="", hints=None):
        self.inv, self.mods, self.vars_kinds, self.note, self.hints = inv, mods, vars_kinds or {}, note, hints

    def hint(self, L):
        return list(self.hints(L)) if self.hints else []


def assigned_names(stmts):
    out = []
    for st in stmts:
        for n in frontend._walk_noscope(st):
            if isinstance(n, ast.Name) and isinstance(n.ctx, (ast.Store, ast.Del)) and n.id not in out:
                out.append(n.id)
    return out


def _maybe_true(t):
    t = simplify(t)
    return not is_false(t)


def _qfree(f):
    from z3 import is_quantifier, is_app
    todo, seen = [f], set()
    while todo:
        t = todo.pop()
        if t.get_id() in seen:
            continue
        seen.add(t.get_id())
        if is_quantifier(t):
            return False
        todo.extend(t.children())
    return True


_qf_cache = {}


def feasible(pc, cond=None):
    """cheap pruning of infeasible forks: the quantifier-free part of the path condition (plus cond) is checked
    with a tiny budget; only a definite `unsat` prunes (sound: dropping hypotheses never makes a path infeasible)."""
    from z3 import Solver, unsat
    s = Solver()
    s.set("timeout", 300)
    for f in pc:
        k = f.get_id()
        if k not in _qf_cache:
            _qf_cache[k] = _qfree(f)
        if _qf_cache[k]:
            s.add(f)
    if cond is not None:
        s.add(cond)
    return s.check() != unsat


class Exec:
    """one symbolic execution of one function body"""

    def __init__(self, fi, loops=None, props=(), cls_for_mangle=None):
        self.fi = fi
        self.loops = loops or {}
        self.props = set(props)
        self.obl = []
        self.exits = []
        self.handlers = []     # stack of lists of (path, Exc)
        self.loopstack = []    # stack of dicts {breaks:[], continues:[]}
        self.if_ord = 0
        self.loop_ord = 0
        self.call_ord = 0
        self.fnctx = None
        self.mcls = cls_for_mangle if cls_for_mangle is not None else fi.cls
        self.notes = []
        self._ord_cache = {}

    # ------------------------------------------------------------------ bookkeeping
    ORD_KINDS = {ast.If: "if", ast.For: "loop", ast.While: "loop", ast.Assert: "assert", ast.Raise: "raise",
                 ast.BoolOp: "boolop", ast.IfExp: "ifexp", ast.Call: "call", ast.Try: "try",
                 ast.ListComp: "comp", ast.GeneratorExp: "comp"}

    def _number(self, body):
        """syntactic ordinals (stable under renames and line shifts)"""
        counts = {}
        def visit(n):
            k = self.ORD_KINDS.get(type(n))
            if k is not None:
                self._ord_cache[(k, id(n))] = counts.get(k, 0)
                counts[k] = counts.get(k, 0) + 1
            for c in ast.iter_child_nodes(n):
                visit(c)
        for st in body:
            visit(st)

    def ordinal(self, node, kind):
        key = (kind, id(node))
        if key not in self._ord_cache:
            if not self._ord_cache.get("numbered"):
                self._ord_cache["numbered"] = True
                self._number(self.fi.body)
                if key in self._ord_cache:
                    return self._ord_cache[key]
            n = 1000 + sum(1 for k in self._ord_cache if isinstance(k, tuple) and k[0] == kind)
            self._ord_cache[key] = n
        return self._ord_cache[key]

    def oblig(self, p, kind, name, goal, props=None, note=""):
        if isinstance(goal, bool):
            goal = BoolVal(goal)
        full = "%s/%s:%s/%s" % (self.fi.ident, kind, name, ">".join(p.trace))
        self.obl.append(Obligation(full, kind, p.pc, goal, props if props is not None else self.props, note))

    def raise_(self, p, exc):
        p.trace.append("raise:%s@%s" % (exc.cls, exc.site))
        if self.handlers:
            self.handlers[-1].append((p, exc))
        else:
            self.exits.append(Exit("raise", p, exc=exc))

    def mangle(self, attr):
        return frontend.mangle(self.mcls, attr)

    # ------------------------------------------------------------------ helpers without a contract: executed through
    def find_helper(self, name, cls=None, role=None):
        """a function of the file under verification that has no contract of its own (typically split off a function under
        contract): module-level function `name`, or member `name` of class `cls`; None if there is none"""
        try:
            if cls is None:
                return frontend.get_function(self.fi.relpath, None, name)
            ms = frontend.members(self.fi.relpath, cls)
            for (nm, r), fi in ms.items():
                if nm == frontend.mangle(cls, name) and (role is None or r == role):
                    return fi
        except frontend.StructError:
            return None
        return None

    def mark_inplace(self, p, name):
        """the local `name` models a mutable object updated in place (a helper called with it sees and makes the updates)"""
        p.extra["inplace"] = frozenset(p.extra.get("inplace", frozenset())) | {name}

    def s_FunctionDef(self, st, p):
        # a nested function: bound as a local; a call runs its body in place with the variables of the enclosing activation visible
        if st.decorator_list:
            raise Unsupported("decorated nested function %s" % st.name)
        p.env[st.name] = V("localfn", st)
        return [p]

    def call_local(self, st, pos, kw, p, argnodes=()):
        fi = frontend.FuncInfo(self.fi.relpath, self.fi.cls, "%s.<locals>.%s" % (self.fi.name, st.name), "function", st,
                               frontend.strip_doc(st.body), [])
        yield from self.inline_call(fi, pos, kw, p, argnodes, closure=True)

    def inline_call(self, fi, pos, kw, p, argnodes=(), closure=False):
        """call of a helper without contract: its body is executed symbolically in place (copy-in of the arguments, copy-out of
        in-place updates of mutable locals passed by name); no recursion, no generators, loops need an invariant and have none"""
        stack = getattr(self, "_inline_stack", [])
        if fi.ident in stack or len(stack) >= 3:
            raise Unsupported("helper %s without a contract is recursive / nested too deeply" % fi.ident)
        is_gen = any(isinstance(n, (ast.Yield, ast.YieldFrom)) for n in ast.walk(fi.node))
        if is_gen and not (closure and hasattr(self, "local_gen_start")):
            raise Unsupported("generator helper %s has no contract" % fi.ident)
        a = fi.node.args
        if a.vararg or a.kwarg or a.kwonlyargs:
            raise Unsupported("helper %s with star parameters has no contract" % fi.ident)
        names = [x.arg for x in a.posonlyargs + a.args]
        if len(pos) > len(names):
            raise Unsupported("too many arguments for helper %s" % fi.ident)
        bind = dict(zip(names, pos))
        for k, v in kw.items():
            if k not in names or k in bind:
                raise Unsupported("keyword %s for helper %s" % (k, fi.ident))
            bind[k] = v
        defaults = dict(zip(names[len(names) - len(a.defaults):], a.defaults))
        for n in names:
            if n not in bind:
                d = defaults.get(n)
                if not isinstance(d, ast.Constant) or not (d.value is None or isinstance(d.value, (bool, int, str))):
                    raise Unsupported("parameter %s of helper %s: missing or non-constant default" % (n, fi.ident))
                for q, v in self.ev(d, p):
                    bind[n] = v
        # which caller locals were passed by plain name (for the copy-out of in-place updates)
        byname = {}
        for n, node in zip(names, argnodes):
            if isinstance(node, ast.Name):
                if node.id in byname.values():
                    raise Unsupported("the same local passed twice to helper %s" % fi.ident)
                byname[n] = node.id
        saved = (self.fi, self.mcls, self.exits, self.handlers, self.loopstack, self._ord_cache, self.loops)
        q = p.fork(label="inline:%s" % fi.name)
        caller_env, caller_inplace, caller_out = dict(q.env), q.extra.get("inplace", frozenset()), q.out
        q.env = dict(caller_env, **bind) if closure else dict(bind)
        q.extra["inplace"] = frozenset()
        if is_gen:
            # a nested generator function consumed on the spot: executed eagerly, its output is the value of the call
            q.out = self.local_gen_start(fi)
        if closure:
            # same syntactic unit as the enclosing function: loop invariants and ordinals are the enclosing function's
            self.exits, self.handlers, self.loopstack = [], [], []
        else:
            self.fi, self.mcls, self.exits, self.handlers, self.loopstack, self._ord_cache, self.loops = fi, fi.cls, [], [], [], {}, {}
        self._inline_stack = stack + [fi.ident]
        try:
            live = self.block(fi.body, [q])
            exits = self.exits
        finally:
            self.fi, self.mcls, self.exits, self.handlers, self.loopstack, self._ord_cache, self.loops = saved
            self._inline_stack = stack

        def back(r):
            env = dict(caller_env)
            for prm in r.extra.get("inplace", frozenset()):
                if prm in byname and prm in r.env:
                    env[byname[prm]] = r.env[prm]
                    caller_in = caller_inplace | {byname[prm]}
                else:
                    caller_in = caller_inplace
                r.extra["inplace"] = caller_in
            if not r.extra.get("inplace"):
                r.extra["inplace"] = caller_inplace
            r.env = env
            r.trace.append("return:%s" % fi.name)
            return r

        def result(r, v):
            if is_gen:
                v = self.local_gen_value(r)
                r.out = caller_out
            return v
        for r in live:
            v = result(r, VNONE)
            yield back(r), v
        for ex in exits:
            if ex.kind == "return":
                v = result(ex.path, ex.value)
                yield back(ex.path), v
                continue
            if is_gen:
                ex.path.out = caller_out
            self.raise_(back(ex.path), ex.exc)

    # ------------------------------------------------------------------ statements
    def run(self, p):
        live = self.block(self.fi.body, [p])
        for q in live:
            self.exits.append(Exit("return", q, VNONE))
        return self.exits

    def block(self, stmts, live):
        for st in stmts:
            nxt = []
            for q in live:
                nxt += self.stmt(st, q)
            live = nxt
            if not live:
                break
        return live

    def stmt(self, st, p):
        m = getattr(self, "s_" + type(st).__name__, None)
        if m is None:
            raise Unsupported("statement %s: %s" % (type(st).__name__, ast.unparse(st)[:80]))
        return m(st, p)

    def s_Pass(self, st, p):
        return [p]

    def s_AnnAssign(self, st, p):
        # `x: T = v` is `x = v`; a bare annotation `x: T` does nothing at run time (annotations of locals are not evaluated)
        if st.value is None:
            return [p]
        return self.stmt(ast.copy_location(ast.Assign(targets=[st.target], value=st.value, type_comment=None), st), p)

    def e_NamedExpr(self, e, p):
        # `(name := value)`: binds the local and is the value
        for q, v in self.ev(e.value, p):
            if not isinstance(e.target, ast.Name):
                raise Unsupported("walrus target")
            q.env[e.target.id] = v
            yield q, v

    def s_Expr(self, st, p):
        if isinstance(st.value, (ast.Yield, ast.YieldFrom)):
            return self.s_yield(st.value, p)
        return [q for q, _ in self.ev(st.value, p)]

    def s_If(self, st, p):
        o = self.ordinal(st, "if")
        out = []
        for q, c in self.ev_truth(st.test, p):
            for val, body in ((True, st.body), (False, st.orelse)):
                cond = c if val else Not(c)
                if not _maybe_true(cond) or not feasible(q.pc, cond):
                    continue
                r = q.fork(cond, "if%d:%s" % (o, "T" if val else "F"))
                # `if x:` / `if not x:` over a local: the branch knows x's truth value (same narrowing as `x or y`)
                t, pos = st.test, val
                if isinstance(t, ast.UnaryOp) and isinstance(t.op, ast.Not):
                    t, pos = t.operand, not val
                if isinstance(t, ast.Name) and t.id in r.env and hasattr(self, "narrow"):
                    r.env[t.id] = self.narrow(r.env[t.id], pos)
                elif (isinstance(t, ast.Call) and isinstance(t.func, ast.Name) and t.func.id == "isinstance" and len(t.args) == 2
                      and isinstance(t.args[0], ast.Name) and t.args[0].id in r.env and hasattr(self, "narrow_isinstance")):
                    r.env[t.args[0].id] = self.narrow_isinstance(r.env[t.args[0].id], t.args[1], pos, r)
                out += self.block(body, [r])
        return out

    def s_Assert(self, st, p):
        out = []
        for q, c in self.ev_truth(st.test, p):
            self.oblig(q, "ASSERT", "assert%d" % self.ordinal(st, "assert"), c, props={"C01"} | self.props,
                       note=ast.unparse(st.test))
            q.assume(c)
            out.append(q)
        return out

    def s_Return(self, st, p):
        if st.value is None:
            self.exits.append(Exit("return", p, VNONE))
            return []
        for q, v in self.ev(st.value, p):
            self.exits.append(Exit("return", q, v))
        return []

    def s_Raise(self, st, p):
        if st.exc is None:
            if p.cur_exc is None:
                raise Unsupported("bare raise outside handler")
            ce = p.cur_exc
            self.raise_(p, Exc(ce.cls, "reraise:" + ce.site, ce.payload))
            return []
        e = st.exc
        if isinstance(e, ast.Name) and e.id in p.env and p.env[e.id].k == "exc":
            self.raise_(p, p.env[e.id].x)
            return []
        cls, args = None, []
        if isinstance(e, ast.Call) and isinstance(e.func, ast.Name):
            cls, args = e.func.id, e.args
        elif isinstance(e, ast.Name):
            cls = e.id
        if cls not in EXC_PARENTS:
            raise Unsupported("raise of %s" % ast.unparse(e))
        for q, vs in self.evs(args, p):
            self.raise_(q, Exc(cls, "explicit%d" % self.ordinal(st, "raise"), vs))
        return []

    def s_Try(self, st, p):
        if st.finalbody:
            raise Unsupported("try/finally")
        self.handlers.append([])
        body_out = self.block(st.body, [p])
        raised = self.handlers.pop()
        if st.orelse:
            body_out = self.block(st.orelse, body_out)
        out = list(body_out)
        for q, exc in raised:
            for h in st.handlers:
                if self.handler_matches(exc, h.type):
                    q.trace.append("except:%s" % (ast.unparse(h.type) if h.type is not None else "*"))
                    if h.name:
                        q.env[h.name] = V("exc", None, exc)
                    saved = q.cur_exc
                    q.cur_exc = exc
                    res = self.block(h.body, [q])
                    for r in res:
                        r.cur_exc = saved
                    out += res
                    break
            else:
                self.raise_(q, exc)
        return out

    def handler_matches(self, exc, typ):
        if typ is None:
            return True
        names = [typ] if not isinstance(typ, ast.Tuple) else typ.elts
        for n in names:
            if not isinstance(n, ast.Name) or n.id not in EXC_PARENTS:
                raise Unsupported("except clause %s" % ast.unparse(typ))
            if exc_isa(exc.cls, n.id):
                return True
        return False

    def s_Break(self, st, p):
        self.loopstack[-1]["breaks"].append(p)
        return []

    def s_Continue(self, st, p):
        self.loopstack[-1]["continues"].append(p)
        return []

    def s_Assign(self, st, p):
        out = []
        for q, v in self.ev(st.value, p):
            qs = [q]
            for tgt in st.targets:
                nq = []
                for r in qs:
                    nq += self.assign(tgt, v, r)
                qs = nq
            out += qs
        return out

    def s_AugAssign(self, st, p):
        load = ast.copy_location(ast.BinOp(left=_as_load(st.target), op=st.op, right=st.value), st)
        out = []
        for q, v in self.ev(load, p):
            out += self.assign(st.target, v, q, aug=True)
        return out

    def assign(self, tgt, v, p, aug=False):
        if isinstance(tgt, ast.Name):
            p.env[tgt.id] = v
            return [p]
        if isinstance(tgt, (ast.Tuple, ast.List)):
            parts = self.unpack(v, len(tgt.elts), p)
            qs = [p]
            for t, pv in zip(tgt.elts, parts):
                nq = []
                for r in qs:
                    nq += self.assign(t, pv, r)
                qs = nq
            return qs
        if isinstance(tgt, ast.Attribute):
            out = []
            for q, obj in self.ev(tgt.value, p):
                out += self.attr_store(obj, self.mangle(tgt.attr), v, q, tgt)
            return out
        if isinstance(tgt, ast.Subscript):
            out = []
            for q, (obj, key) in self.evs2(tgt.value, tgt.slice, p):
                out += self.subscript_store(obj, key, v, q)
            return out
        raise Unsupported("assignment target %s" % ast.unparse(tgt))

    def unpack(self, v, n, p):
        if v.k == "tuple" and len(v.t) == n:
            return list(v.t)
        raise Unsupported("unpack of %r into %d" % (v, n))

    def s_Delete(self, st, p):
        qs = [p]
        for tgt in st.targets:
            nq = []
            for q in qs:
                if isinstance(tgt, ast.Attribute):
                    for r, obj in self.ev(tgt.value, q):
                        nq += self.attr_delete(obj, self.mangle(tgt.attr), r)
                elif isinstance(tgt, ast.Name) and tgt.id in q.env:
                    # `del tmp`: the local is unbound from here on
                    q.env.pop(tgt.id)
                    nq.append(q)
                else:
                    raise Unsupported("del %s" % ast.unparse(tgt))
            qs = nq
        return qs

    # ------------------------------------------------------------------ loops
    def loop_aliases(self, spec, mk_ctx, p, loop_names):
        """Invariants refer to program variables by name.  If a name is missing in the current source (a harmless rename of a
        local), map it to the one loop variable the invariant does not mention; ambiguous or impossible -> the KeyError surfaces
        as a STRUCT failure.  Sound: any invariant that verifies is an invariant."""
        self._alias = dict(getattr(self, "_alias", {}))
        for _ in range(3):
            self._used = set()
            try:
                probe = p.fork()
                for n in loop_names:
                    if n not in probe.env:
                        probe.env[n] = V("ref", fresh_const("probe_" + n, R))
                spec.inv(mk_ctx(probe))
                if spec.hints:
                    spec.hints(mk_ctx(probe))
                return
            except KeyError as e:
                missing = e.args[0]
                if not isinstance(missing, str) or missing in self._alias:
                    return
                cands = [n for n in loop_names if n not in self._used and n not in self._alias.values()]
                if len(cands) != 1:
                    params = set(self.fi.params()) | {(self.fi.node.args.vararg.arg if self.fi.node.args.vararg else None)}
                    cands = [n for n in p.env if n not in self._used and n not in self._alias.values() and n not in params]
                if len(cands) != 1:
                    return
                self._alias[missing] = cands[0]
                self.notes.append("invariant variable %r bound to renamed local %r" % (missing, cands[0]))
            except Exception:
                return

    def loop_spec(self, st):
        o = self.ordinal(st, "loop")
        spec = self.loops.get(o)
        if spec is None:
            raise frontend.StructError("loop #%d of %s has no invariant in the sidecar (loop structure changed?)"
                                       % (o, self.fi.ident))
        return o, spec

    def havoc_vars(self, p, names, spec, hint_env=None):
        for n in names:
            kind_hint = spec.vars_kinds.get(n)
            old = p.env.get(n)
            if kind_hint is not None:
                p.env[n] = self.fresh_of_kind(kind_hint, n)
            elif old is not None:
                p.env[n] = self.fresh_like(old, n)
            elif hint_env and n in hint_env:
                p.env[n] = self.fresh_like(hint_env[n], n)
            else:
                p.env.pop(n, None)

    def fresh_of_kind(self, kind, name):
        if kind == "ref":
            return vref(fresh_const(name, R))
        if kind == "int":
            return vint(Int(fresh(name)))
        if kind == "bool":
            return vbool(Const(fresh(name), B))
        if kind == "aseq":
            return V("aseq", ASeq.fresh(name))
        raise Unsupported("fresh value of kind %s" % kind)

    def fresh_like(self, v, name):
        if v.k == "tuple":
            return V("tuple", tuple(self.fresh_like(e, name) for e in v.t))
        if v.k in ("pystr", "class", "builtin", "lambda", "callable", "exc"):
            return v
        return self.fresh_of_kind(v.k, name)

    def havoc_state(self, p, spec):
        if spec.mods:
            fields = spec.mods
            if fields == "all":
                from .heap import RAW, GHOST, LOG
                fields = RAW + GHOST + LOG
            p.set_state(p.S.havoc(fields, "loop"))

    def s_For(self, st, p):
        out = []
        for q, itv in self.ev(st.iter, p):
            seq = self.as_iterseq(itv, q)
            if seq.static is not None:
                out += self.unroll_for(st, q, seq)
            else:
                out += self.cut_for(st, q, seq)
        return out

    def unroll_for(self, st, p, seq):
        live = [p]
        self.loopstack.append({"breaks": [], "continues": []})
        for k, elem in enumerate(seq.static):
            nxt = []
            for q in live:
                for r in self.assign(st.target, elem, q):
                    nxt += self.block(st.body, [r])
            nxt += self.loopstack[-1]["continues"]
            self.loopstack[-1]["continues"] = []
            live = nxt
        fr = self.loopstack.pop()
        if st.orelse:
            live = self.block(st.orelse, live)
        return live + fr["breaks"]

    def cut_for(self, st, p, seq):
        o, spec = self.loop_spec(st)
        names = assigned_names(st.body) + assigned_names([ast.Expr(value=st.target)])
        tnames = assigned_names([ast.Expr(value=st.target)])
        pre_v, S_pre, out_pre = dict(p.env), p.S, p.out

        def ctx(path, i):
            return LoopCtx(self, i, seq, path.env, path.S, path.out, pre_v, S_pre, out_pre, self.fnctx, path.extra)

        self.loop_aliases(spec, lambda path: ctx(path, IntVal(0)), p, [n for n in names if n not in tnames] or names)
        # INV0
        p0 = p.fork(label="loop%d:init" % o)
        p0.assume(*spec.hint(ctx(p0, IntVal(0))))
        for name, f in spec.inv(ctx(p0, IntVal(0))):
            self.oblig(p0, "INV0", "loop%d/%s" % (o, name), f)
        # arbitrary iteration
        h = p.fork(label="loop%d:iter" % o)
        i = Int(fresh("it"))
        body_names = [n for n in names if n not in tnames]
        self.havoc_vars(h, body_names, spec)
        for n in tnames:
            h.env.pop(n, None)
        self.havoc_state(h, spec)
        self.havoc_out(h, spec)
        self.havoc_extra(h)
        h.assume(0 <= i, i < seq.n)
        h.assume(*[f for _, f in spec.inv(ctx(h, i))])
        h.assume(*spec.hint(ctx(h, i)))
        h.extra["wit%d" % o] = i          # ghost witness: iteration index, for exits taken from inside the loop
        hint_env = {}
        self.loopstack.append({"breaks": [], "continues": []})
        ends = []
        for r in self.assign(st.target, seq.at(i), h):
            ends += self.block(st.body, [r])
        fr = self.loopstack.pop()
        ends += fr["continues"]
        for e in ends:
            hint_env.update(e.env)
            for name, f in spec.inv(ctx(e, i + 1)):
                self.oblig(e, "INV+", "loop%d/%s" % (o, name), f)
            self.frame_obligs(e, h, spec, o)
        # exit by exhaustion
        x = p.fork(label="loop%d:done" % o)
        self.havoc_vars(x, body_names, spec, hint_env)
        self.havoc_state(x, spec)
        self.havoc_out(x, spec)
        self.havoc_extra(x)
        x.assume(*[f for _, f in spec.inv(ctx(x, seq.n))])
        x.assume(*spec.hint(ctx(x, seq.n)))
        x.assume(seq.n >= 0)
        # loop target after the loop: last element if any iteration ran, unbound otherwise
        self.bind_after_loop(st.target, seq, x)
        outs = [x]
        if st.orelse:
            outs = self.block(st.orelse, outs)
        return outs + fr["breaks"]

    def bind_after_loop(self, target, seq, x):
        last = seq.at(seq.n - 1)
        cond = seq.n > 0

        def mark(t, v):
            if isinstance(t, ast.Name):
                x.env[t.id] = V(v.k, v.t, {"bound": cond, "inner": v.x})
            elif isinstance(t, (ast.Tuple, ast.List)) and v.k == "tuple":
                for tt, vv in zip(t.elts, v.t):
                    mark(tt, vv)
        mark(target, last)

    def frame_obligs(self, e, h, spec, o):
        """fields of the state not declared in the loop's `mods` must be unchanged at the back-edge"""
        if spec.mods == "all" or e.S is h.S:
            return
        from .heap import RAW, GHOST, LOG
        for f in RAW + GHOST + LOG:
            if f in spec.mods:
                continue
            a, b = getattr(e.S, f), getattr(h.S, f)
            if a is b:
                continue
            if f in GHOST:
                self.oblig(e, "FRAME", "loop%d/%s" % (o, f), BoolVal(False), note="ghost field replaced in loop")
            else:
                self.oblig(e, "FRAME", "loop%d/%s" % (o, f), a == b)

    def havoc_out(self, p, spec):
        pass

    def havoc_extra(self, p):
        pass

    def s_While(self, st, p):
        o, spec = self.loop_spec(st)
        names = assigned_names(st.body)
        pre_v, S_pre, out_pre = dict(p.env), p.S, p.out
        k = Int(fresh("k"))   # number of completed iterations (ghost)

        def ctx(path, i):
            return LoopCtx(self, i, None, path.env, path.S, path.out, pre_v, S_pre, out_pre, self.fnctx, path.extra)

        self.loop_aliases(spec, lambda path: ctx(path, IntVal(0)), p, names)
        p0 = p.fork(label="loop%d:init" % o)
        p0.assume(*spec.hint(ctx(p0, IntVal(0))))
        for name, f in spec.inv(ctx(p0, IntVal(0))):
            self.oblig(p0, "INV0", "loop%d/%s" % (o, name), f)
        h = p.fork(label="loop%d:head" % o)
        self.havoc_vars(h, names, spec)
        self.havoc_state(h, spec)
        self.havoc_out(h, spec)
        self.havoc_extra(h)
        h.assume(k >= 0)
        h.assume(*[f for _, f in spec.inv(ctx(h, k))])
        h.assume(*spec.hint(ctx(h, k)))
        outs = []
        hint_env = {}
        for q, c in self.ev_truth(st.test, h):
            # exit
            x = q.fork(Not(c), "loop%d:exit" % o)
            if _maybe_true(Not(c)):
                outs.append(x)
            # body
            if not _maybe_true(c):
                continue
            b = q.fork(c, "loop%d:body" % o)
            self.loopstack.append({"breaks": [], "continues": []})
            ends = self.block(st.body, [b])
            fr = self.loopstack.pop()
            ends += fr["continues"]
            for e in ends:
                hint_env.update(e.env)
                for name, f in spec.inv(ctx(e, k + 1)):
                    self.oblig(e, "INV+", "loop%d/%s" % (o, name), f)
                self.frame_obligs(e, h, spec, o)
            outs += fr["breaks"]
        if st.orelse:
            raise Unsupported("while/else")
        return outs

    # ------------------------------------------------------------------ generators
    def s_yield(self, node, p):
        if isinstance(node, ast.YieldFrom):
            out = []
            for q, v in self.ev(node.value, p):
                out += self.yield_from(q, v)
            return out
        out = []
        for q, v in self.ev(node.value, p):
            self.yield_value(q, v)
            out.append(q)
        return out

    def yield_value(self, p, v):
        raise Unsupported("yield in this world")

    def yield_from(self, p, v):
        raise Unsupported("yield from in this world")

    # ------------------------------------------------------------------ expressions
    def evs(self, es, p):
        if not es:
            yield p, []
            return
        for p1, v in self.ev(es[0], p):
            for p2, vs in self.evs(es[1:], p1):
                yield p2, [v] + vs

    def evs2(self, e1, e2, p):
        for q, vs in self.evs([e1, e2], p):
            yield q, (vs[0], vs[1])

    def ev(self, e, p):
        m = getattr(self, "e_" + type(e).__name__, None)
        if m is None:
            raise Unsupported("expression %s: %s" % (type(e).__name__, ast.unparse(e)[:80]))
        return m(e, p)

    def ev_truth(self, e, p):
        for q, v in self.ev(e, p):
            yield q, self.truth(v, q, e)

    def truth(self, v, p, e=None):
        if v.k == "bool":
            return v.t
        if v.k == "int":
            return v.t != 0
        if v.k == "aseq":
            return v.t.n > 0
        if v.k == "tuple":
            return BoolVal(len(v.t) > 0)
        if v.k == "pystr":
            return BoolVal(len(v.t) > 0)
        raise Unsupported("truth value of %r in %s" % (v, ast.unparse(e) if e is not None else "?"))

    def e_Constant(self, e, p):
        c = e.value
        if c is None:
            yield p, VNONE
        elif isinstance(c, bool):
            yield p, vbool(c)
        elif isinstance(c, int):
            yield p, vint(c)
        elif isinstance(c, str):
            yield p, V("pystr", c)
        else:
            raise Unsupported("constant %r" % (c,))

    def e_Name(self, e, p):
        if e.id in p.env:
            v = p.env[e.id]
            if isinstance(v.x, dict) and "bound" in v.x:
                self.oblig(p, "SAFE", "bound:%s" % e.id, v.x["bound"],
                           note="variable assigned only by a loop is read after the loop")
                p.assume(v.x["bound"])
                v = V(v.k, v.t, v.x.get("inner"))
                p.env[e.id] = v
            yield p, v
            return
        yield from self.global_name(e.id, p)

    def global_name(self, name, p):
        raise Unsupported("unbound name %s" % name)

    def e_Tuple(self, e, p):
        if any(isinstance(x, ast.Starred) for x in e.elts):
            raise Unsupported("starred in tuple")
        for q, vs in self.evs(e.elts, p):
            yield q, V("tuple", tuple(vs))

    def e_UnaryOp(self, e, p):
        if isinstance(e.op, ast.Not):
            for q, c in self.ev_truth(e.operand, p):
                yield q, vbool(Not(c))
        elif isinstance(e.op, ast.USub):
            for q, v in self.ev(e.operand, p):
                if v.k != "int":
                    raise Unsupported("unary minus on %r" % v)
                yield q, vint(-v.t)
        else:
            raise Unsupported("unary op")

    def e_BoolOp(self, e, p):
        """short-circuit evaluation; the result is the deciding operand (Python semantics), so both
        `a and b` over booleans and `x or default` over arbitrary values are covered."""
        is_and = isinstance(e.op, ast.And)

        def go(k, path):
            for q, v in self.ev(e.values[k], path):
                if k == len(e.values) - 1:
                    yield q, v
                    continue
                c = self.truth(v, q, e.values[k])
                stop_cond = Not(c) if is_and else c
                if _maybe_true(stop_cond):
                    # the deciding operand is returned; for a boolean its value is known on this branch
                    sv = vbool(not is_and) if v.k == "bool" else (self.narrow(v, not is_and) if hasattr(self, "narrow") else v)
                    yield q.fork(stop_cond, "bo%d.%d:stop" % (self.ordinal(e, "boolop"), k)), sv
                if _maybe_true(Not(stop_cond)):
                    yield from go(k + 1, q.fork(Not(stop_cond), "bo%d.%d:go" % (self.ordinal(e, "boolop"), k)))
        yield from go(0, p)

    def e_IfExp(self, e, p):
        o = self.ordinal(e, "ifexp")
        for q, c in self.ev_truth(e.test, p):
            if _maybe_true(c):
                yield from self.ev(e.body, q.fork(c, "ie%d:T" % o))
            if _maybe_true(Not(c)):
                yield from self.ev(e.orelse, q.fork(Not(c), "ie%d:F" % o))

    def e_Compare(self, e, p):
        if len(e.ops) != 1:
            # chained comparison a == b == c  ->  (a == b) and (b == c), operands evaluated once
            for q, vs in self.evs([e.left] + e.comparators, p):
                cs = [self.compare(op, vs[k], vs[k + 1], q, e) for k, op in enumerate(e.ops)]
                yield q, vbool(And(*cs))
            return
        for q, (l, r) in self.evs2(e.left, e.comparators[0], p):
            yield q, vbool(self.compare(e.ops[0], l, r, q, e))

    def compare(self, op, l, r, p, e):
        if isinstance(op, (ast.Is, ast.IsNot)):
            if l.k == "ref" and r.k == "ref":
                t = l.t == r.t
            elif l.k == "ref" or r.k == "ref":
                o = r if l.k == "ref" else l
                if o.k in ("pystr", "int", "bool", "tuple", "aseq"):
                    # a non-None immutable value is never the None object / a node
                    rr = l if l.k == "ref" else r
                    t = BoolVal(False) if rr.t is NONE else None
                    if t is None:
                        raise Unsupported("identity comparison %s" % ast.unparse(e))
                else:
                    raise Unsupported("identity comparison %s" % ast.unparse(e))
            elif (l.k, r.k) in (("callable", "ref"), ("ref", "callable")):
                raise Unsupported("identity comparison %s" % ast.unparse(e))
            else:
                t = self.is_compare(l, r, p, e)
            return Not(t) if isinstance(op, ast.IsNot) else t
        if l.k == "int" and r.k == "int":
            f = {ast.Eq: lambda a, b: a == b, ast.NotEq: lambda a, b: a != b, ast.Lt: lambda a, b: a < b,
                 ast.LtE: lambda a, b: a <= b, ast.Gt: lambda a, b: a > b, ast.GtE: lambda a, b: a >= b}.get(type(op))
            if f is None:
                raise Unsupported("int comparison %s" % ast.unparse(e))
            return f(l.t, r.t)
        return self.compare_other(op, l, r, p, e)

    def is_compare(self, l, r, p, e):
        raise Unsupported("identity comparison %s" % ast.unparse(e))

    def compare_other(self, op, l, r, p, e):
        raise Unsupported("comparison %s" % ast.unparse(e))

    def e_BinOp(self, e, p):
        for q, (l, r) in self.evs2(e.left, e.right, p):
            yield from self.binop(e.op, l, r, q, e)

    def binop(self, op, l, r, p, e):
        if l.k == "int" and r.k == "int":
            if isinstance(op, ast.Add):
                yield p, vint(l.t + r.t)
                return
            if isinstance(op, ast.Sub):
                yield p, vint(l.t - r.t)
                return
        if l.k == "pystr" and isinstance(op, ast.Mod):
            # %-formatting of a message (exception text, warning): value is an opaque string; the operands
            # were evaluated (their side conditions are obligations), the text itself is not modelled here
            yield p, V("fmt", (l.t, r))
            return
        yield from self.binop_other(op, l, r, p, e)

    def binop_other(self, op, l, r, p, e):
        raise Unsupported("binary op %s" % ast.unparse(e))

    def e_Attribute(self, e, p):
        for q, obj in self.ev(e.value, p):
            yield from self.attr_load(obj, self.mangle(e.attr), q, e)

    def e_Call(self, e, p):
        yield from self.call(e, p)

    def e_Subscript(self, e, p):
        if isinstance(e.slice, ast.Slice):
            parts = [e.slice.lower, e.slice.upper, e.slice.step]
            if parts[2] is not None:
                raise Unsupported("slice step")
            for q, obj in self.ev(e.value, p):
                for q2, vs in self.evs([x for x in parts[:2] if x is not None], q):
                    it = iter(vs)
                    lo = next(it) if parts[0] is not None else None
                    hi = next(it) if parts[1] is not None else None
                    yield from self.slice_load(obj, lo, hi, q2, e)
            return
        for q, (obj, key) in self.evs2(e.value, e.slice, p):
            yield from self.subscript_load(obj, key, q, e)

    def e_Lambda(self, e, p):
        yield p, V("lambda", e, dict(p.env))

    # world-specific hooks ------------------------------------------------------------
    def attr_load(self, obj, attr, p, e):
        raise Unsupported("attribute load .%s" % attr)

    def attr_store(self, obj, attr, v, p, tgt):
        raise Unsupported("attribute store .%s" % attr)

    def attr_delete(self, obj, attr, p):
        raise Unsupported("attribute delete .%s" % attr)

    def subscript_load(self, obj, key, p, e):
        raise Unsupported("subscript %s" % ast.unparse(e))

    def subscript_store(self, obj, key, v, p):
        raise Unsupported("subscript store")

    def slice_load(self, obj, lo, hi, p, e):
        raise Unsupported("slice %s" % ast.unparse(e))

    def call(self, e, p):
        raise Unsupported("call %s" % ast.unparse(e))

    def as_iterseq(self, v, p):
        if v.k == "tuple":
            return IterSeq(IntVal(len(v.t)), None, static=list(v.t))
        if v.k == "aseq":
            s = v.t
            return IterSeq(s.n, lambda i: vref(s.a[i]), desc="aseq")
        if v.k == "iterseq":
            return v.t
        raise Unsupported("iteration over %r" % v)


def _as_load(t):
    t2 = ast.parse(ast.unparse(t), mode="eval").body
    return t2
