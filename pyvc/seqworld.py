"""Seq world: read-only code over an immutable tree view (iterators, search, exporters' traversal): sequences are
native z3 sequences, callbacks are elements of an uninterpreted sort `Fn` applied through `app`, recursive spec
functions are uninterpreted symbols plus instances of their defining equations (hints) - obligations are
quantifier-free up to the few callback-definition axioms (DESIGN.md 2.3, 2.6)."""
import ast
import itertools

from z3 import (And, BoolVal, Concat, Const, DeclareSort, Empty, Extract, ForAll, Function, If, Implies, Int, IntVal,
                Length, Not, Or, SeqSort, Unit, is_true, simplify)

from . import frontend
from .core import Exec, Exc, IterSeq, Path, Unsupported, V, VNONE, vbool, vint, vref, _maybe_true, feasible
from .heap import B, I, NONE, R, fresh, fresh_const
from .heapworld import Clause, Ctx, HeapExec, Outcome, Spec, clauses

SeqR = SeqSort(R)
SeqSeqR = SeqSort(SeqR)
Fn = DeclareSort("Fn")
U = DeclareSort("Any")               # arbitrary Python values (attribute names/values, user data)
HAS = Function("HAS", R, U, B)        # hasattr(node, name)
ATTR = Function("ATTR", R, U, U)      # getattr(node, name)
EQ = Function("EQ", U, U, B)          # a == b on arbitrary values (user __eq__ allowed on non-node values)
_strconsts = {}


def strconst(s):
    if s not in _strconsts:
        _strconsts[s] = Const("str:%s" % s, U)
    return _strconsts[s]


CH = Function("CH", R, SeqR)          # node.children (tuple of the current children; contract of the children getter)
PAR = Function("PAR", R, R)           # node.parent
app = Function("app", Fn, R, B)       # calling a user callback (deterministic, total, side-effect free: assumed)
TRUEF = Const("TRUEF", Fn)
FALSEF = Const("FALSEF", Fn)
_x = Const("x", R)
FN_AXIOMS = [ForAll([_x], app(TRUEF, _x)), ForAll([_x], Not(app(FALSEF, _x)))]
ASSERTIONS = Const("ASSERTIONS", B)

EMPTY = Empty(SeqR)
EMPTY2 = Empty(SeqSeqR)
_gid = itertools.count(1)


class NoState:
    axioms = []

    def havoc(self, *a, **k):
        return self

    def copy(self, **k):
        return self


NOSTATE = NoState()


def optint(hm, m):
    return V("optint", (hm, m))


def as_optint(v):
    """coerce a value to Optional[int] (isnotNone, value); value is 0 when None (canonical form)"""
    if v.k == "optint":
        return v.t
    if v.k == "int":
        return (BoolVal(True), v.t)
    if v.k == "ref" and v.t is NONE:
        return (BoolVal(False), IntVal(0))
    raise Unsupported("Optional[int] from %r" % v)


def as_optfn(v):
    if v.k == "optfn":
        return v.t
    if v.k == "fn":
        return (BoolVal(True), v.t)
    if v.k == "ref" and v.t is NONE:
        return (BoolVal(False), TRUEF)
    raise Unsupported("Optional[callable] from %r" % v)


def qseq(t, elem="ref"):
    return V("qseq", t, {"elem": elem})


def elem_kind(v):
    return (v.x or {}).get("elem", "ref")


class SeqExec(HeapExec):
    def __init__(self, spec, fi):
        Exec.__init__(self, fi, loops=spec.loops, props=spec.props, cls_for_mangle=fi.cls)
        self.spec = spec
        self.reg = spec.registry

    # ------------------------------------------------------------------ names, truth, comparisons
    def global_name(self, name, p):
        if name == "ASSERTIONS":
            yield p, vbool(ASSERTIONS)
        elif name in self.reg.classes or name in self.reg.bases:
            yield p, V("class", name)
        elif name in self.reg.functions:
            yield p, V("function", name)
        elif name in getattr(self.reg, "modules", {}):
            yield p, V("module", name)
        elif name in ("tuple", "len", "next", "reversed", "list", "iter", "enumerate", "zip", "all", "any", "getattr", "isinstance", "type"):
            yield p, V("builtin", name)
        else:
            h = self.find_helper(name)
            if h is None:
                raise Unsupported("global name %s" % name)
            v = self.helper_as_value(h, p)
            yield p, (v if v is not None else V("helper", h))

    def helper_as_value(self, h, p):
        """a helper function used as a value rather than called (worlds override)"""
        return None

    def truth(self, v, p, e=None):
        if v.k == "qseq":
            return Length(v.t) > 0
        if v.k == "optint":
            # truthiness of Optional[int]: None and 0 are false
            return And(v.t[0], v.t[1] != 0)
        if v.k == "optfn":
            # functions are always true; None is false (callable objects with __bool__/__len__: assumption)
            return v.t[0]
        if v.k == "fn":
            return BoolVal(True)
        if v.k == "ref" and v.t is NONE:
            return BoolVal(False)
        return Exec.truth(self, v, p, e)

    def is_compare(self, l, r, p, e):
        for a, b in ((l, r), (r, l)):
            if a.k == "pytype" and b.k == "builtin":
                return BoolVal(a.t == b.t)
            if b.k == "ref" and b.t is NONE:
                if a.k == "optint":
                    return Not(a.t[0])
                if a.k == "optfn":
                    return Not(a.t[0])
                if a.k in ("int", "fn", "qseq", "gen", "obj"):
                    return BoolVal(False)
                if a.k == "ref":
                    return a.t == NONE
        if l.k == "ref" and r.k == "ref":
            return l.t == r.t
        raise Unsupported("identity comparison %s" % ast.unparse(e))

    def compare(self, op, l, r, p, e):
        if isinstance(op, (ast.Is, ast.IsNot)):
            t = self.is_compare(l, r, p, e)
            return Not(t) if isinstance(op, ast.IsNot) else t
        # int against Optional[int]: comparing with None would raise TypeError -> SAFE obligation
        if {l.k, r.k} == {"int", "optint"} or (l.k == "optint" and r.k == "optint"):
            def val(v):
                if v.k == "optint":
                    self.oblig(p, "SAFE", "not-None-in-comparison", v.t[0], note="ordering comparison with None raises TypeError")
                    p.assume(v.t[0])
                    return vint(v.t[1])
                return v
            return Exec.compare(self, op, val(l), val(r), p, e)
        return Exec.compare(self, op, l, r, p, e)

    def compare_other(self, op, l, r, p, e):
        if isinstance(op, (ast.Eq, ast.NotEq)) and l.k == "any" and r.k in ("any", "pystr"):
            t = EQ(l.t, self.coerce(r, "any", p).t)
            return Not(t) if isinstance(op, ast.NotEq) else t
        return HeapExec.compare_other(self, op, l, r, p, e)

    def binop(self, op, l, r, p, e):
        if l.k == "optint" and r.k == "int" and isinstance(op, (ast.Sub, ast.Add)):
            self.oblig(p, "SAFE", "not-None-in-arithmetic", l.t[0], note="arithmetic on None raises TypeError")
            p.assume(l.t[0])
            yield p, vint(l.t[1] - r.t if isinstance(op, ast.Sub) else l.t[1] + r.t)
            return
        if l.k == "qseq" and r.k == "qseq" and isinstance(op, ast.Add):
            yield p, qseq(Concat(l.t, r.t), elem_kind(l))
            return
        yield from Exec.binop(self, op, l, r, p, e)

    # ------------------------------------------------------------------ attributes
    def attr_load(self, obj, attr, p, e):
        if obj.k == "ref":
            if attr == "children":
                yield p, qseq(CH(obj.t))
                return
            if attr == "parent":
                yield p, vref(PAR(obj.t))
                return
            if attr == "is_leaf":
                yield p, vbool(Length(CH(obj.t)) == 0)
                return
            h = self.reg.ref_attr.get(attr)
            if h is not None:
                yield from h(self, obj, p)
                return
        if obj.k == "obj":
            fields = p.extra["objs"][obj.t]
            if attr in fields:
                yield p, fields[attr]
                return
            # bound method of the object's class
            cls = obj.x
            for c in self.reg.mro(cls):
                if (c, attr) in self.reg.methods or (c, attr) in self.reg.statics:
                    yield p, V("bound", (obj, c, attr))
                    return
            h = self.find_helper(attr, cls) if cls == self.fi.cls else None
            if h is not None and h.role in ("method", "static"):
                yield p, V("helper", h, {"self": obj if h.role == "method" else None})
                return
            raise Unsupported("attribute .%s of %s object" % (attr, cls))
        if obj.k == "module":
            fn = self.reg.modules[obj.t].get(attr)
            if fn is None:
                raise Unsupported("%s.%s" % (obj.t, attr))
            yield p, V("function", (obj.t, attr))
            return
        if obj.k == "class":
            for c in self.reg.mro(obj.t):
                if (c, attr) in self.reg.statics:
                    yield p, V("static", (c, attr))
                    return
            # a helper of the class under verification reached through the class: static, or a method called with an explicit self
            h = self.find_helper(attr, obj.t) if obj.t == self.fi.cls else None
            if h is None or h.role not in ("static", "method"):
                raise Unsupported("static attribute %s.%s" % (obj.t, attr))
            yield p, V("helper", h)
            return
        raise Unsupported("attribute load .%s on %r" % (attr, obj))

    def attr_store(self, obj, attr, v, p, tgt):
        if obj.k == "obj":
            objs = dict(p.extra["objs"])
            objs[obj.t] = dict(objs[obj.t])
            objs[obj.t][attr] = v
            p.extra["objs"] = objs
            return [p]
        raise Unsupported("attribute store .%s on %r" % (attr, obj))

    # ------------------------------------------------------------------ sequences
    def e_List(self, e, p):
        if any(isinstance(x, ast.Starred) for x in e.elts):
            raise Unsupported("starred list literal")
        for q, vs in self.evs(e.elts, p):
            if not vs:
                yield q, qseq(EMPTY)
            else:
                if any(v.k != "ref" for v in vs):
                    raise Unsupported("list literal of %r" % vs)
                t = Unit(vs[0].t)
                for v in vs[1:]:
                    t = Concat(t, Unit(v.t))
                yield q, qseq(t)

    def seqterm(self, v, p):
        if v.k == "qseq":
            return v.t
        if v.k == "gen":
            g = p.extra["gens"][v.t]
            return Extract(g[0], g[1], Length(g[0]) - g[1]) if not is_true(simplify(g[1] == 0)) else g[0]
        raise Unsupported("sequence view of %r" % v)

    def as_iterseq(self, v, p):
        if v.k in ("qseq", "gen"):
            s = self.seqterm(v, p)
            ek = elem_kind(v)
            mk = (lambda i: vref(s[i])) if ek == "ref" else (lambda i: qseq(s[i]))
            sq = IterSeq(Length(s), mk, desc="qseq")
            sq.term, sq.elem = s, ek
            return sq
        return Exec.as_iterseq(self, v, p)

    def comprehension(self, e, p, result):
        """[v for v in S if f(v)] -> FILTP(S, len, f);  [v for v in S if not f(v)] -> NSP(S, len, f)"""
        var, it, ifs, elt = self.comp_parts(e)
        if not (isinstance(elt, ast.Name) and elt.id == var and len(ifs) == 1):
            raise Unsupported("comprehension %s" % ast.unparse(e))
        c, neg = ifs[0], False
        if isinstance(c, ast.UnaryOp) and isinstance(c.op, ast.Not):
            c, neg = c.operand, True
        ok = (isinstance(c, ast.Call) and isinstance(c.func, ast.Name) and len(c.args) == 1 and not c.keywords
              and isinstance(c.args[0], ast.Name) and c.args[0].id == var)
        if not ok:
            raise Unsupported("comprehension filter %s" % ast.unparse(ifs[0]))
        for q, (sv, fv) in self.evs2(it, c.func, p):
            if fv.k != "fn" or sv.k != "qseq":
                raise Unsupported("comprehension over %r with %r" % (sv, fv))
            fnc = self.reg.specfn["NSP" if neg else "FILTP"]
            yield q, qseq(fnc(sv.t, Length(sv.t), fv.t))

    def e_ListComp(self, e, p):
        yield from self.comprehension(e, p, "list")

    def subscript_load(self, obj, key, p, e):
        if obj.k == "qseq" and key.k == "int":
            s = obj.t
            idx = If(key.t < 0, key.t + Length(s), key.t)
            self.oblig(p, "SAFE", "index", And(0 <= idx, idx < Length(s)), note="no IndexError")
            p.assume(0 <= idx, idx < Length(s))
            ek = elem_kind(obj)
            if ek == "str":
                yield p, V("str", s[idx])
            else:
                yield p, (vref(s[idx]) if ek == "ref" else qseq(s[idx]))
            return
        yield from HeapExec.subscript_load(self, obj, key, p, e)

    def slice_load(self, obj, lo, hi, p, e):
        if obj.k != "qseq":
            raise Unsupported("slice %s" % ast.unparse(e))
        s = obj.t
        n = Length(s)

        def norm(v, default):
            if v is None:
                return default
            t = If(v.t < 0, v.t + n, v.t)
            return If(t < 0, 0, If(t > n, n, t))
        a, b = norm(lo, IntVal(0)), norm(hi, n)
        yield p, qseq(Extract(s, a, If(b > a, b - a, 0)), elem_kind(obj))

    def s_AugAssign(self, st, p):
        if isinstance(st.target, ast.Name) and st.target.id in p.env and p.env[st.target.id].k == "qseq":
            v = p.env[st.target.id]
            if (v.x or {}).get("shared"):
                raise Unsupported("in-place mutation of a list that has another name: %s" % ast.unparse(st))
        return Exec.s_AugAssign(self, st, p)

    def assign(self, tgt, v, p, aug=False):
        if isinstance(tgt, ast.Name) and v.k == "qseq" and not aug:
            # `a = b` for lists: both names now refer to one object; in-place mutation through either is rejected
            for n, o in p.env.items():
                if o is v and n != tgt.id:
                    v = V("qseq", v.t, dict(v.x or {}, shared=True))
                    p.env[n] = v
        return Exec.assign(self, tgt, v, p, aug)

    # ------------------------------------------------------------------ generators: eager, ghost output sequence
    def yield_value(self, p, v):
        if v.k == "ref":
            p.out = Concat(p.out, Unit(v.t))
        elif v.k == "qseq":
            p.out = Concat(p.out, Unit(v.t))
        elif v.k == "str":
            p.out = Concat(p.out, Unit(v.t))
        else:
            raise Unsupported("yield of %r" % v)

    def yield_from(self, p, v):
        p.out = Concat(p.out, self.seqterm(v, p))
        return [p]

    def havoc_out(self, p, spec):
        if p.out is not None and self.spec.generator:
            p.out = Const(fresh("out"), p.out.sort())

    def s_For(self, st, p):
        # `for v in E: yield v`  is  `yield from E`  (exact for generators that are only iterated)
        if (len(st.body) == 1 and isinstance(st.body[0], ast.Expr) and isinstance(st.body[0].value, ast.Yield)
                and isinstance(st.target, ast.Name) and isinstance(st.body[0].value.value, ast.Name)
                and st.body[0].value.value.id == st.target.id and not st.orelse):
            out = []
            for q, v in self.ev(st.iter, p):
                if v.k in ("qseq", "gen"):
                    out += self.yield_from(q, v)
                    if v.k == "gen":
                        g = q.extra["gens"][v.t]
                        gens = dict(q.extra["gens"])
                        gens[v.t] = (g[0], Length(g[0]), g[2])
                        q.extra["gens"] = gens
                else:
                    raise Unsupported("re-yield of %r" % v)
            return out
        return Exec.s_For(self, st, p)

    def new_gen(self, p, seqterm, elem="ref"):
        gid = next(_gid)
        gens = dict(p.extra.get("gens", {}))
        gens[gid] = (seqterm, IntVal(0), elem)
        p.extra["gens"] = gens
        return V("gen", gid, {"elem": elem})

    # ------------------------------------------------------------------ calls
    def call(self, e, p):
        if any(isinstance(a, ast.Starred) for a in e.args) or any(k.arg is None for k in e.keywords):
            raise Unsupported("star args in %s" % ast.unparse(e))
        for q, fv in self.ev(e.func, p):
            kwnames = [k.arg for k in e.keywords]
            for q2, vs in self.evs(list(e.args) + [k.value for k in e.keywords], q):
                pos, kw = vs[:len(e.args)], dict(zip(kwnames, vs[len(e.args):]))
                yield from self.call_value(fv, pos, kw, q2, e)

    def call_value(self, fv, pos, kw, p, e):
        if fv.k == "fn":
            if len(pos) != 1 or pos[0].k != "ref":
                raise Unsupported("callback call %s" % ast.unparse(e))
            yield p, vbool(app(fv.t, pos[0].t))
        elif fv.k == "builtin":
            yield from self.builtin2(fv.t, pos, kw, p, e)
        elif fv.k == "static":
            spec = self.reg.statics[fv.t]
            yield from self.apply_named(spec, pos, kw, p, "call:%s.%s" % fv.t)
        elif fv.k == "bound":
            obj, c, m = fv.t
            if (c, m) in self.reg.statics:
                spec = self.reg.statics[(c, m)]
                yield from self.apply_named(spec, pos, kw, p, "call:%s.%s" % (c, m))
            else:
                spec = getattr(self.reg, "methods_for_callers", {}).get((c, m)) or self.reg.methods[(c, m)]
                yield from self.apply_named(spec, [obj] + pos, kw, p, "call:%s.%s" % (c, m))
        elif fv.k == "class":
            spec = self.reg.classes[fv.t]
            yield from self.apply_named(spec, pos, kw, p, "new:%s" % fv.t)
        elif fv.k == "function":
            if isinstance(fv.t, tuple):
                spec = self.reg.modules[fv.t[0]][fv.t[1]]
                yield from self.apply_named(spec, pos, kw, p, "call:%s.%s" % fv.t)
            else:
                spec = self.reg.functions[fv.t]
                yield from self.apply_named(spec, pos, kw, p, "call:%s" % fv.t)
        elif fv.k == "localfn":
            yield from self.call_local(fv.t, pos, kw, p, list(e.args))
        elif fv.k == "helper":
            recv = (fv.x or {}).get("self") if isinstance(fv.x, dict) else None
            argnodes = ([None] if recv is not None else []) + list(e.args)
            yield from self.inline_call(fv.t, ([recv] if recv is not None else []) + pos, kw, p, argnodes)
        else:
            raise Unsupported("call of %r in %s" % (fv, ast.unparse(e)))

    def coerce(self, v, kind, p):
        if kind == "optint":
            return optint(*as_optint(v))
        if kind == "optfn":
            if v.k == "lambda":
                v = self.lambda_fn(v, p)
            t = as_optfn(v)
            return V("optfn", t)
        if kind == "fn":
            if v.k == "lambda":
                return self.lambda_fn(v, p)
            if v.k == "fn":
                return v
            if v.k == "static" and v.t in getattr(self.reg, "static_fns", {}):
                # a library function used as callback value: its denotation is fixed by its verified contract
                return V("fn", self.reg.static_fns[v.t])
            if v.k == "optfn":
                self.oblig(p, "SAFE", "callback-not-None", v.t[0], note="calling None raises TypeError")
                p.assume(v.t[0])
                return V("fn", v.t[1])
            raise Unsupported("callable from %r" % v)
        if kind == "qseq" and v.k == "gen":
            return qseq(self.seqterm(v, p), elem_kind(v))
        if kind == "any":
            if v.k == "pystr":
                return V("any", strconst(v.t))
            if v.k == "any":
                return v
            raise Unsupported("arbitrary value from %r" % v)
        return v

    def lambda_fn(self, v, p):
        """a lambda handed over as callback: fresh Fn symbol defined pointwise by the lambda's body"""
        lam, env = v.t, v.x
        if len(lam.args.args) != 1:
            raise Unsupported("lambda arity")
        fn = fresh_const("lam", Fn)
        xq = Const("xl", R)
        sub = Path(dict(env), p.S, list(p.pc), list(p.trace), None, dict(p.extra))
        sub.env[lam.args.args[0].arg] = vref(xq)
        res = list(self.ev_truth(lam.body, sub))
        if len(res) != 1 or len(res[0][0].pc) != len(p.pc):
            raise Unsupported("lambda body with effects or branches: %s" % ast.unparse(lam))
        p.assume(ForAll([xq], app(fn, xq) == res[0][1]))
        p.extra["fnwit"] = list(p.extra.get("fnwit", [])) + [fn]
        return V("fn", fn)

    def fresh_result(self, kind):
        if kind in ("qseq", "gen", "optint", "qseq2"):
            return self.fresh_of_kind("qseq" if kind == "gen" else kind, "res")
        if kind == "any":
            return V("any", fresh_const("res", U))
        return HeapExec.fresh_result(self, kind)

    def fresh_witness(self):
        return fresh_const("wfn", Fn)

    def apply_named(self, spec, pos, kw, p, label):
        names = [n for n, _ in spec.params]
        args = {}
        for n, v in zip(names, pos):
            args[n] = v
        for n, v in kw.items():
            if n not in names or n in args:
                raise Unsupported("keyword %s for %s" % (n, spec.name))
            args[n] = v
        for n, k in spec.params:
            if n not in args:
                d = spec.defaults.get(n, "MISSING")
                if d == "MISSING":
                    raise Unsupported("missing argument %s of %s" % (n, spec.name))
                args[n] = d
            args[n] = self.coerce(args[n], k, p)
        yield from self.apply_spec(spec, p, args, label)

    def builtin2(self, name, pos, kw, p, e):
        if name == "type" and len(pos) == 1 and isinstance(pos[0].x, dict) and pos[0].x.get("py") in ("tuple", "list"):
            yield p, V("pytype", pos[0].x["py"])
            return
        if name == "isinstance" and len(pos) == 2 and pos[1].k == "class" and isinstance(pos[0].x, dict) and pos[0].x.get("cls") in self.reg.bases:
            # the value of a constructor call under a class-level contract: its class is known
            yield p, vbool(BoolVal(pos[1].t in self.reg.mro(pos[0].x["cls"])))
            return
        if name == "isinstance" and len(pos) == 2 and pos[0].k == "obj" and pos[1].k == "class":
            # an object constructed in this function / the receiver: its class is known statically
            if pos[0].x in self.reg.bases or pos[0].x in self.reg.classes:
                yield p, vbool(BoolVal(pos[1].t in self.reg.mro(pos[0].x)))
                return
        if name == "isinstance" and len(pos) == 2 and pos[0].k == "qseq" and pos[1].k == "builtin" and pos[1].t in ("tuple", "list") \
                and isinstance(pos[0].x, dict) and pos[0].x.get("py") in ("tuple", "list"):
            yield p, vbool(BoolVal(pos[0].x["py"] == pos[1].t))
            return
        if name in ("tuple", "list"):
            if not pos:
                yield p, qseq(EMPTY)
                return
            v = pos[0]
            if v.k == "qseq":
                yield p, qseq(v.t, elem_kind(v))
            elif v.k == "gen":
                yield p, qseq(self.seqterm(v, p), elem_kind(v))
            elif v.k == "rev":
                yield p, qseq(self.reg.specfn["REV"](v.t), "ref")
            else:
                raise Unsupported("%s(%r)" % (name, v))
        elif name == "len":
            yield p, vint(Length(self.seqterm(pos[0], p)))
        elif name == "reversed":
            yield p, V("rev", self.seqterm(pos[0], p))
        elif name == "enumerate":
            seq = self.as_iterseq(pos[0], p)
            start = pos[1].t if len(pos) > 1 else (kw["start"].t if "start" in kw else IntVal(0))
            yield p, V("iterseq", IterSeq(seq.n, (lambda sq, st: lambda i: V("tuple", (vint(i + st), sq.at(i))))(seq, start),
                                           desc="enumerate"))
        elif name == "getattr":
            if len(pos) != 2 or pos[0].k != "ref":
                raise Unsupported("getattr form")
            nm = self.coerce(pos[1], "any", p)
            r = p.fork(Not(HAS(pos[0].t, nm.t)), "getattr:missing")
            self.raise_(r, Exc("AttributeError", "getattr"))
            p.assume(HAS(pos[0].t, nm.t))
            yield p, V("any", ATTR(pos[0].t, nm.t))
        elif name == "iter":
            v = pos[0]
            if v.k == "gen":
                yield p, v
            else:
                yield p, self.new_gen(p, self.seqterm(v, p), elem_kind(v))
        elif name == "next":
            g = pos[0]
            if g.k != "gen":
                raise Unsupported("next(%r)" % g)
            s, k, ek = p.extra["gens"][g.t]
            r = p.fork(k >= Length(s), "next:stop")
            if feasible(r.pc):
                self.raise_(r, Exc("StopIteration", "next"))
            p.assume(k < Length(s), k >= 0)
            p.trace.append("next:item")
            gens = dict(p.extra["gens"])
            gens[g.t] = (s, k + 1, ek)
            p.extra["gens"] = gens
            yield p, (vref(s[k]) if ek == "ref" else qseq(s[k]))
        else:
            raise Unsupported("builtin %s" % name)

    def builtin(self, name, e, p):
        if name == "tuple" and e.args and isinstance(e.args[0], ast.GeneratorExp):
            yield from self.comprehension(e.args[0], p, "tuple")
            return
        if name == "tuple" and not e.args and not e.keywords:
            # the empty tuple (also reached from the literal `()`)
            yield from self.builtin2("tuple", [], {}, p, e)
            return
        raise Unsupported("builtin %s(...)" % name)

    def e_Call(self, e, p):
        f = e.func
        if isinstance(f, ast.Name) and f.id == "tuple" and e.args and isinstance(e.args[0], ast.GeneratorExp) \
                and f.id not in p.env:
            yield from self.comprehension(e.args[0], p, "tuple")
            return
        yield from self.call(e, p)

    def e_GeneratorExp(self, e, p):
        raise Unsupported("generator expression outside tuple()")

    def fresh_of_kind(self, kind, name):
        if kind == "qseq":
            return qseq(Const(fresh(name), SeqR))
        if kind == "qseq2":
            return qseq(Const(fresh(name), SeqSeqR), "qseq")
        if kind == "optint":
            return optint(Const(fresh(name + "_has"), B), Int(fresh(name)))
        return Exec.fresh_of_kind(self, kind, name)

    def fresh_like(self, v, name):
        if v.k == "qseq":
            return V("qseq", Const(fresh(name), v.t.sort()), {"elem": elem_kind(v)})
        if v.k in ("fn", "optfn", "obj", "gen", "static", "bound", "function"):
            return v
        if v.k == "ref" and v.t is NONE:
            return v
        return HeapExec.fresh_like(self, v, name)

    def need_node(self, obj, p, what):
        return

    def havoc_extra(self, p):
        gens = {}
        for gid, (sq, pos, ek) in p.extra.get("gens", {}).items():
            gens[gid] = (sq, Int(fresh("genpos")), ek)
        p.extra["gens"] = gens


def _elem_of_sort(t):
    from z3 import StringSort
    nm = t.sort().name() if hasattr(t.sort(), "name") else ""
    if "Row" in str(t.sort()):
        return "row"
    if "KV" in str(t.sort()):
        return "kv"
    if "JDict" in str(t.sort()):
        return "jdict"
    if "LastPair" in str(t.sort()):
        return "lastpair"
    if t.sort() == SeqSeqR:
        return "qseq"
    if t.sort() == SeqSort(StringSort()):
        return "str"
    return "ref"


def _seq_apply(self, spec, p, args, label):
    for q, res in HeapExec.apply_spec(self, spec, p, args, label):
        if res is not None and res.k == "gen" and not isinstance(res.t, int):
            tag = res.x if isinstance(res.x, dict) else None
            res = self.new_gen(q, res.t, _elem_of_sort(res.t))
            if tag:
                res = V(res.k, res.t, dict(res.x or {}, **tag))
        elif res is not None and res.k == "qseq" and res.x is None:
            res = qseq(res.t, _elem_of_sort(res.t))
        yield q, res


SeqExec.apply_spec = _seq_apply


class Registry:
    def __init__(self):
        self.classes, self.statics, self.methods, self.functions = {}, {}, {}, {}
        self.ref_attr, self.specfn, self.bases, self.modules = {}, {}, {}, {}

    def mro(self, cls):
        out = []
        while cls is not None:
            out.append(cls)
            cls = self.bases.get(cls)
        return out


class SeqWorld:
    def make_exec(self, spec, fi):
        return SeqExec(spec, fi)

    def initial_state(self):
        return NOSTATE

    def make_arg(self, n, k):
        if k == "ref":
            return vref(Const("arg_" + n, R))
        if k == "qseq":
            return qseq(Const("arg_" + n, SeqR))
        if k == "fn":
            return V("fn", Const("arg_" + n, Fn))
        if k == "optfn":
            return V("optfn", (Const("arg_%s_given" % n, B), Const("arg_" + n, Fn)))
        if k == "optint":
            return optint(Const("arg_%s_given" % n, B), Int("arg_" + n))
        if k == "int":
            return vint(Int("arg_" + n))
        if k == "bool":
            return vbool(Const("arg_" + n, B))
        if k == "any":
            return V("any", Const("arg_" + n, U))
        if k.startswith("obj:"):
            return V("obj", "self0", k[4:])
        raise Unsupported("parameter kind %s" % k)

    def arg_facts(self, args, spec):
        out = list(FN_AXIOMS)
        for n, k in spec.params:
            if k == "optint":
                hm, m = args[n].t
                out.append(Implies(Not(hm), m == 0))       # canonical form of None
        return out

    def empty_out(self, spec):
        return EMPTY2 if spec.yields == "qseq" else EMPTY

    def init_path(self, p, spec, ctx):
        ie = getattr(spec, "init_extra", None)
        if ie:
            p.extra.update(ie(ctx))
        if spec.fields:
            p.extra["objs"] = {"self0": dict(spec.fields(ctx))}
        else:
            p.extra["objs"] = {"self0": {}}
        p.extra["objs"].update(p.extra.pop("objs_extra", {}))

    def gen_value(self, p):
        return qseq(p.out, "qseq" if p.out.sort() == SeqSeqR else "ref")

    def normalize_result(self, value, p, ex):
        if value.k == "gen":
            return qseq(ex.seqterm(value, p), elem_kind(value))
        return value

    def kind_ok(self, want, value):
        if want in ("qseq", "gen", "qseq2"):
            return value.k in ("qseq", "gen")
        if want == "none":
            return True
        if want == "optint":
            return value.k in ("optint", "int") or (value.k == "ref" and value.t is NONE)
        return value.k == want


SEQWORLD = SeqWorld()


class QSpec(Spec):
    """contract of a function in the seq world"""

    def __init__(self, registry, relpath, cls, name, role, params, requires, outcomes, loops=None, generator=False,
                 yields="ref", props=(), defaults=None, hints=None, fields=None):
        self.fam = None
        self.name, self.role, self.params = name, role, params
        self.requires, self.outcomes = requires, outcomes
        self.loops, self.hookobs, self.ghost = loops or {}, {}, None
        self.generator, self.props, self.note = generator, set(props), ""
        self.relpath, self.cls = relpath, cls
        self.registry, self.world = registry, SEQWORLD
        self.yields = yields
        self.defaults = defaults or {}
        self.hints = hints
        self.fields = fields
