"""Attr world: code whose effect is WHICH attribute operation it performs on WHICH object (SymlinkNodeMixin's
__getattr__/__setattr__, SymlinkNode.__init__).  Attribute names are z3 strings; the operations themselves
(default attribute store on the object, setattr/getattr on another object, dict.update) are recorded as an ordered
effect log on the path; contracts state the log.  The attribute protocol of CPython (when __getattr__ is consulted,
what object.__setattr__ does for a property name) is assumed, not modelled."""
import ast

from z3 import And, BoolVal, Const, Function, Not, Or, String, StringSort, StringVal

from .core import Exec, Exc, Path, Unsupported, V, VNONE, vbool, vref
from .heap import B, NONE, R, fresh_const
from .heapworld import HeapExec
from .seqworld import NOSTATE, QSpec, SeqExec, SeqWorld, U

THAS = Function("THAS", R, StringSort(), B)      # the other object has attribute `name` (through its own protocol)
TGET = Function("TGET", R, StringSort(), U)      # getattr(other, name)


class AttrExec(SeqExec):
    def global_name(self, name, p):
        if name == "json":
            yield p, V("module", "json")
            return
        if name in ("DictExporter", "DictImporter"):
            yield p, V("class", name)
            return
        if name in ("getattr", "setattr", "super", "dict", "isinstance"):
            yield p, V("builtin", name)
        elif name == "ASSERTIONS":
            yield p, vbool(Const("ASSERTIONS", B))
        elif name in ("SymlinkNodeMixin", "AttributeError"):
            yield p, V("class", name)
        else:
            yield from SeqExec.global_name(self, name, p)

    def effect(self, p, *ev):
        p.extra["effects"] = list(p.extra.get("effects", [])) + [ev]

    def e_List(self, e, p):
        if not e.elts:
            yield p, V("opaque", ("empty-list",))
            return
        raise Unsupported("list literal")

    def s_Assert(self, st, p):
        if getattr(self.spec, "plain_object", False):
            # assertions about the shape of user data (isinstance(data, dict), 'parent' not in data): preconditions, not modelled
            p.trace.append("assert")
            return [p]
        return SeqExec.s_Assert(self, st, p)

    def e_Constant(self, e, p):
        if isinstance(e.value, str):
            yield p, V("str", StringVal(e.value))
        else:
            yield from Exec.e_Constant(self, e, p)

    def compare_other(self, op, l, r, p, e):
        if isinstance(op, (ast.Eq, ast.NotEq)) and l.k == "str" and r.k == "str":
            t = l.t == r.t
            return Not(t) if isinstance(op, ast.NotEq) else t
        if isinstance(op, (ast.In, ast.NotIn)) and l.k == "str" and r.k == "tuple" and all(x.k == "str" for x in r.t):
            t = Or(*[l.t == x.t for x in r.t]) if r.t else BoolVal(False)
            return Not(t) if isinstance(op, ast.NotIn) else t
        return SeqExec.compare_other(self, op, l, r, p, e)

    def truth(self, v, p, e=None):
        if v.k == "any":
            return v.x["truth"] if isinstance(v.x, dict) and "truth" in v.x else SeqExec.truth(self, v, p, e)
        return SeqExec.truth(self, v, p, e)

    def attr_load(self, obj, attr, p, e):
        if obj.k == "module" and obj.t == "json" and attr in ("dumps", "dump", "loads", "load"):
            yield p, V("jsonfn", attr)
            return
        if obj.k == "opaque" and attr == "pop":
            yield p, V("dictmethod", (obj, "pop"))
            return
        if obj.k == "helper" and attr in ("export", "import_"):
            yield p, V("helpermethod", (obj, attr))
            return
        if obj.k == "obj" and obj.t == "self0" and attr == "__dict__":
            yield p, V("dictof", "self0")
            return
        if obj.k == "obj" and obj.t == "self0":
            fields = p.extra["objs"]["self0"]
            if attr in fields:
                if not getattr(self.spec, "plain_object", False):
                    self.effect(p, "read-own", attr)
                yield p, fields[attr]
                return
            if getattr(self.spec, "plain_object", False):
                for c_ in self.reg.mro(obj.x):
                    if (c_, self.mangle(attr)) in self.reg.methods:
                        yield p, V("bound", (obj, c_, self.mangle(attr)))
                        return
            raise Unsupported("read of self.%s before it is set" % attr)
        if obj.k == "ref" and attr == "__dict__":
            yield p, V("dictof", obj.t)
            return
        raise Unsupported("attribute load .%s on %r" % (attr, obj))

    def attr_store(self, obj, attr, v, p, tgt):
        if obj.k == "helper":
            # attribute store on the dict exporter handed in / created: recorded (it is a side effect on that object)
            self.effect(p, "helper-store", obj, attr, v)
            st = dict(p.extra.get("helperattrs", {}))
            st[(obj.t, attr)] = v
            p.extra["helperattrs"] = st
            return [p]
        if obj.k == "obj" and obj.t == "self0" and getattr(self.spec, "plain_object", False):
            raise Unsupported("store on self in %s" % self.fi.name)
        if obj.k == "obj" and obj.t == "self0" and getattr(self.spec, "plain_store", False):
            # ordinary class: `self.x = v` is the default protocol (property setter for parent/children, else instance dict)
            objs = dict(p.extra["objs"])
            objs["self0"] = dict(objs["self0"])
            objs["self0"][attr] = v
            p.extra["objs"] = objs
            self.effect(p, "assign-on-self", attr, v)
            return [p]
        if obj.k == "obj" and obj.t == "self0":
            # an assignment on the symlink instance goes through the class's __setattr__ (its contract)
            spec = self.reg.methods.get(("SymlinkNodeMixin", "__setattr__"))
            if spec is None:
                raise Unsupported("no __setattr__ contract")
            out = []
            for q, _ in self.apply_spec(spec, p, {"self": obj, "name": V("str", StringVal(attr)), "value": v}, "setattr:" + attr):
                objs = dict(q.extra["objs"])
                objs["self0"] = dict(objs["self0"])
                objs["self0"][attr] = v
                q.extra["objs"] = objs
                self.effect(q, "call-setattr", attr, v)
                out.append(q)
            return out
        raise Unsupported("attribute store .%s on %r" % (attr, obj))

    def truth(self, v, p, e=None):
        if v.k == "opthelper":
            return v.t[0]
        if v.k == "helper":
            return BoolVal(True)
        if v.k == "any" and isinstance(v.x, dict) and "truth" in v.x:
            return v.x["truth"]
        return SeqExec.truth(self, v, p, e)

    def is_compare(self, l, r, p, e):
        for a_, b_ in ((l, r), (r, l)):
            if b_.k == "ref" and b_.t is NONE and a_.k == "optval":
                return Not(a_.t[0])
        return SeqExec.is_compare(self, l, r, p, e)

    # ---- dictionary copy / pop / construction / for-each (DictImporter.__import) -----------------------------------------
    def s_For(self, st, p):
        if not getattr(self.spec, "plain_object", False):
            return SeqExec.s_For(self, st, p)
        out = []
        for q, itv in self.ev(st.iter, p):
            if itv.k != "opaque":
                raise Unsupported("iteration over %r" % (itv,))
            if st.orelse or any(isinstance(n, (ast.Break, ast.Continue, ast.Return, ast.Raise, ast.Yield)) for s_ in st.body for n in ast.walk(s_)):
                raise Unsupported("for-each body with control flow")
            elem = V("opaque", ("element-of", itv.t))
            before = list(q.extra.get("effects", []))
            sub = q.fork(label="foreach")
            sub.extra["effects"] = []
            if not isinstance(st.target, ast.Name):
                raise Unsupported("for-each target")
            sub.env[st.target.id] = elem
            ends = self.block(st.body, [sub])
            if len(ends) != 1:
                raise Unsupported("for-each body with several outcomes")
            q.extra["effects"] = before + [("for-each", itv, elem, tuple(ends[0].extra.get("effects", [])))]
            out.append(q)
        return out

    def narrow(self, v, truthy):
        if v.k == "opthelper" and truthy:
            return V("helper", v.t[1])
        return v

    def coerce(self, v, kind, p):
        if kind == "any":
            return v
        return SeqExec.coerce(self, v, kind, p)

    def json_call(self, e, p):
        """json.dumps/dump/loads/load(..., **self.kwargs) and helper.export / helper.import_: uninterpreted, recorded with their
        exact arguments"""
        f = e.func
        for q, fv in self.ev(f, p):
            pos_nodes = list(e.args)
            star = [k for k in e.keywords if k.arg is None]
            named = [k for k in e.keywords if k.arg is not None]
            for q2, vs in self.evs(pos_nodes + [k.value for k in star] + [k.value for k in named], q):
                pos = vs[:len(pos_nodes)]
                stars = vs[len(pos_nodes):len(pos_nodes) + len(star)]
                kws = dict(zip([k.arg for k in named], vs[len(pos_nodes) + len(star):]))
                if fv.k == "builtin" and fv.t == "dict" and len(pos) == 1 and not kws and not stars:
                    res = V("opaque", ("dict-copy-of", id(pos[0])), {"of": pos[0]})
                    self.effect(q2, "dict-copy", pos[0], res)
                    yield q2, res
                elif fv.k == "dictmethod" and fv.t[1] == "pop" and len(pos) == 2:
                    d_ = fv.t[0]
                    res = V("opaque", ("popped", id(d_)), {"from": d_})
                    self.effect(q2, "pop", d_, pos[0], pos[1], res)
                    yield q2, res
                elif fv.k == "bound" and fv.t[2] == "nodecls":
                    pass
                elif fv.k == "opaque" and fv.t == ("self.nodecls",):
                    res = V("opaque", ("new-node", len(q2.extra.get("effects", []))))
                    self.effect(q2, "construct", tuple(pos), tuple(stars), tuple(sorted(kws.items())), res)
                    yield q2, res
                elif fv.k == "jsonfn":
                    rid = len(q2.extra.get("effects", []))
                    res = V("opaque", ("json." + fv.t, rid))
                    self.effect(q2, "json." + fv.t, tuple(pos), tuple(stars), tuple(sorted(kws.items())), res)
                    yield q2, res
                elif fv.k == "helpermethod":
                    h, m = fv.t
                    res = V("opaque", (m, len(q2.extra.get("effects", []))))
                    self.effect(q2, "helper." + m, h, tuple(pos), dict(q2.extra.get("helperattrs", {})), res)
                    yield q2, res
                elif fv.k == "class" and fv.t in ("DictExporter", "DictImporter"):
                    if pos or stars or kws:
                        raise Unsupported("arguments to the default %s()" % fv.t)
                    yield q2, V("helper", "default:" + fv.t)
                elif fv.k == "bound":
                    obj, c_, m = fv.t
                    spec = self.reg.methods[(c_, m)]
                    for q3, res in self.apply_named(spec, [obj] + pos, kws, q2, "call:%s.%s" % (c_, m)):
                        self.effect(q3, "call:" + m, tuple(pos), res, dict(kws))
                        yield q3, res
                else:
                    raise Unsupported("call %s" % ast.unparse(e))

    def call(self, e, p):
        if getattr(self.spec, "plain_object", False):
            yield from self.json_call(e, p)
            return
        f = e.func
        # super(SymlinkNodeMixin, self).__getattr__(name) / .__setattr__(name, value)
        if isinstance(f, ast.Attribute) and isinstance(f.value, ast.Call) and isinstance(f.value.func, ast.Name) \
                and f.value.func.id == "super":
            for q, vs in self.evs(e.args, p):
                if f.attr == "__setattr__" and len(vs) == 2:
                    self.effect(q, "default-store-on-self", vs[0], vs[1])
                    yield q, VNONE
                elif f.attr == "__getattr__" and len(vs) == 1:
                    # object defines no __getattr__: the attribute lookup on the super object raises AttributeError
                    self.raise_(q, Exc("AttributeError", "super.__getattr__"))
                else:
                    raise Unsupported("super call %s" % ast.unparse(e))
            return
        if isinstance(f, ast.Attribute) and f.attr == "update":
            for q, (d, a) in self.evs2(f.value, e.args[0], p):
                if d.k != "dictof":
                    raise Unsupported("update on %r" % d)
                self.effect(q, "dict-update", vref(d.t) if not isinstance(d.t, str) else V("obj", d.t), a)
                yield q, VNONE
            return
        if isinstance(f, ast.Name) and f.id in ("getattr", "setattr") and f.id not in p.env:
            for q, vs in self.evs(e.args, p):
                if f.id == "getattr" and len(vs) == 2 and vs[0].k == "ref" and vs[1].k == "str":
                    r = q.fork(Not(THAS(vs[0].t, vs[1].t)), "getattr:missing")
                    self.effect(r, "getattr", vs[0], vs[1])
                    self.raise_(r, Exc("AttributeError", "getattr"))
                    q.assume(THAS(vs[0].t, vs[1].t))
                    self.effect(q, "getattr", vs[0], vs[1])
                    yield q, V("any", TGET(vs[0].t, vs[1].t))
                elif f.id == "setattr" and len(vs) == 3 and vs[0].k == "ref" and vs[1].k == "str":
                    self.effect(q, "setattr", vs[0], vs[1], vs[2])
                    yield q, VNONE
                else:
                    raise Unsupported("call %s" % ast.unparse(e))
            return
        raise Unsupported("call %s" % ast.unparse(e))

    def s_Raise(self, st, p):
        return Exec.s_Raise(self, st, p)


class AttrWorld(SeqWorld):
    def make_exec(self, spec, fi):
        return AttrExec(spec, fi)

    def make_arg(self, n, k):
        if k == "str":
            return V("str", String("arg_" + n))
        if k == "any":
            return V("any", Const("arg_" + n.replace("*", "star_"), U), {"truth": Const("truthy_" + n.replace("*", "star_"), B)})
        if k.startswith("obj:"):
            return V("obj", "self0", k[4:])
        return SeqWorld.make_arg(self, n.replace("*", "star_"), k)

    def arg_facts(self, args, spec):
        return []

    def kind_ok(self, want, value):
        return True


ATTRWORLD = AttrWorld()
