"""Back ends: every obligation is dumped as SMT-LIB2 and discharged by solver processes in a pool.

An obligation is accepted only by `unsat` of (path condition AND NOT goal).  `unknown`/timeout is re-tried
on the other installed solvers; `sat` on a quantified problem is treated like `unknown` for the verdict
(not accepted) but recorded.
"""
import os
import subprocess
import tempfile
import time
from concurrent.futures import ThreadPoolExecutor

from z3 import Not, Solver

BACKENDS = {
    "z3-5.1": lambda f, t: ["z3-new", "-smt2", "-T:%d" % t, f],
    "z3-4.8": lambda f, t: ["/usr/bin/z3", "-smt2", "-T:%d" % t, f],
    "cvc5-1.0": lambda f, t: ["/usr/bin/cvc5", "--lang=smt2", "--tlimit=%d" % (t * 1000), "--full-saturate-quant",
                              "--strings-exp", f],
}
ORDER = ["z3-5.1", "z3-4.8", "cvc5-1.0"]


def to_smt2(ob, seed=0):
    s = Solver()
    s.add(*ob.pc)
    s.add(Not(ob.goal))
    txt = s.to_smt2()
    if seed:
        txt = "(set-option :smt.random_seed %d)\n(set-option :sat.random_seed %d)\n" % (seed, seed) + txt
    return txt


def run_backend(backend, text, timeout):
    fd, path = tempfile.mkstemp(suffix=".smt2", prefix="pyvc_")
    try:
        if backend.startswith("cvc5"):
            text = "\n".join(l for l in text.splitlines() if not l.startswith("(set-option :smt.")
                             and not l.startswith("(set-option :sat."))
            if "(set-logic" not in text:
                text = "(set-logic ALL)\n" + text
        with os.fdopen(fd, "w") as f:
            f.write(text)
        t0 = time.time()
        try:
            r = subprocess.run(BACKENDS[backend](path, timeout), capture_output=True, text=True, timeout=timeout + 10)
            out = (r.stdout or "").strip().splitlines()
            res = out[0].strip() if out else "unknown"
            if res == "timeout" or "timeout" in res.lower() or "interrupted" in res.lower():
                res = "unknown"
            if res not in ("sat", "unsat", "unknown"):
                res = "error:" + (r.stdout + r.stderr)[:200].replace("\n", " ")
        except subprocess.TimeoutExpired:
            res = "unknown"
        return res, time.time() - t0
    finally:
        try:
            os.unlink(path)
        except OSError:
            pass


# portfolio: quantifier instantiation is unstable (the same query: 0.03 s / 0.6 s / > 20 s depending on seed and
# front end), so every obligation gets several short attempts on different solvers/seeds before longer ones.
ROUNDS_QUICK = [("z3-5.1", 4, 0), ("z3-4.8", 6, 0), ("cvc5-1.0", 10, 0), ("z3-5.1", 15, 7), ("z3-4.8", 20, 3),
                ("cvc5-1.0", 40, 0)]
ROUNDS_THOROUGH = ROUNDS_QUICK + [("z3-5.1", 60, 11), ("cvc5-1.0", 120, 0)]


def reseed(text, seed):
    if not seed:
        return text
    return "(set-option :smt.random_seed %d)\n(set-option :sat.random_seed %d)\n" % (seed, seed) + text


def discharge(obligations, rounds=None, jobs=None, seed=0, both=False, progress=None, canary_timeout=2,
              give_up_after=4):
    """discharge all obligations; an obligation is accepted only by `unsat`.  With both=True every accepted
    obligation is also put to a second back end (disagreement = checker fault)."""
    rounds = rounds or ROUNDS_QUICK
    jobs = jobs or min(16, (os.cpu_count() or 4))
    texts = [to_smt2(ob) for ob in obligations]
    for ob in obligations:
        ob.result, ob.backend, ob.time, ob.all_results = None, None, 0.0, []
    pending = list(range(len(obligations)))

    def attempt(k, be, t, sd):
        res, dt = run_backend(be, reseed(texts[k], sd + seed if sd else 0), t)
        return k, be, res, dt

    with ThreadPoolExecutor(max_workers=jobs) as pool:
        # canaries (vacuity guard): per (function, outcome) the exit paths are tried one after the other until one
        # is found whose path condition is not refutable within the budget; the rest is skipped
        groups = {}
        for k in pending:
            ob = obligations[k]
            if ob.kind == "CANARY":
                g = (ob.name.split("/CANARY:")[0], ob.name.split("/CANARY:")[1].split("/")[0])
                groups.setdefault(g, []).append(k)

        def run_group(ks):
            for k in ks:
                _, be, res, dt = attempt(k, ORDER[0], canary_timeout, 0)
                ob = obligations[k]
                ob.result, ob.backend, ob.time = res, be, round(dt, 3)
                ob.all_results.append((be, res, round(dt, 3)))
                if res != "unsat":
                    break
            for k in ks:
                if obligations[k].result is None:
                    obligations[k].result, obligations[k].backend = "skipped", None
        list(pool.map(run_group, groups.values()))
        # probes: each on its own (every one must stay satisfiable)
        probes = [k for k in pending if obligations[k].kind == "PROBE"]
        for k, be, res, dt in pool.map(lambda k: attempt(k, ORDER[0], canary_timeout, 0), probes):
            ob = obligations[k]
            ob.result, ob.backend, ob.time = res, be, round(dt, 3)
            ob.all_results.append((be, res, round(dt, 3)))
        pending = [k for k in pending if obligations[k].kind not in ("CANARY", "PROBE")]
        for rno, (be, t, sd) in enumerate(rounds):
            if not pending:
                break
            # after the short rounds, do not spend the long budgets on more than a few open obligations per
            # function: the verdict is already "not accepted" and the rest only enriches the report
            if rno >= 3:
                per_fn, keep = {}, []
                for k in pending:
                    fn = obligations[k].name.split("/", 3)[:3]
                    fn = "/".join(fn[:-1])
                    per_fn[fn] = per_fn.get(fn, 0) + 1
                    if per_fn[fn] <= give_up_after:
                        keep.append(k)
                run_now = keep
            else:
                run_now = pending
            nxt = [k for k in pending if k not in set(run_now)]
            for k, be_, res, dt in pool.map(lambda k: attempt(k, be, t, sd), run_now):
                ob = obligations[k]
                ob.time = round(ob.time + dt, 3)
                ob.all_results.append((be_, res, round(dt, 3)))
                if res == "unsat":
                    ob.result, ob.backend = "unsat", be_
                    if progress:
                        progress(ob)
                elif res == "sat":
                    # a model of (path condition and not goal): definitive, no further attempts
                    ob.result, ob.backend = "sat", be_
                else:
                    nxt.append(k)
            pending = sorted(nxt)
        for k in pending:
            ob = obligations[k]
            if ob.result == "sat":
                continue
            kinds = [r[1] for r in ob.all_results]
            ob.result = "sat" if "sat" in kinds else "unknown"
            ob.backend = ob.all_results[-1][0] if ob.all_results else None
        if both:
            acc = [k for k in range(len(obligations)) if obligations[k].result == "unsat"]

            def second(k):
                ob = obligations[k]
                other = [b for b in ORDER if b != ob.backend]
                for be in other:
                    res, dt = run_backend(be, texts[k], 20)
                    ob.all_results.append((be, res, round(dt, 3)))
                    if res == "unsat":
                        ob.second = be
                        return
                    if res == "sat":
                        ob.second = "DISAGREE:" + be
                        return
                ob.second = None
            list(pool.map(second, acc))
    return obligations
