"""known_findings.json (committed; never written at run time)"""
import json
import os

PATH = os.path.join(os.path.dirname(os.path.dirname(os.path.abspath(__file__))), "known_findings.json")
_data = None


def entries():
    global _data
    if _data is None:
        try:
            with open(PATH) as f:
                _data = json.load(f)["findings"]
        except FileNotFoundError:
            _data = []
    return _data


def is_known(kfid):
    return any(e["id"] == kfid and e["status"] == "known" for e in entries())


def for_property(pid):
    return [e for e in entries() if e["property"] == pid]
