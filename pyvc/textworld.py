"""Text world: seq world + strings (z3 String), arbitrary user values (sort Any with STR = str()), value-returning
callbacks, exporter/renderer objects with fields, generators of lines.  %-formatting with a constant template is
translated mechanically into a concatenation."""
import ast
import re

from z3 import (And, BoolVal, Concat, Const, DeclareSort, Empty, Function, If, Implies, Int, IntToStr, IntVal, K, Length, Not,
                Or, PrefixOf, Select, SeqSort, Store, String, StringSort, StringVal, Unit, Array)

from .core import Exec, Exc, IterSeq, Path, Unsupported, V, VNONE, vbool, vint, vref, feasible
from .heap import B, I, NONE, R, fresh, fresh_const
from .heapworld import HeapExec
from .seqworld import (ATTR, EQ, HAS, NOSTATE, SEQWORLD, SeqExec, SeqR, SeqWorld, U, as_optfn, as_optint, optint, qseq,
                       strconst)

Str = StringSort()
SeqStr = SeqSort(Str)
SeqU = SeqSort(U)
EMPTYL = Empty(SeqStr)
STR = Function("STR", U, Str)              # str(value) / "%s" % value / six.text_type(value)
REPR = Function("REPR", U, Str)            # repr(value)
ISNONE = Function("ISNONE", U, B)          # value is None
NONE_U = Const("NONE_U", U)
SPLIT = Function("SPLIT", Str, Str, SeqStr)   # s.split(sep)
SPLITLINES = Function("SPLITLINES", Str, SeqStr)   # s.splitlines()
JOIN = Function("JOIN", Str, SeqStr, Str)          # sep.join(lines)
OFNODE = Function("OFNODE", R, U)                  # a node seen as an arbitrary value (repr(node), "%s" % node)
ISLIST = Function("ISLIST", U, B)     # isinstance(value, (list, tuple))
ELEMS = Function("ELEMS", U, SeqU)             # the elements of a user value that is a list / tuple
UPPER = Function("UPPER", Str, Str)            # s.upper()
SEP = Function("SEP", R, Str)                  # node.separator (class attribute of the node class, non-empty)
ROOT = Function("ROOT", R, R)                  # node.root (navigation contract, C04)
UFn = DeclareSort("UFn")                   # user callback node -> value
from z3 import Datatype as _DT
_K = _DT("CacheKey")                         # keys of Resolver._match_cache: the pair (pattern, ignorecase)
_K.declare("KEY", ("KEYP", Str), ("KEYI", B))
KS = _K.create()
KEY, KEYP, KEYI = KS.KEY, KS.KEYP, KS.KEYI
RE = DeclareSort("Regex")                    # compiled pattern objects
COMPILE = Function("COMPILE", Str, I, RE)    # re.compile(pattern, flags)
MATCHES = Function("MATCHES", RE, Str, B)    # compiled.match(name) is not None
REESC = Function("REESC", Str, Str)          # re.escape(char)
IGNORECASE = Const("re_IGNORECASE", I)
BOR = Function("BOR", I, I, I)               # a | b on ints
from z3 import Datatype, BoolSort
_Row = Datatype("Row")
_Row.declare("Row", ("pre", Str), ("fill", Str), ("node", R))
Row = _Row.create()                          # render.Row(pre, fill, node)
_LP = Datatype("LastPair")
_LP.declare("LastPair", ("item", R), ("last", B))
LastPair = _LP.create()                      # (item, is_last) pairs of render._is_last
SeqRow = SeqSort(Row)
SeqLP = SeqSort(LastPair)
SeqBool = SeqSort(BoolSort())
J = DeclareSort("JDict")                     # dictionaries built by DictExporter (fresh objects; known through observers)
JCLS = Function("JCLS", J, U)                # the dictcls it was made with
JARG = Function("JARG", J, U)                # the argument handed to dictcls (the attriter result)
JHASKIDS = Function("JHASKIDS", J, B)        # has a 'children' entry
SeqJ = SeqSort(J)
JKIDS = Function("JKIDS", J, SeqJ)           # its 'children' list
NEWJ = Function("NEWJ", U, U, J)             # dictcls(arg) before any item assignment
WITHKIDS = Function("WITHKIDS", J, SeqJ, J)  # d after d['children'] = kids
_KV = Datatype("KV")
_KV.declare("KV", ("key", Str), ("val", U))
KV = _KV.create()
SeqKV = SeqSort(KV)
DKV = Function("DKV", R, SeqKV)              # node.__dict__.items()
KVSU = Function("KVSU", SeqKV, U)            # a sequence of (key, value) pairs seen as an arbitrary iterable value
AFn = DeclareSort("AFn")                     # attriter: iterable of pairs -> iterable of pairs
appA = Function("appA", AFn, U, U)
SeqFn = DeclareSort("SeqFn")                 # childiter: sequence of nodes -> sequence of nodes
appSeq = Function("appSeq", SeqFn, SeqR, SeqR)
JOINSEG = Function("JOINSEG", SeqBool, I, Str, Str, Str)   # "".join(a if c else b for c in flags[:j])
CmpFn = DeclareSort("CmpFn")               # string comparison callback (Resolver.__cmp / Resolver.__match)
UFn2 = DeclareSort("UFn2")                 # user callback (node, child) -> value
appU = Function("appU", UFn, R, U)
appU2 = Function("appU2", UFn2, R, R, U)
SPACES = Function("SPACES", I, Str)        # ' ' * n
ESC = Function("ESC", Str, Str)            # escaping of '"' and '\' (contract of esc(), relative to re.sub)
OFSTR = Function("OFSTR", Str, U)          # a str object seen as arbitrary value
HEXS = Function("HEXS", I, Str)            # hex(n)
_kp, _ki, _bi = String("kp_ax"), Const("ki_ax", B), Int("bi_ax")
from z3 import ForAll as _FA
_jx, _ksx, _cx, _ax = Const("j_ax", J), Const("ks_ax", SeqJ), Const("c_ax", U), Const("a_ax", U)
J_AXIOMS = [_FA([_cx, _ax], And(JCLS(NEWJ(_cx, _ax)) == _cx, JARG(NEWJ(_cx, _ax)) == _ax, Not(JHASKIDS(NEWJ(_cx, _ax))))),
            _FA([_jx, _ksx], And(JCLS(WITHKIDS(_jx, _ksx)) == JCLS(_jx), JARG(WITHKIDS(_jx, _ksx)) == JARG(_jx),
                                 JHASKIDS(WITHKIDS(_jx, _ksx)), JKIDS(WITHKIDS(_jx, _ksx)) == _ksx))]
TEXT_AXIOMS = [ISNONE(NONE_U), _FA([_bi], BOR(0, _bi) == _bi)]
_s = String("s_ax")


def tostr(v):
    """the text `'%s' % v` inserts"""
    if v.k == "str":
        return v.t
    if v.k == "pystr":
        return StringVal(v.t)
    if v.k == "any":
        return STR(v.t)
    if v.k == "int":
        return IntToStr(v.t)
    raise Unsupported("'%%s' of %r" % (v,))


def toany(v):
    if v.k == "any":
        return v.t
    if v.k == "str":
        return OFSTR(v.t)
    if v.k == "pystr":
        return OFSTR(StringVal(v.t))
    if v.k == "ref" and v.t is NONE:
        return NONE_U
    if v.k == "ref":
        return OFNODE(v.t)
    raise Unsupported("arbitrary value from %r" % (v,))


def vstr(t):
    return V("str", t if not isinstance(t, str) else StringVal(t))


FMT = re.compile(r"%[sdr]|%%")


def percent_format(template, args):
    """mechanical translation of `template % args` (only %s %d %r %%)"""
    pieces, k, pos = [], 0, 0
    for m in FMT.finditer(template):
        if m.start() > pos:
            pieces.append(StringVal(template[pos:m.start()]))
        if m.group(0) == "%%":
            pieces.append(StringVal("%"))
        else:
            if k >= len(args):
                raise Unsupported("format arguments")
            a = args[k]
            k += 1
            if m.group(0) == "%r":
                pieces.append(REPR(toany(a)))
            elif m.group(0) == "%d":
                if a.k != "int":
                    raise Unsupported("%%d of %r" % (a,))
                pieces.append(IntToStr(a.t))
            else:
                pieces.append(tostr(a))
        pos = m.end()
    if pos < len(template):
        pieces.append(StringVal(template[pos:]))
    if k != len(args):
        raise Unsupported("format arguments")
    if not pieces:
        return StringVal("")
    t = pieces[0]
    for x in pieces[1:]:
        t = Concat(t, x)
    return t


class TextExec(SeqExec):
    def global_name(self, name, p):
        if name in ("str", "repr", "hex", "id", "callable", "isinstance", "type"):
            yield p, V("builtin", name)
        elif name in getattr(self.reg, "globals", {}):
            yield p, self.reg.globals[name]
        elif name == "re":
            yield p, V("module", "re")
        elif name == "Row":
            yield p, V("class", "Row")
        else:
            yield from SeqExec.global_name(self, name, p)

    def e_Constant(self, e, p):
        if isinstance(e.value, str):
            yield p, V("pystr", e.value)
        else:
            yield from Exec.e_Constant(self, e, p)

    def s_Expr(self, st, p):
        # parts.pop(0) on a local list of strings: functional update of the local
        v = st.value
        if (isinstance(v, ast.Call) and isinstance(v.func, ast.Attribute) and v.func.attr == "append" and isinstance(v.func.value, ast.Name)
                and v.func.value.id in p.env and p.env[v.func.value.id].k == "qseq" and len(v.args) == 1 and not v.keywords):
            lst = p.env[v.func.value.id]
            if (lst.x or {}).get("shared"):
                raise Unsupported("in-place mutation of a list that has another name")
            out = []
            for q, a in self.ev(v.args[0], p):
                if a.k != "ref" or (lst.x or {}).get("elem", "ref") != "ref":
                    raise Unsupported("append of %r" % (a,))
                q.env[v.func.value.id] = V("qseq", Concat(q.env[v.func.value.id].t, Unit(a.t)), dict(lst.x or {}))
                out.append(q)
            return out
        if (isinstance(v, ast.Call) and isinstance(v.func, ast.Attribute) and v.func.attr == "pop" and isinstance(v.func.value, ast.Name)
                and v.func.value.id in p.env and p.env[v.func.value.id].k == "qseq" and len(v.args) == 1
                and isinstance(v.args[0], ast.Constant) and v.args[0].value == 0):
            lst = p.env[v.func.value.id]
            if (lst.x or {}).get("shared"):
                raise Unsupported("in-place mutation of a list that has another name")
            self.oblig(p, "SAFE", "pop-from-nonempty", Length(lst.t) >= 1, note="pop from an empty list raises IndexError")
            p.assume(Length(lst.t) >= 1)
            from z3 import Extract
            p.env[v.func.value.id] = V("qseq", Extract(lst.t, 1, Length(lst.t) - 1), dict(lst.x or {}))
            return [p]
        return SeqExec.s_Expr(self, st, p)

    def e_List(self, e, p):
        # a list literal of strings
        if e.elts and all(isinstance(x, ast.Constant) and isinstance(x.value, str) for x in e.elts):
            t = Unit(StringVal(e.elts[0].value))
            for x in e.elts[1:]:
                t = Concat(t, Unit(StringVal(x.value)))
            yield p, V("qseq", t, {"elem": "str"})
            return
        yield from SeqExec.e_List(self, e, p)

    def e_Lambda(self, e, p):
        # one-argument predicate lambdas (default filter/stop) become callback symbols at once
        if len(e.args.args) == 1 and isinstance(e.body, ast.Constant) and isinstance(e.body.value, bool):
            yield p, self.lambda_fn(V("lambda", e, dict(p.env)), p)
            return
        if len(e.args.args) == 1 and isinstance(e.body, ast.Name) and e.body.id == e.args.args[0].arg and getattr(self.reg, "map_calls", False):
            # identity function on attribute iterables (default attriter)
            from z3 import ForAll
            fn = fresh_const("identity", AFn)
            xq = Const("xid", U)
            p.assume(ForAll([xq], appA(fn, xq) == xq))
            yield p, V("afn", fn)
            return
        yield from SeqExec.e_Lambda(self, e, p)

    def s_For(self, st, p):
        # `for x in self` where the object's class has an __iter__ under contract: iterate what the contract returns
        if isinstance(st.iter, ast.Name) and st.iter.id in p.env and p.env[st.iter.id].k == "obj":
            obj = p.env[st.iter.id]
            spec = None
            for c in self.reg.mro(obj.x):
                spec = self.reg.methods.get((c, "__iter__"))
                if spec is not None:
                    break
            if spec is not None:
                out = []
                for q, r in self.apply_named(spec, [obj], {}, p, "call:%s.__iter__" % obj.x):
                    st2 = ast.copy_location(ast.For(target=st.target, iter=ast.Name(id="__iterated", ctx=ast.Load()), body=st.body,
                                                    orelse=st.orelse, type_comment=None), st)
                    ast.fix_missing_locations(st2.iter)
                    self._ord_cache[("loop", id(st2))] = self.ordinal(st, "loop")
                    q.env["__iterated"] = r
                    for z in SeqExec.s_For(self, st2, q):
                        z.env.pop("__iterated", None)
                        out.append(z)
                return out
        return SeqExec.s_For(self, st, p)

    def local_gen_start(self, fi):
        # nested generators in the text world produce lines of text
        return Empty(SeqStr)

    def local_gen_value(self, p):
        return V("qseq", p.out, {"elem": "str"})

    def narrow_isinstance(self, v, types, positive, p):
        """`if isinstance(x, (list, tuple)):` - in the true branch x is the sequence of its elements"""
        if v.k == "any" and positive and isinstance(types, ast.Tuple) and sorted(ast.unparse(t) for t in types.elts) == ["list", "tuple"]:
            return V("useq", ELEMS(v.t), {"of": v.t})
        return v

    def helper_as_value(self, h, p):
        # a module-level `def f(x): return x` used as the default attriter is the identity lambda under another name
        a = h.node.args
        if (getattr(self.reg, "map_calls", False) and len(a.args) == 1 and not (a.vararg or a.kwarg or a.kwonlyargs or a.defaults)
                and len(h.body) == 1 and isinstance(h.body[0], ast.Return) and isinstance(h.body[0].value, ast.Name)
                and h.body[0].value.id == a.args[0].arg):
            from z3 import ForAll
            fn = fresh_const("identity", AFn)
            xq = Const("xid", U)
            p.assume(ForAll([xq], appA(fn, xq) == xq))
            return V("afn", fn)
        return None

    def truth(self, v, p, e=None):
        if v.k == "optafn":
            return v.t[0]
        if v.k == "afn":
            return BoolVal(True)
        if v.k in ("bseq", "useq"):
            return Length(v.t) > 0
        if v.k in ("optufn", "optufn2"):
            return v.t[0]
        if v.k == "optseq":
            return And(v.t[0], Length(v.t[1]) > 0)
        if v.k == "str":
            return Length(v.t) > 0
        if v.k in ("ufn", "ufn2", "bound"):
            return BoolVal(True)
        if v.k == "any":
            raise Unsupported("truth value of an arbitrary user value in %s" % (ast.unparse(e) if e is not None else "?"))
        return SeqExec.truth(self, v, p, e)

    def is_compare(self, l, r, p, e):
        for a, b in ((l, r), (r, l)):
            if b.k == "ref" and b.t is NONE:
                if a.k == "matchobj":
                    return Not(a.t)
                if a.k == "any":
                    return ISNONE(a.t)
                if a.k in ("optufn", "optseq"):
                    return Not(a.t[0])
                if a.k in ("str", "pystr", "ufn", "ufn2"):
                    return BoolVal(False)
        return SeqExec.is_compare(self, l, r, p, e)

    def compare_other(self, op, l, r, p, e):
        if isinstance(op, (ast.Eq, ast.NotEq)) and l.k in ("str", "pystr") and r.k in ("str", "pystr"):
            t = tostr(l) == tostr(r)
            return Not(t) if isinstance(op, ast.NotEq) else t
        if isinstance(op, (ast.In, ast.NotIn)) and l.k in ("str", "pystr") and r.k == "tuple" and all(x.k in ("str", "pystr") for x in r.t):
            t = Or(*[tostr(l) == tostr(x) for x in r.t]) if r.t else BoolVal(False)
            return Not(t) if isinstance(op, ast.NotIn) else t
        if isinstance(op, (ast.In, ast.NotIn)) and l.k == "pystr" and r.k in ("str", "pystr"):
            from z3 import Contains
            t = Contains(tostr(r), StringVal(l.t))
            return Not(t) if isinstance(op, ast.NotIn) else t
        return SeqExec.compare_other(self, op, l, r, p, e)

    def binop(self, op, l, r, p, e):
        if isinstance(op, ast.Add) and l.k == "bseq" and r.k == "tuple" and all(x.k == "bool" for x in r.t):
            t_ = l.t
            for x in r.t:
                t_ = Concat(t_, Unit(x.t))
            yield p, V("bseq", t_)
            return
        if isinstance(op, ast.Mod) and l.k == "pystr":
            args = list(r.t) if r.k == "tuple" else [r]
            yield p, vstr(percent_format(l.t, args))
            return
        if isinstance(op, ast.Add) and l.k in ("str", "pystr") and r.k in ("str", "pystr"):
            yield p, vstr(Concat(tostr(l), tostr(r)))
            return
        if isinstance(op, ast.BitOr) and l.k == "int" and r.k == "int":
            yield p, vint(BOR(l.t, r.t))
            return
        if isinstance(op, ast.Mult) and l.k == "pystr" and l.t == " " and r.k == "int":
            yield p, vstr(SPACES(r.t))
            return
        if isinstance(op, ast.Mult) and l.k == "pystr" and l.t == " " and r.k == "str_len":
            yield p, vstr(SPACES(r.t))
            return
        yield from SeqExec.binop(self, op, l, r, p, e)

    # ------------------------------------------------------------------ attributes of the object under verification
    def attr_load(self, obj, attr, p, e):
        if obj.k == "module" and obj.t == "re":
            if attr == "IGNORECASE":
                yield p, vint(IGNORECASE)
            elif attr in ("compile", "escape"):
                yield p, V("refn", attr)
            else:
                raise Unsupported("re.%s" % attr)
            return
        if obj.k == "class" and attr == "_match_cache" and "cache" in p.extra:
            yield p, V("cache", None)
            return
        if obj.k == "re" and attr == "match":
            yield p, V("rematch", obj.t)
            return
        if obj.k == "cache" and attr == "clear":
            yield p, V("cacheclear", None)
            return
        if obj.k == "ref" and attr == "separator":
            p.assume(Length(SEP(obj.t)) > 0)
            yield p, vstr(SEP(obj.t))
            return
        if obj.k == "ref" and attr == "root":
            from .seqworld import PAR
            p.assume(PAR(ROOT(obj.t)) == NONE, ROOT(obj.t) != NONE)
            yield p, vref(ROOT(obj.t))
            return
        if obj.k == "ref" and attr == "__dict__":
            yield p, V("nodedict", obj.t)
            return
        if obj.k == "nodedict" and attr == "items":
            yield p, V("dictitems", obj.t)
            return
        if obj.k in ("str", "pystr") and attr == "join":
            yield p, V("strmethod", (obj, "join"))
            return
        if obj.k == "row" and attr in ("pre", "fill", "node"):
            yield p, (vstr(getattr(Row, attr)(obj.t)) if attr != "node" else vref(Row.node(obj.t)))
            return
        if obj.k in ("str", "pystr") and attr in ("split", "startswith", "upper", "splitlines"):
            yield p, V("strmethod", (obj, attr))
            return
        if obj.k == "ref" and attr not in ("children", "parent", "is_leaf"):
            h = self.reg.ref_attr.get(attr)
            if h is not None:
                yield from h(self, obj, p)
                return
            # user attribute of a node (e.g. node.name): must exist (AttributeError otherwise is the user's)
            yield p, V("any", ATTR(obj.t, strconst(attr)))
            return
        if obj.k == "obj":
            fields = p.extra["objs"][obj.t]
            if attr in fields:
                v = fields[attr]
                if v.k == "counter":
                    v = V("counter", v.t, (obj.t, attr))
                yield p, v
                return
            cls = obj.x
            for c in self.reg.mro(cls):
                if (c, attr) in self.reg.methods or (c, attr) in self.reg.statics:
                    yield p, V("bound", (obj, c, attr))
                    return
            raise Unsupported("attribute .%s of %s object" % (attr, cls))
        yield from SeqExec.attr_load(self, obj, attr, p, e)

    def map_comprehension(self, e, p):
        """[call(v, ...) for v in S] where the call has a contract with a single normal outcome: a fresh sequence R with
        |R| = |S| and, for every index, the callee's postcondition for (S[i], R[i]); callee preconditions are obligations"""
        from z3 import ForAll, substitute
        g = e.generators[0]
        for q, sv in self.ev(g.iter, p):
            seq = self.as_iterseq(sv, q)
            i = Int(fresh("mi"))
            sub = q.fork(And(0 <= i, i < seq.n), "map")
            n0 = len(sub.pc)
            sub.env[g.target.id] = seq.at(i)
            saved_h, self.handlers = self.handlers, [[]]
            outs = list(self.ev(e.elt, sub))
            raised = self.handlers.pop()
            self.handlers = saved_h
            if len(outs) != 1 or raised:
                raise Unsupported("comprehension body with several outcomes: %s" % ast.unparse(e.elt))
            q2, res = outs[0]
            if res.k != "jdict":
                raise Unsupported("map comprehension of %r" % (res,))
            Rs = Const(fresh("mapped"), SeqJ)
            ii = Int("ii")
            q.assume(Length(Rs) == seq.n)
            for f_ in q2.pc[n0:]:
                q.assume(ForAll([ii], Implies(And(0 <= ii, ii < seq.n), substitute(f_, (res.t, Rs[ii]), (i, ii)))))
            yield q, V("qseq", Rs, {"elem": "jdict"})

    def e_ListComp(self, e, p):
        if len(e.generators) == 1 and not e.generators[0].ifs and isinstance(e.generators[0].target, ast.Name) \
                and isinstance(e.elt, ast.Call) and getattr(self.reg, "map_calls", False):
            yield from self.map_comprehension(e, p)
            return
        # [A if c else B for c in flags]  over a tuple of booleans: kept symbolic until it is joined
        if len(e.generators) == 1 and not e.generators[0].ifs and isinstance(e.generators[0].target, ast.Name) \
                and isinstance(e.elt, ast.IfExp) and isinstance(e.elt.test, ast.Name) and e.elt.test.id == e.generators[0].target.id:
            for q, fl in self.ev(e.generators[0].iter, p):
                if fl.k != "bseq":
                    raise Unsupported("comprehension over %r" % (fl,))
                for q2, (a, b) in self.evs2(e.elt.body, e.elt.orelse, q):
                    yield q2, V("segs", (fl.t, Length(fl.t), tostr(a), tostr(b)))
            return
        yield from SeqExec.e_ListComp(self, e, p)

    def slice_load(self, obj, lo, hi, p, e):
        if obj.k == "segs" and lo is None and hi is not None and hi.k == "int":
            fl, n, a, b = obj.t
            h = If(hi.t < 0, hi.t + n, hi.t)
            yield p, V("segs", (fl, If(h < 0, 0, If(h > n, n, h)), a, b))
            return
        if obj.k == "useq" and hi is None and lo is not None and lo.k == "int" and isinstance(e.slice.lower, ast.Constant) \
                and e.slice.lower.value == 1:
            from z3 import Extract
            yield p, V("useq", Extract(obj.t, 1, Length(obj.t) - 1), dict(obj.x or {}))     # s[1:]
            return
        if obj.k == "qseq" and hi is None and lo is not None and lo.k == "int" and isinstance(e.slice.lower, ast.Constant) \
                and e.slice.lower.value == 1:
            from z3 import Extract
            yield p, V("qseq", Extract(obj.t, 1, Length(obj.t) - 1), dict(obj.x or {}))     # s[1:]
            return
        if obj.k == "qseq" and (obj.x or {}).get("elem") == "str":
            s = obj.t
            n = Length(s)

            def norm(v, default):
                if v is None:
                    return default
                t_ = If(v.t < 0, v.t + n, v.t)
                return If(t_ < 0, 0, If(t_ > n, n, t_))
            a, b = norm(lo, IntVal(0)), norm(hi, n)
            from z3 import Extract
            yield p, V("qseq", Extract(s, a, If(b > a, b - a, 0)), {"elem": "str"})
            return
        yield from SeqExec.slice_load(self, obj, lo, hi, p, e)

    def cache_key(self, key):
        if key.k == "tuple" and len(key.t) == 2 and key.t[0].k in ("str", "pystr") and key.t[1].k == "bool":
            return KEY(tostr(key.t[0]), key.t[1].t)
        raise Unsupported("cache key %r (the contract expects the pair (pattern, ignorecase))" % (key,))

    def subscript_load(self, obj, key, p, e):
        if obj.k == "useq" and key.k == "int":
            s = obj.t
            idx = If(key.t < 0, key.t + Length(s), key.t)
            self.oblig(p, "SAFE", "index", And(0 <= idx, idx < Length(s)), note="no IndexError")
            p.assume(0 <= idx, idx < Length(s))
            yield p, V("any", s[idx])
            return
        if obj.k == "bseq" and key.k == "int":
            s = obj.t
            idx = If(key.t < 0, key.t + Length(s), key.t)
            self.oblig(p, "SAFE", "index", And(0 <= idx, idx < Length(s)), note="no IndexError")
            p.assume(0 <= idx, idx < Length(s))
            yield p, vbool(s[idx])
            return
        if obj.k == "cache":
            k = self.cache_key(key)
            dom, val, n = p.extra["cache"]
            r = p.fork(Not(Select(dom, k)), "cache:miss")
            if self.handlers:
                self.raise_(r, Exc("KeyError", "subscript"))
            else:
                self.oblig(p, "SAFE", "key-present", Select(dom, k))
            p.assume(Select(dom, k))
            p.trace.append("cache:hit")
            yield p, V("re", Select(val, k))
            return
        if obj.k == "iddict" and key.k == "id":
            dom, val = obj.t
            r = p.fork(Not(Select(dom, key.t)), "dict:missing")
            if self.handlers:
                self.raise_(r, Exc("KeyError", "subscript"))
            else:
                self.oblig(p, "SAFE", "key-present", Select(dom, key.t), note="no KeyError")
            p.assume(Select(dom, key.t))
            p.trace.append("dict:hit")
            yield p, vint(Select(val, key.t))
            return
        yield from SeqExec.subscript_load(self, obj, key, p, e)

    def assign(self, tgt, v, p, aug=False):
        # data["children"] = children   on a local dictionary built by dictcls
        if isinstance(tgt, ast.Subscript) and isinstance(tgt.value, ast.Name) and tgt.value.id in p.env \
                and p.env[tgt.value.id].k == "jdict" and isinstance(tgt.slice, ast.Constant) and tgt.slice.value == "children":
            if v.k != "qseq" or (v.x or {}).get("elem") != "jdict":
                raise Unsupported("'children' entry of %r" % (v,))
            p.env[tgt.value.id] = V("jdict", WITHKIDS(p.env[tgt.value.id].t, v.t))
            return [p]
        if isinstance(tgt, ast.Subscript) and isinstance(tgt.value, ast.Attribute) and tgt.value.attr == "_match_cache" \
                and "cache" in p.extra:
            out = []
            for q, key in self.ev(tgt.slice, p):
                if v.k != "re":
                    raise Unsupported("cache store of %r" % (v,))
                k = self.cache_key(key)
                dom, val, n = q.extra["cache"]
                q.extra["cache"] = (Store(dom, k, True), Store(val, k, v.t), n + If(Select(dom, k), 0, 1))
                q.trace.append("cache:store")
                out.append(q)
            return out
        # self.<dictfield>[id] = int   (identifier table of the exporters)
        if isinstance(tgt, ast.Subscript) and isinstance(tgt.value, ast.Attribute) and isinstance(tgt.value.value, ast.Name) \
                and tgt.value.value.id in p.env and p.env[tgt.value.value.id].k == "obj":
            obj = p.env[tgt.value.value.id]
            fname = self.mangle(tgt.value.attr)
            fields = p.extra["objs"][obj.t]
            d = fields.get(fname)
            if d is not None and d.k == "iddict":
                out = []
                for q, key in self.ev(tgt.slice, p):
                    if key.k != "id" or v.k != "int":
                        raise Unsupported("identifier table store %s" % ast.unparse(tgt))
                    dom, val = q.extra["objs"][obj.t][fname].t
                    objs = dict(q.extra["objs"])
                    objs[obj.t] = dict(objs[obj.t])
                    objs[obj.t][fname] = V("iddict", (Store(dom, key.t, True), Store(val, key.t, v.t)))
                    q.extra["objs"] = objs
                    out.append(q)
                return out
        return SeqExec.assign(self, tgt, v, p, aug)

    def yield_value(self, p, v):
        if v.k == "tuple" and len(v.t) == 2 and v.t[0].k in ("str", "pystr") and v.t[1].k == "any" and p.out.sort() == SeqKV:
            p.out = Concat(p.out, Unit(KV.KV(tostr(v.t[0]), v.t[1].t)))
            return
        if v.k == "row":
            p.out = Concat(p.out, Unit(v.t))
            return
        if v.k == "tuple" and len(v.t) == 2 and v.t[0].k == "ref" and v.t[1].k == "bool" and p.out.sort() == SeqLP:
            p.out = Concat(p.out, Unit(LastPair.LastPair(v.t[0].t, v.t[1].t)))
            return
        if v.k in ("str", "pystr"):
            p.out = Concat(p.out, Unit(tostr(v)))
        elif v.k == "tuple" and p.out.sort() == SeqSort(self.reg.rowsort) if getattr(self.reg, "rowsort", None) is not None else False:
            p.out = Concat(p.out, Unit(self.reg.mkrow(v)))
        else:
            SeqExec.yield_value(self, p, v)

    def seqterm(self, v, p):
        if v.k == "optseq":
            return v.t[1]
        if v.k == "useq":
            return v.t
        return SeqExec.seqterm(self, v, p)

    def as_iterseq(self, v, p):
        if v.k == "qseq" and (v.x or {}).get("elem") == "kv":
            s = v.t
            sq = IterSeq(Length(s), lambda i: V("tuple", (vstr(KV.key(s[i])), V("any", KV.val(s[i])))), desc="items")
            sq.term, sq.elem = s, "kv"
            return sq
        if v.k == "bseq":
            s = v.t
            sq = IterSeq(Length(s), lambda i: vbool(s[i]), desc="flags")
            sq.term, sq.elem = s, "bool"
            return sq
        if v.k in ("qseq", "gen") and (v.x or {}).get("elem") == "lastpair":
            s = self.seqterm(v, p)
            sq = IterSeq(Length(s), lambda i: V("tuple", (vref(LastPair.item(s[i])), vbool(LastPair.last(s[i])))), desc="pairs")
            sq.term, sq.elem = s, "lastpair"
            return sq
        if v.k in ("qseq", "gen") and (v.x or {}).get("elem") == "row":
            s = self.seqterm(v, p)
            sq = IterSeq(Length(s), lambda i: V("row", s[i]), desc="rows")
            sq.term, sq.elem = s, "row"
            return sq
        if v.k in ("optseq", "useq"):
            s = self.seqterm(v, p)
            sq = IterSeq(Length(s), lambda i: V("any", s[i]), desc="useq")
            sq.term, sq.elem = s, "any"
            return sq
        if v.k in ("str", "pystr"):
            from z3 import SubString
            s = tostr(v)
            sq = IterSeq(Length(s), lambda i: vstr(SubString(s, i, 1)), desc="characters")
            sq.term, sq.elem = s, "char"
            return sq
        if v.k == "qseq" and (v.x or {}).get("elem") == "str":
            s = v.t
            sq = IterSeq(Length(s), lambda i: vstr(s[i]), desc="strings")
            sq.term, sq.elem = s, "str"
            return sq
        if v.k == "gen" and (v.x or {}).get("elem") == "str":
            s = self.seqterm(v, p)
            sq = IterSeq(Length(s), lambda i: vstr(s[i]), desc="lines")
            sq.term, sq.elem = s, "str"
            return sq
        return SeqExec.as_iterseq(self, v, p)

    def call_value(self, fv, pos, kw, p, e):
        if fv.k == "selector" and len(pos) == 1 and pos[0].k == "ref" and not kw:
            # an attribute selector that is a callable: applied to the node (only reached where callable(selector) holds)
            self.oblig(p, "SAFE", "callable", fv.t[0], note="the selector is called only if it is callable")
            yield p, V("any", appU(fv.t[1], pos[0].t))
            return
        if fv.k == "strmethod":
            s, m = fv.t
            st = tostr(s)
            if m == "join" and len(pos) == 1 and pos[0].k == "segs" and s.k == "pystr" and s.t == "":
                fl, n, a, b = pos[0].t
                yield p, vstr(JOINSEG(fl, n, a, b))
                return
            if m == "join" and len(pos) == 1 and pos[0].k in ("qseq", "gen") and (pos[0].x or {}).get("elem") == "str":
                yield p, vstr(JOIN(st, self.seqterm(pos[0], p)))
                return
            if m == "upper" and not pos:
                yield p, vstr(UPPER(st))
            elif m == "startswith" and len(pos) == 1:
                yield p, vbool(PrefixOf(tostr(pos[0]), st))
            elif m == "splitlines" and not pos:
                yield p, V("qseq", SPLITLINES(st), {"elem": "str"})
            elif m == "split" and len(pos) == 1:
                sep = tostr(pos[0])
                sp = SPLIT(st, sep)
                # str.split(sep) for a non-empty separator: at least one piece; a leading separator gives an empty first piece
                p.assume(Length(sp) >= 1, Implies(And(PrefixOf(sep, st), Length(sep) > 0), And(Length(sp) >= 2, sp[0] == StringVal(""))))
                yield p, V("qseq", sp, {"elem": "str"})
            else:
                raise Unsupported("str.%s" % m)
            return
        if fv.k == "dictitems":
            yield p, V("qseq", DKV(fv.t), {"elem": "kv"})
            return
        if fv.k == "dictcls":
            if len(pos) != 1:
                raise Unsupported("dictcls call")
            yield p, V("jdict", NEWJ(fv.t, toany(pos[0]) if pos[0].k != "qseq" else KVSU(pos[0].t)))
            return
        if fv.k in ("afn", "optafn"):
            fn = fv.t if fv.k == "afn" else fv.t[1]
            if len(pos) != 1:
                raise Unsupported("attriter call")
            a0 = pos[0]
            arg = KVSU(self.seqterm(a0, p)) if a0.k in ("qseq", "gen") else toany(a0)
            yield p, V("any", appA(fn, arg))
            return
        if fv.k == "class" and fv.t == "Row":
            if len(pos) != 3 or pos[2].k != "ref":
                raise Unsupported("Row(...) arguments")
            yield p, V("row", Row.Row(tostr(pos[0]), tostr(pos[1]), pos[2].t))
            return
        if fv.k == "seqfn":
            if len(pos) != 1 or pos[0].k != "qseq":
                raise Unsupported("childiter call")
            yield p, qseq(appSeq(fv.t, pos[0].t))
            return
        if fv.k == "refn":
            if fv.t == "escape" and len(pos) == 1:
                yield p, vstr(REESC(tostr(pos[0])))
            elif fv.t == "compile" and len(pos) >= 1:
                fl = pos[1].t if len(pos) > 1 else (kw["flags"].t if "flags" in kw else IntVal(0))
                yield p, V("re", COMPILE(tostr(pos[0]), fl))
            else:
                raise Unsupported("re.%s call" % fv.t)
            return
        if fv.k == "rematch":
            yield p, V("matchobj", MATCHES(fv.t, tostr(pos[0])))
            return
        if fv.k == "cacheclear":
            dom, val, n = p.extra["cache"]
            p.extra["cache"] = (K(KS, False), val, IntVal(0))
            p.trace.append("cache:clear")
            yield p, VNONE
            return
        if fv.k == "cmpfn":
            if len(pos) != 2:
                raise Unsupported("comparison callback arity")
            yield p, vbool(self.reg.cmpapp(fv.t, tostr(pos[0]), tostr(pos[1])))
            return
        if fv.k in ("ufn", "optufn"):
            fn = fv.t if fv.k == "ufn" else fv.t[1]
            if fv.k == "optufn":
                self.oblig(p, "SAFE", "callback-not-None", fv.t[0])
                p.assume(fv.t[0])
            if len(pos) != 1 or pos[0].k != "ref":
                raise Unsupported("callback call %s" % ast.unparse(e))
            yield p, V("any", appU(fn, pos[0].t))
            return
        if fv.k in ("ufn2", "optufn2"):
            fn = fv.t if fv.k == "ufn2" else fv.t[1]
            if len(pos) != 2:
                raise Unsupported("callback call %s" % ast.unparse(e))
            yield p, V("any", appU2(fn, pos[0].t, pos[1].t))
            return
        yield from SeqExec.call_value(self, fv, pos, kw, p, e)

    def coerce(self, v, kind, p):
        if kind == "ufn":
            if v.k == "ufn":
                return v
            if v.k == "optufn":
                self.oblig(p, "SAFE", "callback-not-None", v.t[0])
                p.assume(v.t[0])
                return V("ufn", v.t[1])
            if v.k in ("static", "bound"):
                key = v.t if v.k == "static" else (v.t[1], v.t[2])
                fnc = getattr(self.reg, "static_ufns", {}).get(key)
                if fnc is not None:
                    return V("ufn", fnc)
            raise Unsupported("value callback from %r" % (v,))
        if kind == "ufn2":
            if v.k == "ufn2":
                return v
            if v.k == "optufn2":
                p.assume(v.t[0])
                return V("ufn2", v.t[1])
            if v.k in ("static", "bound"):
                key = v.t if v.k == "static" else (v.t[1], v.t[2])
                fnc = getattr(self.reg, "static_ufn2s", {}).get(key)
                if fnc is not None:
                    return V("ufn2", fnc)
            raise Unsupported("value callback from %r" % (v,))
        if kind == "fn" and v.k in ("static", "bound"):
            key = v.t if v.k == "static" else (v.t[1], v.t[2])
            fnc = getattr(self.reg, "static_fns", {}).get(key)
            if fnc is not None:
                return V("fn", fnc)
        if kind == "str":
            if v.k in ("str", "pystr"):
                return vstr(tostr(v))
            raise Unsupported("string from %r" % (v,))
        if kind == "cmpfn":
            if v.k == "cmpfn":
                return v
            if v.k == "bound":
                c_ = self.reg.cmpconsts.get((v.t[1], v.t[2]))
                if c_ is not None:
                    return V("cmpfn", c_)
            raise Unsupported("comparison callback from %r" % (v,))
        if kind == "strlist":
            if v.k == "qseq" and (v.x or {}).get("elem") == "str":
                return v
            raise Unsupported("list of strings from %r" % (v,))
        if kind in ("dictcls", "afn", "seqfn") and v.k == kind:
            return v
        if kind == "afn" and v.k == "optafn":
            self.oblig(p, "SAFE", "callback-not-None", v.t[0])
            p.assume(v.t[0])
            return V("afn", v.t[1])
        if kind == "bseq":
            if v.k == "bseq":
                return v
            if v.k == "qseq" and v.t.eq(Empty(SeqR)):
                return V("bseq", Empty(SeqBool))      # tuple()
            if v.k == "tuple" and all(x.k == "bool" for x in v.t):
                t_ = Empty(SeqBool)
                for x in v.t:
                    t_ = Concat(t_, Unit(x.t))
                return V("bseq", t_)
            raise Unsupported("tuple of booleans from %r" % (v,))
        if kind.startswith("obj:") and v.k == "obj":
            return v
        if kind == "any":
            return V("any", toany(v)) if v.k != "any" else v
        return SeqExec.coerce(self, v, kind, p)

    def builtin2(self, name, pos, kw, p, e):
        if name == "len" and pos and pos[0].k == "cache":
            yield p, vint(p.extra["cache"][2])
            return
        if name == "len" and pos and pos[0].k in ("str", "pystr"):
            yield p, vint(Length(tostr(pos[0])))
            return
        if name == "getattr" and len(pos) == 3 and pos[0].k == "ref" and pos[1].k != "selector":
            nm = toany(pos[1])
            d = toany(pos[2])
            yield p, V("any", If(HAS(pos[0].t, nm), ATTR(pos[0].t, nm), d))
            return
        if name == "type" and len(pos) == 1 and pos[0].k == "segs":
            yield p, V("pytype", "list")        # built by a list comprehension in this function
            return
        if name == "callable" and len(pos) == 1 and pos[0].k == "selector":
            yield p, vbool(pos[0].t[0])
            return
        if name == "getattr" and len(pos) == 3 and pos[0].k == "ref" and pos[1].k == "selector":
            nm = OFSTR(pos[1].t[2])
            yield p, V("any", If(HAS(pos[0].t, nm), ATTR(pos[0].t, nm), toany(pos[2])))
            return
        if name == "isinstance" and len(pos) == 2 and pos[0].k == "any" and pos[1].k == "tuple" \
                and sorted(x.t for x in pos[1].t if x.k == "builtin") == ["list", "tuple"] and len(pos[1].t) == 2:
            yield p, vbool(ISLIST(pos[0].t))
            return
        if name == "isinstance" and len(pos) == 2 and pos[0].k == "useq":
            yield p, vbool(BoolVal(True))
            return
        if name == "str":
            yield p, vstr(tostr(pos[0]))
        elif name == "repr":
            yield p, vstr(REPR(toany(pos[0])))
        elif name == "hex":
            yield p, vstr(HEXS(pos[0].t))
        elif name == "id":
            yield p, V("id", pos[0].t)
        elif name == "next" and pos and pos[0].k == "counter":
            # itertools.count(): next() returns the current value and advances
            obj, fname = pos[0].x
            n = p.extra["objs"][obj][fname].t
            objs = dict(p.extra["objs"])
            objs[obj] = dict(objs[obj])
            objs[obj][fname] = V("counter", n + 1, (obj, fname))
            p.extra["objs"] = objs
            yield p, vint(n)
        else:
            yield from SeqExec.builtin2(self, name, pos, kw, p, e)

    def any_all(self, e, p):
        """any()/all() over a generator expression: `x is v` against a local list is sequence membership; a body made of calls
        with functional contracts is evaluated at a symbolic index (callee preconditions become obligations)"""
        from z3 import Contains, Exists, ForAll
        name = e.func.id
        g = e.args[0]
        if len(g.generators) != 1 or g.generators[0].ifs or not isinstance(g.generators[0].target, ast.Name):
            raise Unsupported("%s(...) form" % name)
        var = g.generators[0].target.id
        for q, sv in self.ev(g.generators[0].iter, p):
            c = g.elt
            if name == "any" and isinstance(c, ast.Compare) and len(c.ops) == 1 and isinstance(c.ops[0], ast.Is) and sv.k == "qseq":
                names = [x for x in (c.left, c.comparators[0]) if isinstance(x, ast.Name)]
                other = [x for x in (c.left, c.comparators[0]) if not (isinstance(x, ast.Name) and x.id == var)]
                if len(names) == 2 and len(other) == 1:
                    for q2, ov in self.ev(other[0], q):
                        if ov.k != "ref":
                            raise Unsupported("identity membership of %r" % (ov,))
                        yield q2, vbool(Contains(sv.t, Unit(ov.t)))
                    continue
            seq = self.as_iterseq(sv, q)
            j = Int(fresh("aj"))
            sub = q.fork(And(0 <= j, j < seq.n), name)
            n0 = len(sub.pc)
            sub.env[var] = seq.at(j)
            saved_h, self.handlers = self.handlers, [[]]
            outs = list(self.ev_truth(c, sub))
            raised = self.handlers.pop()
            self.handlers = saved_h
            if len(outs) != 1 or raised or len(outs[0][0].pc) != n0:
                raise Unsupported("%s() body with several outcomes or effects: %s" % (name, ast.unparse(c)))
            body = outs[0][1]
            jj = Int("jj")
            from z3 import substitute
            bj = substitute(body, (j, jj))
            rng_ = And(0 <= jj, jj < seq.n)
            yield q, vbool(Exists([jj], And(rng_, bj)) if name == "any" else ForAll([jj], Implies(rng_, bj)))

    def e_Call(self, e, p):
        f = e.func
        if isinstance(f, ast.Name) and f.id in ("any", "all") and f.id not in p.env and len(e.args) == 1 \
                and isinstance(e.args[0], ast.GeneratorExp):
            yield from self.any_all(e, p)
            return
        # "...{self.x}...".format(self=self)
        if isinstance(f, ast.Attribute) and f.attr == "format" and isinstance(f.value, ast.Constant) \
                and isinstance(f.value.value, str) and not e.args and len(e.keywords) == 1 and e.keywords[0].arg == "self":
            for q, sv in self.ev(e.keywords[0].value, p):
                yield q, vstr(self.format_self(f.value.value, sv, q))
            return
        yield from SeqExec.e_Call(self, e, p)

    def format_self(self, template, sv, p):
        pieces, i = [], 0
        for m in re.finditer(r"\{\{|\}\}|\{self\.([A-Za-z_][A-Za-z_0-9]*)\}", template):
            if m.start() > i:
                pieces.append(StringVal(template[i:m.start()]))
            if m.group(0) == "{{":
                pieces.append(StringVal("{"))
            elif m.group(0) == "}}":
                pieces.append(StringVal("}"))
            else:
                fields = p.extra["objs"][sv.t]
                if m.group(1) not in fields:
                    raise Unsupported("format field %s" % m.group(1))
                pieces.append(tostr(fields[m.group(1)]))
            i = m.end()
        if i < len(template):
            pieces.append(StringVal(template[i:]))
        rest = template
        if re.search(r"\{(?!\{)(?!self\.)", re.sub(r"\{\{|\}\}|\{self\.[A-Za-z_][A-Za-z_0-9]*\}", "", template)):
            raise Unsupported("format template %r" % template)
        t = pieces[0] if pieces else StringVal("")
        for x in pieces[1:]:
            t = Concat(t, x)
        return t

    def subscript_load2(self, obj, key, p, e):
        return None

    def fresh_of_kind(self, kind, name):
        if kind == "strlist":
            return V("qseq", Const(fresh(name), SeqStr), {"elem": "str"})
        if kind == "str":
            return vstr(String(fresh(name)))
        if kind == "any":
            return V("any", fresh_const(name, U))
        if kind == "lines":
            return V("qseq", Const(fresh(name), SeqStr), {"elem": "str"})
        return SeqExec.fresh_of_kind(self, kind, name)

    def fresh_like(self, v, name):
        if v.k in ("ufn", "ufn2", "optufn", "optufn2", "optseq", "useq", "iddict", "counter", "id", "cmpfn", "module", "refn", "seqfn",
                   "dictcls", "afn", "optafn"):
            return v
        if v.k == "bseq":
            return V("bseq", Const(fresh(name), SeqBool))
        if v.k == "pystr":
            return self.fresh_of_kind("str", name)
        if v.k == "re":
            return V("re", fresh_const(name, RE))
        if v.k in ("str", "any"):
            return self.fresh_of_kind(v.k, name)
        return SeqExec.fresh_like(self, v, name)

    def fresh_result(self, kind):
        if kind == "jdict":
            return V("jdict", fresh_const("res", J))
        if kind in ("str", "any", "lines"):
            return self.fresh_of_kind(kind, "res")
        return SeqExec.fresh_result(self, kind)


class TextWorld(SeqWorld):
    def make_exec(self, spec, fi):
        return TextExec(spec, fi)

    def make_arg(self, n, k):
        if k == "str":
            return vstr(String("arg_" + n))
        if k == "ufn":
            return V("ufn", Const("arg_" + n, UFn))
        if k == "ufn2":
            return V("ufn2", Const("arg_" + n, UFn2))
        if k == "optufn":
            return V("optufn", (Const("arg_%s_given" % n, B), Const("arg_" + n, UFn)))
        if k == "optufn2":
            return V("optufn2", (Const("arg_%s_given" % n, B), Const("arg_" + n, UFn2)))
        if k == "optseq":
            return V("optseq", (Const("arg_%s_given" % n, B), Const("arg_" + n, SeqU)))
        if k == "any":
            return V("any", Const("arg_" + n, U))
        if k == "row":
            return V("row", Const("arg_" + n, Row))
        if k == "selector":
            # str-or-callable attribute selector: (is callable, the function, the attribute name)
            return V("selector", (Const("arg_%s_callable" % n, B), Const("arg_%s_fn" % n, UFn), String("arg_%s_name" % n)))
        if k == "strlist":
            return V("qseq", Const("arg_" + n, SeqStr), {"elem": "str"})
        if k == "bseq":
            return V("bseq", Const("arg_" + n, SeqBool))
        if k == "dictcls":
            return V("dictcls", Const("arg_" + n, U))
        if k == "afn":
            return V("afn", Const("arg_" + n, AFn))
        if k == "seqfn":
            return V("seqfn", Const("arg_" + n, SeqFn))
        if k.startswith("obj:") and n != "self":
            return V("obj", n, k[4:])
        if k == "cmpfn":
            return V("cmpfn", Const("arg_" + n, CmpFn))
        return SeqWorld.make_arg(self, n, k)

    def arg_facts(self, args, spec):
        return SeqWorld.arg_facts(self, args, spec) + list(TEXT_AXIOMS) + (list(J_AXIOMS) if getattr(spec.registry, "map_calls", False) else [])

    def empty_out(self, spec):
        if spec.yields == "kv":
            return Empty(SeqKV)
        if spec.yields == "rows":
            return Empty(SeqRow)
        if spec.yields == "lastpairs":
            return Empty(SeqLP)
        if spec.yields == "str":
            return EMPTYL
        if spec.yields == "row":
            return Empty(SeqSort(spec.registry.rowsort))
        return SeqWorld.empty_out(self, spec)

    def gen_value(self, p):
        if p.out.sort() == SeqKV:
            return V("qseq", p.out, {"elem": "kv"})
        if p.out.sort() == SeqRow:
            return V("qseq", p.out, {"elem": "row"})
        if p.out.sort() == SeqLP:
            return V("qseq", p.out, {"elem": "lastpair"})
        if p.out.sort() == SeqStr:
            return V("qseq", p.out, {"elem": "str"})
        return SeqWorld.gen_value(self, p) if p.out.sort() != SeqSort(getattr(self, "_rows", Str)) else V("qseq", p.out, {"elem": "row"})

    def normalize_result(self, value, p, ex):
        if value.k == "gen":
            return V("qseq", ex.seqterm(value, p), value.x)
        return value

    def kind_ok(self, want, value):
        if want in ("lines", "gen", "qseq"):
            return value.k in ("qseq", "gen")
        if want == "str":
            return value.k in ("str", "pystr")
        if want == "row":
            return value.k == "row"
        if want == "jdict":
            return value.k == "jdict"
        if want == "tuple":
            return value.k == "tuple"
        if want == "ref":
            return value.k == "ref"
        if want == "any":
            return True
        return SeqWorld.kind_ok(self, want, value)


TEXTWORLD = TextWorld()
