"""Front end: locate and extract function bodies from the *current* source under REPO.

The extraction drops exactly: docstrings and comments (not part of the AST).  Decorators: property / x.setter / x.deleter /
staticmethod define the member's role; `_cache(CACHE_SIZE)` (cachedsearch) is proved to be the identity decorator by its own
obligation; any other decorator changes what the name denotes and is a STRUCT failure (the function left the subset).  Name mangling
(`self.__x` inside `class K` -> `_K__x`) is applied with CPython's rule.
"""
import ast
import hashlib
import os

REPO = os.environ.get("PYVC_REPO", "/repo")


class StructError(Exception):
    """The source no longer has the shape the sidecar contract was written for."""


class FuncInfo:
    def __init__(self, relpath, cls, name, role, node, body, decorators):
        self.relpath, self.cls, self.name, self.role = relpath, cls, name, role
        self.node, self.body, self.decorators = node, body, decorators
        self.src = ast.unparse(ast.Module(body=body, type_ignores=[])) if body else ""
        sig = ast.unparse(node.args)
        self.sha = hashlib.sha256((sig + "\n" + self.src).encode()).hexdigest()[:16]
        self.is_generator = any(isinstance(n, (ast.Yield, ast.YieldFrom)) for st in body for n in _walk_noscope(st))

    @property
    def qualname(self):
        q = "%s.%s" % (self.cls, self.name) if self.cls else self.name
        return q if self.role in ("method", "static", "function") else "%s[%s]" % (q, self.role)

    @property
    def ident(self):
        return "%s:%s" % (self.relpath, self.qualname)

    def params(self):
        a = self.node.args
        return [x.arg for x in a.posonlyargs + a.args]


def _walk_noscope(node):
    """ast.walk that does not descend into nested function/lambda/class scopes."""
    todo = [node]
    while todo:
        n = todo.pop()
        yield n
        for c in ast.iter_child_nodes(n):
            if isinstance(c, (ast.FunctionDef, ast.Lambda, ast.ClassDef, ast.AsyncFunctionDef)):
                continue
            todo.append(c)


def strip_doc(body):
    if body and isinstance(body[0], ast.Expr) and isinstance(getattr(body[0], "value", None), ast.Constant) \
            and isinstance(body[0].value.value, str):
        return body[1:]
    return body


def _names(node, ctx=None):
    return {n.id for n in ast.walk(node) if isinstance(n, ast.Name) and (ctx is None or isinstance(n.ctx, ctx))}


def normalize(fn_node, body, cls=None):
    """Mechanical, semantics-preserving rewritings applied to the extracted body before verification (besides the two below:
    `a, b = x, y` over plain names/constants with no target read on the right becomes the single assignments in order; zero-argument
    `super()` becomes `super(C, self)`), so that a loop written out by hand is seen as the comprehension it is (listed in the evidence
    as part of the extraction), so that a loop written out by hand is seen as the comprehension it is:

      ACC = []                                   ACC = [E for T in S if C]
      for T in S:            ==>
          [if C:] ACC.append(E)

      for K in M:                                if not any(COND for K in M):
          if COND: break     ==>                     BODY
      else:
          BODY

    Conditions (checked): T / K and ACC are plain names; the loop variable is used nowhere outside the loop; ACC does not occur in
    S, C, E; for the first rewriting the function has no try statement (a partially filled ACC could be observed by a handler).  Evaluation order, the
    number of calls to user code and short-circuiting are the same in both forms."""
    has_try = any(isinstance(n, ast.Try) for n in ast.walk(fn_node))
    all_names = [n.id for n in ast.walk(fn_node) if isinstance(n, ast.Name)]

    def only_in(name, loop):
        return all_names.count(name) == sum(1 for n in ast.walk(loop) if isinstance(n, ast.Name) and n.id == name)

    def rewrite(stmts):
        out = []
        i = 0
        while i < len(stmts):
            st = stmts[i]
            nxt = stmts[i + 1] if i + 1 < len(stmts) else None
            # accumulate loop
            if (not has_try and isinstance(st, ast.Assign) and len(st.targets) == 1 and isinstance(st.targets[0], ast.Name)
                    and isinstance(st.value, ast.List) and not st.value.elts and isinstance(nxt, ast.For) and not nxt.orelse
                    and isinstance(nxt.target, ast.Name) and len(nxt.body) == 1):
                acc, inner, cond = st.targets[0].id, nxt.body[0], None
                if isinstance(inner, ast.If) and not inner.orelse and len(inner.body) == 1:
                    cond, inner = inner.test, inner.body[0]
                if (isinstance(inner, ast.Expr) and isinstance(inner.value, ast.Call) and isinstance(inner.value.func, ast.Attribute)
                        and inner.value.func.attr == "append" and isinstance(inner.value.func.value, ast.Name)
                        and inner.value.func.value.id == acc and len(inner.value.args) == 1 and not inner.value.keywords):
                    elt = inner.value.args[0]
                    used = _names(nxt.iter) | _names(elt) | (_names(cond) if cond is not None else set())
                    if acc not in used and acc != nxt.target.id and only_in(nxt.target.id, nxt):
                        comp = ast.ListComp(elt=elt, generators=[ast.comprehension(target=nxt.target, iter=nxt.iter,
                                                                                  ifs=[cond] if cond is not None else [], is_async=0)])
                        new = ast.Assign(targets=[ast.Name(id=acc, ctx=ast.Store())], value=comp)
                        out.append(ast.fix_missing_locations(ast.copy_location(new, st)))
                        i += 2
                        continue
            # search loop with else
            if (isinstance(st, ast.For) and st.orelse and isinstance(st.target, ast.Name) and len(st.body) == 1
                    and isinstance(st.body[0], ast.If) and not st.body[0].orelse and len(st.body[0].body) == 1
                    and isinstance(st.body[0].body[0], ast.Break) and only_in(st.target.id, st)
                    and st.target.id not in _names(st.iter)):
                gen = ast.GeneratorExp(elt=st.body[0].test, generators=[ast.comprehension(target=st.target, iter=st.iter, ifs=[], is_async=0)])
                test = ast.UnaryOp(op=ast.Not(), operand=ast.Call(func=ast.Name(id="any", ctx=ast.Load()), args=[gen], keywords=[]))
                new = ast.If(test=test, body=rewrite(st.orelse), orelse=[])
                out.append(ast.fix_missing_locations(ast.copy_location(new, st)))
                i += 1
                continue
            # tuple assignment of plain names / constants = the single assignments in order (no target is read on the right)
            if (isinstance(st, ast.Assign) and len(st.targets) == 1 and isinstance(st.targets[0], ast.Tuple) and isinstance(st.value, ast.Tuple)
                    and len(st.targets[0].elts) == len(st.value.elts) and st.value.elts
                    and all(isinstance(v, (ast.Name, ast.Constant)) for v in st.value.elts)
                    and all(isinstance(t, (ast.Name, ast.Attribute)) and not isinstance(t, ast.Starred) for t in st.targets[0].elts)
                    and not ({t.id for t in st.targets[0].elts if isinstance(t, ast.Name)} & {v.id for v in st.value.elts if isinstance(v, ast.Name)})):
                for t, v in zip(st.targets[0].elts, st.value.elts):
                    out.append(ast.fix_missing_locations(ast.copy_location(ast.Assign(targets=[t], value=v, type_comment=None), st)))
                i += 1
                continue
            # recurse into compound statements
            for fld in ("body", "orelse", "finalbody"):
                sub = getattr(st, fld, None)
                if isinstance(sub, list) and sub and isinstance(sub[0], ast.stmt):
                    setattr(st, fld, rewrite(sub))
            out.append(st)
            i += 1
        return out
    import copy
    out = rewrite(copy.deepcopy(body))
    # zero-argument super() inside a method of class C with first parameter s is super(C, s)
    if cls and fn_node.args.args:
        first = fn_node.args.args[0].arg
        for st in out:
            for n in ast.walk(st):
                if isinstance(n, ast.Call) and isinstance(n.func, ast.Name) and n.func.id == "super" and not n.args and not n.keywords:
                    n.args = [ast.Name(id=cls, ctx=ast.Load()), ast.Name(id=first, ctx=ast.Load())]
                    ast.fix_missing_locations(n)
    return out


def mangle(cls, attr):
    if cls and attr.startswith("__") and not attr.endswith("__"):
        return "_%s%s" % (cls.lstrip("_"), attr)
    return attr


_cache = {}


def parse(relpath):
    path = os.path.join(REPO, relpath)
    try:
        st = os.stat(path)
    except OSError:
        raise StructError("file %s is missing" % relpath)
    key = (path, st.st_mtime_ns, st.st_size)
    if key not in _cache:
        with open(path, encoding="utf-8") as f:
            src = f.read()
        try:
            _cache[key] = ast.parse(src)
        except SyntaxError as e:
            raise StructError("file %s does not parse: %s" % (relpath, e))
    return _cache[key]


def _role(fn):
    role = "method"
    kept = []
    for d in fn.decorator_list:
        if isinstance(d, ast.Name) and d.id == "property":
            role = "getter"
        elif isinstance(d, ast.Name) and d.id == "staticmethod":
            role = "static"
        elif isinstance(d, ast.Attribute) and d.attr in ("setter", "deleter"):
            role = d.attr
        else:
            kept.append(ast.unparse(d))
    return role, kept


# decorators that may stay on a function under contract; each needs its own justification elsewhere in /verif
ALLOWED_DECORATORS = {"_cache(CACHE_SIZE)"}     # checks/seq_props.py: cache_decorator_obligation (identity in the fallback branch)


def _check_decorators(relpath, cls, fn, kept):
    bad = [d for d in kept if d not in ALLOWED_DECORATORS]
    if bad:
        raise StructError("%s%s in %s is wrapped by the decorator(s) %s: the name no longer denotes the function body the contract "
                          "is about" % ((cls + ".") if cls else "", fn.name, relpath, ", ".join("@" + b for b in bad)))


def class_node(relpath, cls):
    tree = parse(relpath)
    for n in tree.body:
        if isinstance(n, ast.ClassDef) and n.name == cls:
            return n
    raise StructError("class %s not found in %s" % (cls, relpath))


def members(relpath, cls):
    """dict (mangled name, role) -> FuncInfo for every function member of the class."""
    c = class_node(relpath, cls)
    out = {}
    for fn in c.body:
        if isinstance(fn, ast.FunctionDef):
            role, kept = _role(fn)
            _check_decorators(relpath, cls, fn, kept)
            out[(mangle(cls, fn.name), role)] = FuncInfo(relpath, cls, fn.name, role, fn, normalize(fn, strip_doc(fn.body), cls), kept)
    return out


def get_function(relpath, cls, name, role="method"):
    if cls is None:
        tree = parse(relpath)
        for n in tree.body:
            if isinstance(n, ast.FunctionDef) and n.name == name:
                _, kept = _role(n)
                _check_decorators(relpath, None, n, kept)
                return FuncInfo(relpath, None, name, "function", n, normalize(n, strip_doc(n.body)), kept)
        raise StructError("function %s not found in %s" % (name, relpath))
    ms = members(relpath, cls)
    k = (mangle(cls, name), role)
    if k not in ms:
        raise StructError("%s.%s [%s] not found in %s" % (cls, name, role, relpath))
    return ms[k]


def module_assign(relpath, name):
    """the ast value expression of a module-level `name = <expr>`"""
    for n in parse(relpath).body:
        if isinstance(n, ast.Assign) and len(n.targets) == 1 and isinstance(n.targets[0], ast.Name) \
                and n.targets[0].id == name:
            return n.value
    raise StructError("module-level %s not found in %s" % (name, relpath))


def class_assign(relpath, cls, name):
    for n in class_node(relpath, cls).body:
        if isinstance(n, ast.Assign) and len(n.targets) == 1 and isinstance(n.targets[0], ast.Name) \
                and n.targets[0].id == name:
            return n.value
    return None


def class_bases(relpath, cls):
    # `class X(object):` and `class X:` are the same class in Python 3
    return [b for b in (ast.unparse(b) for b in class_node(relpath, cls).bases) if b != "object"]


def keyword_call_sites(name):
    """keyword names used by any call `name(...)` / `x.name(...)` in the package (parameter renames of a protected helper are
    invisible exactly when every caller passes positionally)"""
    out = set()
    root = os.path.join(REPO, "anytree")
    for dp, _, fs in os.walk(root):
        for f in fs:
            if not f.endswith(".py"):
                continue
            try:
                tree = parse(os.path.relpath(os.path.join(dp, f), REPO))
            except StructError:
                continue
            for n in ast.walk(tree):
                if isinstance(n, ast.Call) and n.keywords:
                    fn = n.func
                    nm = fn.attr if isinstance(fn, ast.Attribute) else (fn.id if isinstance(fn, ast.Name) else None)
                    if nm is not None and (nm == name or nm.endswith("__" + name.lstrip("_")) and name.startswith("__")):
                        out |= {k.arg for k in n.keywords if k.arg}
    return out
