"""Front end: locate and extract function bodies from the *current* source under REPO.

The extraction drops exactly: docstrings and comments (not part of the AST).  Decorators: property / x.setter / x.deleter /
staticmethod define the member's role; `_cache(CACHE_SIZE)` (cachedsearch) is proved to be the identity decorator by its own
obligation; any other decorator changes what the name denotes and is a STRUCT failure (the function left the subset).  Name mangling
(`self.__x` inside `class K` -> `_K__x`) is applied with CPython's rule.
"""
import ast
import hashlib
import os

REPO = os.environ.get("PYVC_REPO", "/repo")


class StructError(Exception):
    """The source no longer has the shape the sidecar contract was written for."""


class FuncInfo:
    def __init__(self, relpath, cls, name, role, node, body, decorators):
        self.relpath, self.cls, self.name, self.role = relpath, cls, name, role
        self.node, self.body, self.decorators = node, body, decorators
        self.src = ast.unparse(ast.Module(body=body, type_ignores=[])) if body else ""
        sig = ast.unparse(node.args)
        self.sha = hashlib.sha256((sig + "\n" + self.src).encode()).hexdigest()[:16]
        self.is_generator = any(isinstance(n, (ast.Yield, ast.YieldFrom)) for st in body for n in _walk_noscope(st))

    @property
    def qualname(self):
        q = "%s.%s" % (self.cls, self.name) if self.cls else self.name
        return q if self.role in ("method", "static", "function") else "%s[%s]" % (q, self.role)

    @property
    def ident(self):
        return "%s:%s" % (self.relpath, self.qualname)

    def params(self):
        a = self.node.args
        return [x.arg for x in a.posonlyargs + a.args]


def _walk_noscope(node):
    """ast.walk that does not descend into nested function/lambda/class scopes."""
    todo = [node]
    while todo:
        n = todo.pop()
        yield n
        for c in ast.iter_child_nodes(n):
            if isinstance(c, (ast.FunctionDef, ast.Lambda, ast.ClassDef, ast.AsyncFunctionDef)):
                continue
            todo.append(c)


def strip_doc(body):
    if body and isinstance(body[0], ast.Expr) and isinstance(getattr(body[0], "value", None), ast.Constant) \
            and isinstance(body[0].value.value, str):
        return body[1:]
    return body


def mangle(cls, attr):
    if cls and attr.startswith("__") and not attr.endswith("__"):
        return "_%s%s" % (cls.lstrip("_"), attr)
    return attr


_cache = {}


def parse(relpath):
    path = os.path.join(REPO, relpath)
    try:
        st = os.stat(path)
    except OSError:
        raise StructError("file %s is missing" % relpath)
    key = (path, st.st_mtime_ns, st.st_size)
    if key not in _cache:
        with open(path, encoding="utf-8") as f:
            src = f.read()
        try:
            _cache[key] = ast.parse(src)
        except SyntaxError as e:
            raise StructError("file %s does not parse: %s" % (relpath, e))
    return _cache[key]


def _role(fn):
    role = "method"
    kept = []
    for d in fn.decorator_list:
        if isinstance(d, ast.Name) and d.id == "property":
            role = "getter"
        elif isinstance(d, ast.Name) and d.id == "staticmethod":
            role = "static"
        elif isinstance(d, ast.Attribute) and d.attr in ("setter", "deleter"):
            role = d.attr
        else:
            kept.append(ast.unparse(d))
    return role, kept


# decorators that may stay on a function under contract; each needs its own justification elsewhere in /verif
ALLOWED_DECORATORS = {"_cache(CACHE_SIZE)"}     # checks/seq_props.py: cache_decorator_obligation (identity in the fallback branch)


def _check_decorators(relpath, cls, fn, kept):
    bad = [d for d in kept if d not in ALLOWED_DECORATORS]
    if bad:
        raise StructError("%s%s in %s is wrapped by the decorator(s) %s: the name no longer denotes the function body the contract "
                          "is about" % ((cls + ".") if cls else "", fn.name, relpath, ", ".join("@" + b for b in bad)))


def class_node(relpath, cls):
    tree = parse(relpath)
    for n in tree.body:
        if isinstance(n, ast.ClassDef) and n.name == cls:
            return n
    raise StructError("class %s not found in %s" % (cls, relpath))


def members(relpath, cls):
    """dict (mangled name, role) -> FuncInfo for every function member of the class."""
    c = class_node(relpath, cls)
    out = {}
    for fn in c.body:
        if isinstance(fn, ast.FunctionDef):
            role, kept = _role(fn)
            _check_decorators(relpath, cls, fn, kept)
            out[(mangle(cls, fn.name), role)] = FuncInfo(relpath, cls, fn.name, role, fn, strip_doc(fn.body), kept)
    return out


def get_function(relpath, cls, name, role="method"):
    if cls is None:
        tree = parse(relpath)
        for n in tree.body:
            if isinstance(n, ast.FunctionDef) and n.name == name:
                _, kept = _role(n)
                _check_decorators(relpath, None, n, kept)
                return FuncInfo(relpath, None, name, "function", n, strip_doc(n.body), kept)
        raise StructError("function %s not found in %s" % (name, relpath))
    ms = members(relpath, cls)
    k = (mangle(cls, name), role)
    if k not in ms:
        raise StructError("%s.%s [%s] not found in %s" % (cls, name, role, relpath))
    return ms[k]


def module_assign(relpath, name):
    """the ast value expression of a module-level `name = <expr>`"""
    for n in parse(relpath).body:
        if isinstance(n, ast.Assign) and len(n.targets) == 1 and isinstance(n.targets[0], ast.Name) \
                and n.targets[0].id == name:
            return n.value
    raise StructError("module-level %s not found in %s" % (name, relpath))


def class_assign(relpath, cls, name):
    for n in class_node(relpath, cls).body:
        if isinstance(n, ast.Assign) and len(n.targets) == 1 and isinstance(n.targets[0], ast.Name) \
                and n.targets[0].id == name:
            return n.value
    return None


def class_bases(relpath, cls):
    return [ast.unparse(b) for b in class_node(relpath, cls).bases]
