"""pyvc - verification-condition generator for a subset of Python, driven by the real AST of /repo."""
