"""Heap world: semantics of attribute access, calls and built-ins for code that reads and writes the node
mixins' link attributes; contract (Spec) framework: verification of a body against its Spec, and use of a Spec
at a call site (modular: callers see contracts only)."""
import ast

from z3 import (And, Array, BoolVal, Const, Exists, ForAll, If, Implies, Int, IntVal, K, Not, Or, Select, Store)

from . import frontend
from .core import (Exec, Exc, Exit, IterSeq, LoopSpec, Obligation, Path, Unsupported, V, VNONE, vbool, vint, vref,
                   _maybe_true, feasible)
from .heap import (B, I, IA, NONE, R, ASeq, State, WF, fresh, fresh_const, isl, isn, RAW, GHOST, LOG, wf)

HOOKS = ("_pre_detach", "_post_detach", "_pre_attach", "_post_attach",
         "_pre_detach_children", "_post_detach_children", "_pre_attach_children", "_post_attach_children")
HOOK_ID = {h: k for k, h in enumerate(HOOKS)}

ASSERTIONS = Const("ASSERTIONS", B)      # both settings of the switch are covered symbolically

# iterable protocol of an arbitrary object (argument of `tuple(...)` in the children setter)
from z3 import Function
iterable = Function("iterable", R, B)
itlen = Function("itlen", R, I)
itat = Function("itat", R, IA)
seqobj = Function("seqobj", I, IA, R)    # a tuple value passed where an object reference is expected (hook argument)


class Clause:
    """named contract clause.  `kf` = (known-finding id, case predicate): the clause is kept as the property
    states it; while the finding is listed as `known` in known_findings.json it is proved for the complement of
    the case only (and callers may only assume that much)."""

    def __init__(self, name, f, props=(), kf=None):
        self.name, self.f, self.props, self.kf = name, f, set(props), kf

    def assumable(self):
        return self.f if self.kf is None else Implies(Not(self.kf[1]), self.f)

    def provable(self):
        from . import known
        if self.kf is not None and known.is_known(self.kf[0]):
            return Implies(Not(self.kf[1]), self.f), "[outside %s]" % self.kf[0]
        return self.f, ""


def clauses(lst, props=()):
    out = []
    for c in lst:
        if isinstance(c, Clause):
            out.append(c)
        else:
            out.append(Clause(c[0], c[1], c[2] if len(c) > 2 else props))
    return out


class Outcome:
    def __init__(self, label, kind, post, exc=None, site=None, when=None, res="none", mods="all", user=False,
                 value=None, tag=None):
        self.label, self.kind, self.post, self.exc, self.site = label, kind, post, exc, site
        # tag: static facts about the result object that callers may use (e.g. {"py": "tuple"}: exactly a built-in tuple);
        # the function's own returned value must carry the same tag (KIND obligation)
        self.tag = tag
        self.when, self.res, self.mods, self.user = when, res, mods, user
        # value(ctx): the result as a closed term over the entry view/ghost state (functional contracts; lets a call
        # be used inside any()/all()/max() generator expressions)
        self.value = value

    def matches(self, ex):
        if ex.kind != self.kind:
            return False
        if self.kind == "return":
            return True
        if ex.exc.cls != self.exc:
            return False
        if self.site is not None and self.site.endswith("*"):
            return ex.exc.site.startswith(self.site[:-1])
        return self.site is None or ex.exc.site == self.site


class Ctx:
    """function-entry context handed to contract clauses: entry state, arguments (V), family constants"""

    def __init__(self, spec, S0, args):
        self.spec, self.S0, self.args = spec, S0, args
        self.fam = spec.fam

    def t(self, name):
        return self.args[name].t

    def __getattr__(self, name):
        a = self.__dict__.get("args", {})
        if "*" + name in a:
            return a["*" + name].t
        if "**" + name in a:
            return a["**" + name].t
        if name in a:
            return a[name].t
        raise AttributeError(name)


class Spec:
    def __init__(self, fam, name, role, params, requires, outcomes, loops=None, hookobs=None, ghost=None,
                 generator=False, props=(), relpath=None, cls=None, note=""):
        self.fam, self.name, self.role, self.params = fam, name, role, params
        self.requires, self.outcomes = requires, outcomes
        self.loops, self.hookobs, self.ghost = loops or {}, hookobs or {}, ghost
        self.generator, self.props, self.note = generator, set(props), note
        self.relpath = relpath or fam.relpath
        self.cls = cls if cls is not None else fam.cls

    @property
    def key(self):
        return (self.name, self.role)

    def fi(self):
        return frontend.get_function(self.relpath, self.cls, self.name, self.role)


class Family:
    """one node mixin family: NodeMixin or LightNodeMixin (same sidecar, parameterised by the prefix)"""

    def __init__(self, cls, relpath, typecheck):
        self.cls, self.relpath, self.typecheck = cls, relpath, typecheck
        self.pfx = "_" + cls
        self.specs = {}

    def add(self, spec):
        self.specs[spec.key] = spec
        return spec

    def attr(self, a):
        return self.pfx + a


def fresh_value(kind, name="r"):
    if kind == "none":
        return VNONE
    if kind in ("ref", "listref"):
        return V(kind, fresh_const(name, R))
    if kind == "bool":
        return vbool(Const(fresh(name), B))
    if kind == "int":
        return vint(Int(fresh(name)))
    if kind in ("aseq", "iterseq"):
        s = ASeq.fresh(name)
        if kind == "aseq":
            return V("aseq", s)
        return V("iterseq", IterSeq(s.n, lambda i: vref(s.a[i]), desc="contract"), s)
    raise Unsupported("result kind %s" % kind)


def initial_value(kind, name):
    v = fresh_value(kind, name)
    return v


class HeapExec(Exec):
    def __init__(self, spec, fi=None):
        fi = fi or spec.fi()
        Exec.__init__(self, fi, loops=spec.loops, props=spec.props, cls_for_mangle=fi.cls)
        self.spec, self.fam = spec, spec.fam
        self.PA, self.CA = self.fam.attr("__parent"), self.fam.attr("__children")

    # ------------------------------------------------------------------ names
    def global_name(self, name, p):
        if name == "ASSERTIONS":
            yield p, vbool(ASSERTIONS)
        elif name in ("NodeMixin", "LightNodeMixin", "TreeError", "LoopError", "PreOrderIter", "WalkError", "Walker"):
            yield p, V("class", name)
        elif name in ("hasattr", "isinstance", "type", "tuple", "len", "any", "all", "id", "set", "list", "reversed",
                      "enumerate", "max", "super", "next", "zip"):
            yield p, V("builtin", name)
        else:
            h = self.find_helper(name)
            if h is None:
                raise Unsupported("global name %s" % name)
            yield p, V("helper", h)

    def truth(self, v, p, e=None):
        if v.k == "listref":
            return p.S.Llen[v.t] > 0
        if v.k == "optiter":
            # `if children:` on the constructor argument: None or an iterable; truthiness of the iterable is
            # its non-emptiness (lists / tuples; a generator object would be always true - see assumptions)
            return And(v.t != NONE, itlen(v.t) > 0)
        return Exec.truth(self, v, p, e)

    def is_compare(self, l, r, p, e):
        for a_, b_ in ((l, r), (r, l)):
            if a_.k == "pytype" and b_.k == "builtin":
                return BoolVal(a_.t == b_.t)
        if l.k in ("ref", "listref") and r.k in ("ref", "listref"):
            return l.t == r.t
        raise Unsupported("identity comparison %s" % ast.unparse(e))

    def compare_other(self, op, l, r, p, e):
        if isinstance(op, (ast.In, ast.NotIn)) and l.k == "id" and r.k == "idset":
            t = Select(r.t, l.t)
            return Not(t) if isinstance(op, ast.NotIn) else t
        raise Unsupported("comparison %s" % ast.unparse(e))

    # ------------------------------------------------------------------ attributes
    def need_node(self, obj, p, what):
        if obj.k != "ref":
            raise Unsupported("%s on %r" % (what, obj))
        if getattr(self.spec, "nonnode_raises", False):
            # the contract puts arguments that are not tree nodes in scope (LightNodeMixin has no type check of its own): the first
            # use of such an object as a node raises AttributeError (assumption: it has none of the node protocol's attributes)
            bad = Or(obj.t == NONE, Not(isn(obj.t)))
            if feasible(p.pc, bad):
                r = p.fork(bad, "not-a-node:%s" % what)
                self.raise_(r, Exc("AttributeError", "attr:%s" % what, None))
            p.assume(obj.t != NONE, isn(obj.t))
            return
        self.oblig(p, "SAFE", "node:%s" % what, And(obj.t != NONE, isn(obj.t)),
                   note="attribute access needs a tree node (no AttributeError)")
        p.assume(obj.t != NONE, isn(obj.t))

    def attr_load(self, obj, attr, p, e):
        S = p.S
        if attr == self.PA:
            self.need_node(obj, p, attr)
            self.oblig(p, "SAFE", "has:%s" % attr, S.hasP[obj.t])
            yield p.assume(S.hasP[obj.t]), vref(S.P[obj.t])
            return
        if attr == self.CA:
            self.need_node(obj, p, attr)
            self.oblig(p, "SAFE", "has:%s" % attr, S.hasC[obj.t])
            yield p.assume(S.hasC[obj.t]), V("listref", S.C[obj.t])
            return
        spec = self.fam.specs.get((attr, "getter"))
        if spec is not None and obj.k == "ref":
            self.need_node(obj, p, attr)
            yield from self.apply_spec(spec, p, {"self": obj}, "get:" + attr)
            return
        raise Unsupported("attribute load .%s on %r" % (attr, obj))

    def attr_store(self, obj, attr, v, p, tgt):
        S = p.S
        if attr == self.PA:
            self.need_node(obj, p, attr)
            if v.k != "ref":
                raise Unsupported("store of %r into %s" % (v, attr))
            p.set_state(S.copy(P=Store(S.P, obj.t, v.t), hasP=Store(S.hasP, obj.t, True)))
            p.trace.append("store-parent")
            if self.spec.ghost:
                self.spec.ghost(self, p, "parent", obj, v)
            return [p]
        if attr == self.CA:
            self.need_node(obj, p, attr)
            if v.k != "listref":
                raise Unsupported("store of %r into %s" % (v, attr))
            p.set_state(S.copy(C=Store(S.C, obj.t, v.t), hasC=Store(S.hasC, obj.t, True)))
            p.trace.append("store-children")
            if self.spec.ghost:
                self.spec.ghost(self, p, "children", obj, v)
            return [p]
        spec = self.fam.specs.get((attr, "setter"))
        if spec is not None and obj.k == "ref":
            self.need_node(obj, p, attr)
            val = v
            return [q for q, _ in self.apply_spec(spec, p, {"self": obj, spec.params[1][0]: val}, "set:" + attr)]
        raise Unsupported("attribute store .%s" % attr)

    def attr_delete(self, obj, attr, p):
        spec = self.fam.specs.get((attr, "deleter"))
        if spec is not None and obj.k == "ref":
            self.need_node(obj, p, attr)
            return [q for q, _ in self.apply_spec(spec, p, {"self": obj}, "del:" + attr)]
        raise Unsupported("attribute delete .%s" % attr)

    # ------------------------------------------------------------------ lists, tuples
    def e_List(self, e, p):
        if e.elts:
            raise Unsupported("non-empty list literal")
        yield p, self.alloc_list(p, IntVal(0), K(I, NONE))

    def alloc_list(self, p, n, arr):
        S = p.S
        l = fresh_const("newlist", R)
        p.assume(Not(S.alloc[l]), isl(l), l != NONE)
        p.set_state(S.copy(alloc=Store(S.alloc, l, True), Llen=Store(S.Llen, l, n), Lat=Store(S.Lat, l, arr)))
        return V("listref", l)

    def seq_of(self, v, p):
        """(len, array) view of a list object or tuple value"""
        if v.k == "listref":
            return ASeq(p.S.Llen[v.t], p.S.Lat[v.t])
        if v.k == "aseq":
            return v.t
        if v.k == "iterseq" and isinstance(v.x, ASeq):
            return v.x
        raise Unsupported("sequence view of %r" % v)

    def as_iterseq(self, v, p):
        if v.k == "listref":
            s = self.seq_of(v, p)
            return IterSeq(s.n, lambda i: vref(s.a[i]), desc="list")
        return Exec.as_iterseq(self, v, p)

    def e_ListComp(self, e, p):
        # [v.attr for v in S] with a functional contract of attr: a sequence of sequences (rows)
        if len(e.generators) == 1 and not e.generators[0].ifs and isinstance(e.generators[0].target, ast.Name) \
                and isinstance(e.elt, ast.Attribute) and isinstance(e.elt.value, ast.Name) \
                and e.elt.value.id == e.generators[0].target.id:
            spec = self.fam.specs.get((self.mangle(e.elt.attr), "getter"))
            if spec is not None and len(spec.outcomes) == 1 and spec.outcomes[0].value is not None \
                    and spec.outcomes[0].res == "aseq" and not spec.outcomes[0].mods:
                for q, sv in self.ev(e.generators[0].iter, p):
                    s = self.seq_of(sv, q)
                    kq = Int(fresh("row"))
                    sub = q.fork(And(0 <= kq, kq < s.n))
                    obj = vref(s.a[kq])
                    self.need_node(obj, sub, e.elt.attr)
                    ctx = Ctx(spec, sub.S, {"self": obj})
                    for c in clauses(spec.requires(ctx)):
                        self.oblig(sub, "PRE", "get:%s/%s" % (e.elt.attr, c.name), c.f)
                    S_ = q.S
                    yield q, V("seqseq", (s.n, (lambda sp, SS, ss: lambda k: sp.outcomes[0].value(Ctx(sp, SS, {"self": vref(ss.a[k])})))(spec, S_, s)))
                return
        yield from self.comprehension(e, p, "list")

    def identity_index_pattern(self, g):
        """(i for i, v in enumerate(S) if v is X)"""
        if len(g.generators) != 1:
            return False
        c = g.generators[0]
        t = c.target
        if not (isinstance(t, ast.Tuple) and len(t.elts) == 2 and all(isinstance(x, ast.Name) for x in t.elts)):
            return False
        it = c.iter
        if not (isinstance(it, ast.Call) and isinstance(it.func, ast.Name) and it.func.id == "enumerate" and len(it.args) == 1
                and not it.keywords and len(c.ifs) == 1):
            return False
        f = c.ifs[0]
        if not (isinstance(f, ast.Compare) and len(f.ops) == 1 and isinstance(f.ops[0], ast.Is)):
            return False
        names = [x.id for x in (f.left, f.comparators[0]) if isinstance(x, ast.Name)]
        return t.elts[1].id in names and isinstance(g.elt, ast.Name) and g.elt.id == t.elts[0].id

    def e_GeneratorExp(self, e, p):
        raise Unsupported("generator expression outside any()/all()/tuple()/max()")

    def comp_parts(self, e):
        if len(e.generators) != 1 or e.generators[0].is_async or not isinstance(e.generators[0].target, ast.Name):
            raise Unsupported("comprehension shape")
        g = e.generators[0]
        return g.target.id, g.iter, g.ifs, e.elt

    def comprehension(self, e, p, result):
        """[v for v in L if v is not X]  ->  the list L without the element X (lemma L1: on a duplicate-free
        list holding X at position k this is remove_at(L, k); both premises are obligations)."""
        if self.zip_is_pattern(e):
            yield from self.zip_is_comprehension(e, p, result)
            return
        var, it, ifs, elt = self.comp_parts(e)
        if not (isinstance(elt, ast.Name) and elt.id == var and len(ifs) == 1):
            raise Unsupported("comprehension %s" % ast.unparse(e))
        c = ifs[0]
        ok = (isinstance(c, ast.Compare) and len(c.ops) == 1 and isinstance(c.ops[0], ast.IsNot)
              and isinstance(c.left, ast.Name) and c.left.id == var)
        if not ok:
            raise Unsupported("comprehension filter %s (only `v is not X` is interpreted)" % ast.unparse(c))
        for q, (lv, xv) in self.evs2(it, c.comparators[0], p):
            L = self.seq_of(lv, q)
            X = xv.t
            k = q.S.idx(X)
            j = Int("j")
            i = Int("i")
            self.oblig(q, "LEMMA-PREMISE", "L1:filter_ne", And(0 <= k, k < L.n, L.a[k] == X,
                       ForAll([j], Implies(And(0 <= j, j < L.n, j != k), L.a[j] != X))),
                       note="premises of lemma L1 (X occurs exactly once, at position idx(X))")
            arr = Array(fresh("filtered"), I, R)
            q.assume(ForAll([i], arr[i] == If(i < k, L.a[i], L.a[i + 1])))
            if result == "list":
                yield q, self.alloc_list(q, L.n - 1, arr)
            else:
                yield q, V("aseq", ASeq(L.n - 1, arr))

    def zip_is_pattern(self, e):
        """(a for a, b in zip(X, Y) if a is b)"""
        if len(e.generators) != 1:
            return False
        g = e.generators[0]
        t = g.target
        if not (isinstance(t, ast.Tuple) and len(t.elts) == 2 and all(isinstance(x, ast.Name) for x in t.elts)):
            return False
        a, b = t.elts[0].id, t.elts[1].id
        it = g.iter
        if not (isinstance(it, ast.Call) and isinstance(it.func, ast.Name) and it.func.id == "zip" and len(it.args) == 2
                and not it.keywords and len(g.ifs) == 1):
            return False
        c = g.ifs[0]
        ok = (isinstance(c, ast.Compare) and len(c.ops) == 1 and isinstance(c.ops[0], ast.Is)
              and isinstance(c.left, ast.Name) and isinstance(c.comparators[0], ast.Name)
              and {c.left.id, c.comparators[0].id} == {a, b})
        return ok and isinstance(e.elt, ast.Name) and e.elt.id in (a, b)

    def zip_is_comprehension(self, e, p, result):
        """lemma L2: if the positions at which two sequences hold the identical object are downward closed (premise,
        an obligation here), the identity-filter over their zip is their common prefix: there is k with
        s[:k] == t[:k] element-wise, s[k] is not t[k] (if both exist), and the result is s[:k]"""
        it = e.generators[0].iter
        for q, (sv, tv) in self.evs2(it.args[0], it.args[1], p):
            s, t = self.seq_of(sv, q), self.seq_of(tv, q)
            i, j = Int("i"), Int("j")
            mn = If(s.n < t.n, s.n, t.n)
            self.oblig(q, "LEMMA-PREMISE", "L2:agreement-downward-closed",
                       ForAll([i, j], Implies(And(0 <= i, i < j, j < mn, s.a[j] == t.a[j]), s.a[i] == t.a[i])),
                       note="premise of lemma L2 (filter over zip by identity = common prefix)")
            k = Int(fresh("common"))
            q.assume(0 <= k, k <= mn, ForAll([i], Implies(And(0 <= i, i < k), s.a[i] == t.a[i])),
                     Implies(k < mn, s.a[k] != t.a[k]))
            yield q, V("aseq", ASeq(k, s.a))

    def subscript_load(self, obj, key, p, e):
        if obj.k in ("aseq", "listref") and key.k == "int":
            s = self.seq_of(obj, p)
            idx = If(key.t < 0, key.t + s.n, key.t)
            if self.handlers:
                # inside a try-block the IndexError is an ordinary outcome (it may be caught)
                r = p.fork(Not(And(0 <= idx, idx < s.n)), "index:out-of-range")
                if feasible(r.pc):
                    self.raise_(r, Exc("IndexError", "subscript"))
                p.trace.append("index:ok")
            else:
                self.oblig(p, "SAFE", "index", And(0 <= idx, idx < s.n), note="no IndexError")
            yield p.assume(0 <= idx, idx < s.n), vref(s.a[idx])
            return
        if obj.k == "tuple" and key.k == "int":
            from z3 import simplify
            kk = simplify(key.t)
            yield p, obj.t[kk.as_long()]
            return
        raise Unsupported("subscript %s" % ast.unparse(e))

    def slice_load(self, obj, lo, hi, p, e):
        if obj.k != "aseq":
            raise Unsupported("slice %s" % ast.unparse(e))
        s = obj.t
        # bounds as Python clamps them
        def norm(v, default):
            if v is None:
                return default
            t = If(v.t < 0, v.t + s.n, v.t)
            return If(t < 0, 0, If(t > s.n, s.n, t))
        a = norm(lo, IntVal(0))
        b = norm(hi, s.n)
        n = If(b > a, b - a, 0)
        arr = Array(fresh("slice"), I, R)
        i = Int("i")
        p.assume(ForAll([i], arr[i] == s.a[i + a]))
        yield p, V("aseq", ASeq(n, arr), {"base": s, "off": a})

    # ------------------------------------------------------------------ calls
    def call(self, e, p):
        f = e.func
        star_ok = isinstance(f, ast.Name) and f.id == "zip" and f.id not in p.env and len(e.args) == 1 and not e.keywords
        if (any(isinstance(a, ast.Starred) for a in e.args) and not star_ok) or any(k.arg is None for k in e.keywords):
            raise Unsupported("star args in %s" % ast.unparse(e))
        if isinstance(f, ast.Name):
            for q, fv in self.ev(f, p):
                if fv.k == "builtin":
                    yield from self.builtin(fv.t, e, q)
                elif fv.k == "class":
                    yield from self.construct(fv.t, e, q)
                elif fv.k == "helper":
                    kwn = [k.arg for k in e.keywords]
                    for q2, vs in self.evs(list(e.args) + [k.value for k in e.keywords], q):
                        yield from self.inline_call(fv.t, vs[:len(e.args)], dict(zip(kwn, vs[len(e.args):])), q2, list(e.args))
                else:
                    raise Unsupported("call of %r" % fv)
            return
        if isinstance(f, ast.Attribute):
            # static call through the class name:  NodeMixin.__check_children(children)
            if isinstance(f.value, ast.Name) and f.value.id in (self.fam.cls, getattr(self.fam, "alias", None)) \
                    and f.value.id not in p.env:
                spec = self.fam.specs.get((self.mangle(f.attr), "static"))
                if spec is None:
                    h = self.find_helper(f.attr, self.fam.cls, "static")
                    if h is None:
                        raise Unsupported("static call %s" % ast.unparse(f))
                    for q, vs in self.evs(e.args, p):
                        yield from self.inline_call(h, vs, {}, q, list(e.args))
                    return
                for q, vs in self.evs(e.args, p):
                    args = {n: v for (n, _), v in zip(spec.params, vs)}
                    yield from self.apply_spec(spec, q, args, "call:" + f.attr)
                return
            for q, obj in self.ev(f.value, p):
                yield from self.method_call(obj, self.mangle(f.attr), e, q)
            return
        raise Unsupported("call %s" % ast.unparse(e))

    def method_call(self, obj, name, e, p):
        if obj.k == "ref" and name in HOOKS:
            for q, vs in self.evs(e.args, p):
                self.need_node(obj, q, name)
                yield from self.hook_call(name, obj, vs[0], q)
            return
        if obj.k == "listref" and name == "append":
            for q, vs in self.evs(e.args, p):
                S = q.S
                n = S.Llen[obj.t]
                q.set_state(S.copy(Llen=Store(S.Llen, obj.t, n + 1), Lat=Store(S.Lat, obj.t, Store(S.Lat[obj.t], n, vs[0].t))))
                q.trace.append("append")
                yield q, VNONE
            return
        if obj.k == "idset" and name == "add":
            raise Unsupported("set.add on a set value that is not a plain local")
        if obj.k == "ref":
            spec = self.fam.specs.get((name, "method"))
            if spec is not None:
                for q, vs in self.evs(e.args, p):
                    self.need_node(obj, q, name)
                    args = {"self": obj}
                    args.update({n: v for (n, _), v in zip(spec.params[1:], vs)})
                    yield from self.apply_spec(spec, q, args, "call:" + name)
                return
        raise Unsupported("method call .%s on %r" % (name, obj))

    def s_Expr(self, st, p):
        # seen.add(x) on a local set of ids: functional update of the local
        v = st.value
        if (isinstance(v, ast.Call) and isinstance(v.func, ast.Attribute) and v.func.attr == "add"
                and isinstance(v.func.value, ast.Name) and v.func.value.id in p.env
                and p.env[v.func.value.id].k == "idset"):
            out = []
            for q, vs in self.evs(v.args, p):
                if vs[0].k != "id":
                    raise Unsupported("set.add of %r" % vs[0])
                q.env[v.func.value.id] = V("idset", Store(q.env[v.func.value.id].t, vs[0].t, True))
                self.mark_inplace(q, v.func.value.id)
                out.append(q)
            return out
        # xs.reverse() on a local holding a list value made by list(...) (fresh, never aliased in the subset): functional update
        if (isinstance(v, ast.Call) and isinstance(v.func, ast.Attribute) and v.func.attr == "reverse" and not v.args and not v.keywords
                and isinstance(v.func.value, ast.Name) and v.func.value.id in p.env and p.env[v.func.value.id].k == "aseq"):
            nm = v.func.value.id
            if sum(1 for w in p.env.values() if w is p.env[nm]) != 1:
                raise Unsupported("in-place reverse of a list that another local refers to")
            p.env[nm] = V("aseq", self.reverse(self.seq_of(p.env[nm], p), p))
            self.mark_inplace(p, nm)
            return [p]
        return Exec.s_Expr(self, st, p)

    def fresh_of_kind(self, kind, name):
        if kind == "idset":
            return V("idset", Array(fresh(name), R, B))
        if kind == "listref":
            return V("listref", fresh_const(name, R))
        if kind == "id":
            return V("id", fresh_const(name, R))
        if kind == "msg":
            return V("msg", None)
        return Exec.fresh_of_kind(self, kind, name)

    def hook_call(self, name, recv, arg, p):
        """user hook: assumed contract - returns or raises an Exception, does not touch any link.  What the hook
        is entitled to observe is an obligation on the caller (HOOKOBS)."""
        obs = self.spec.hookobs.get(name)
        if obs is None:
            self.oblig(p, "HOOKOBS", name, BoolVal(False), props={"C16"},
                       note="hook call site not foreseen by the contract")
        else:
            for c in clauses(obs(self.fnctx, p.S, recv, arg), props={"C16"}):
                self.oblig(p, "HOOKOBS", "%s/%s" % (name, c.name), c.f, props=c.props)
        argref = arg.t if arg.k == "ref" else seqobj(arg.t.n, arg.t.a)
        p.set_state(p.S.log_append(IntVal(HOOK_ID[name]), recv.t, argref))
        r = p.fork()
        self.raise_(r, Exc("UserExc", "hook:" + name))
        p.trace.append(name)
        yield p, VNONE

    def e_Tuple(self, e, p):
        # the empty tuple literal is the value of `tuple()` (CPython has one empty tuple); treated exactly alike
        if not e.elts:
            call = ast.copy_location(ast.Call(func=ast.Name(id="tuple", ctx=ast.Load()), args=[], keywords=[]), e)
            yield from self.builtin("tuple", call, p)
            return
        yield from super().e_Tuple(e, p)

    def builtin(self, name, e, p):
        args = e.args
        if name == "hasattr":
            for q, vs in self.evs(args, p):
                obj, a = vs
                if a.k != "pystr" or obj.k != "ref":
                    raise Unsupported("hasattr %s" % ast.unparse(e))
                self.need_node(obj, q, "hasattr")
                if a.t == self.PA:
                    yield q, vbool(q.S.hasP[obj.t])
                elif a.t == self.CA:
                    yield q, vbool(q.S.hasC[obj.t])
                else:
                    raise Unsupported("hasattr(_, %r)" % a.t)
            return
        if name == "type" and len(args) == 1:
            for q, vs in self.evs(args, p):
                py = (vs[0].x or {}).get("py") if isinstance(vs[0].x, dict) else None
                if py is None:
                    raise Unsupported("type() of a value whose exact built-in type is not known statically")
                yield q, V("pytype", py)
            return
        if name == "isinstance":
            for q, vs in self.evs(args[:1], p):
                names = sorted(ast.unparse(x) for x in (args[1].elts if isinstance(args[1], ast.Tuple) else [args[1]]))
                py = (vs[0].x or {}).get("py") if isinstance(vs[0].x, dict) else None
                if vs[0].k == "aseq" and py in ("tuple", "list") and set(names) <= {"tuple", "list"}:
                    # a value built by tuple(...) / list(...) / a display in this very function: its exact built-in type is known
                    yield q, vbool(py in names)
                    continue
                if names != ["LightNodeMixin", "NodeMixin"] or vs[0].k != "ref":
                    raise Unsupported("isinstance %s" % ast.unparse(e))
                # forests are homogeneous in their mixin family (assumption): being an instance of either mixin
                # is being a node of the family under verification
                yield q, vbool(isn(vs[0].t))
            return
        if name == "tuple":
            if not args:
                yield p, V("aseq", ASeq(IntVal(0), K(I, NONE)), {"py": "tuple"})
                return
            if isinstance(args[0], ast.GeneratorExp):
                for q, v in self.comprehension(args[0], p, "tuple"):
                    if v.k == "aseq" and v.x is None:
                        v = V("aseq", v.t, {"py": "tuple"})
                    yield q, v
                return
            for q, vs in self.evs(args, p):
                v = vs[0]
                if v.k in ("listref", "aseq"):
                    s = self.seq_of(v, q)
                    yield q, V("aseq", ASeq(s.n, s.a), {"py": "tuple"})
                elif v.k == "iterseq" and isinstance(v.x, ASeq):
                    yield q, V("aseq", v.x)
                elif v.k == "rev":
                    yield q, V("aseq", self.reverse(v.t, q))
                elif v.k == "ref":
                    # arbitrary object: TypeError unless iterable
                    r = q.fork(Not(iterable(v.t)))
                    self.raise_(r, Exc("TypeError", "tuple"))
                    q.assume(iterable(v.t), itlen(v.t) >= 0)
                    yield q, V("aseq", ASeq(itlen(v.t), itat(v.t)), {"py": "tuple"})
                else:
                    raise Unsupported("tuple(%r)" % v)
            return
        if name == "list":
            # list(<sequence>) used as a temporary (reversed / tuple / len / iteration): a value, not a heap object;
            # any mutation of it (append, store into an attribute) is outside the subset and rejected as such
            for q, vs in self.evs(args, p):
                v = vs[0]
                if v.k in ("aseq", "listref", "iterseq"):
                    s = self.seq_of(v, q)
                    yield q, V("aseq", ASeq(s.n, s.a))
                else:
                    raise Unsupported("list(%r)" % v)
            return
        if name == "reversed":
            for q, vs in self.evs(args, p):
                yield q, V("rev", self.seq_of(vs[0], q))
            return
        if name == "len":
            for q, vs in self.evs(args, p):
                s = self.seq_of(vs[0], q)
                yield q, vint(s.n)
            return
        if name in ("any", "all"):
            g = args[0]
            if not isinstance(g, ast.GeneratorExp):
                raise Unsupported("%s of a non-generator" % name)
            var, it, ifs, elt = self.comp_parts(g)
            if ifs:
                raise Unsupported("filtered any/all")
            for q, itv in self.ev(it, p):
                seq = self.as_iterseq(itv, q)
                j = Int(fresh("j"))
                sub = q.fork()
                if isinstance(itv.x, dict) and "base" in itv.x:
                    # a slice: quantify over the index into the underlying sequence (keeps instantiation patterns
                    # free of arithmetic offsets)
                    base, off = itv.x["base"], itv.x["off"]
                    sub.env[var] = vref(base.a[j])
                    rng = And(off <= j, j < off + seq.n)
                else:
                    sub.env[var] = seq.at(j)
                    rng = And(0 <= j, j < seq.n)
                res = list(self.ev_truth(elt, sub))
                if len(res) != 1 or len(res[0][0].pc) != len(q.pc) or res[0][0].S is not q.S:
                    raise Unsupported("any/all body with effects: %s" % ast.unparse(g))
                body = res[0][1]
                yield q, vbool(Exists([j], And(rng, body)) if name == "any" else ForAll([j], Implies(rng, body)))
            return
        if name == "max":
            g = args[0] if len(args) == 1 else None
            if not isinstance(g, ast.GeneratorExp):
                raise Unsupported("max of a non-generator")
            var, it, ifs, elt = self.comp_parts(g)
            if ifs:
                raise Unsupported("filtered max")
            for q, itv in self.ev(it, p):
                seq = self.as_iterseq(itv, q)
                j = Int(fresh("j"))
                sub = q.fork(And(0 <= j, j < seq.n))
                sub.env[var] = seq.at(j)
                body, effect = self.functional_term(elt, sub)
                if body.k != "int":
                    raise Unsupported("max over %r" % body)
                self.oblig(q, "SAFE", "max-of-nonempty", seq.n > 0, note="max() of an empty sequence raises ValueError")
                m = Int(fresh("max"))
                jj = Int("jj")
                from z3 import substitute
                bj = substitute(body.t, (j, jj))
                q.assume(seq.n > 0, ForAll([jj], Implies(And(0 <= jj, jj < seq.n), m >= bj)),
                         Exists([jj], And(0 <= jj, jj < seq.n, m == bj)))
                if effect:
                    self.viewpure_havoc(q)
                yield q, vint(m)
            return
        if name == "next" and len(args) == 1 and isinstance(args[0], ast.GeneratorExp) and self.identity_index_pattern(args[0]):
            g = args[0].generators[0]
            for q, (sv, xv) in self.evs2(g.iter.args[0], [c for c in g.ifs[0].comparators + [g.ifs[0].left]
                                                          if not (isinstance(c, ast.Name) and c.id == g.target.elts[1].id)][0], p):
                s = self.seq_of(sv, q)
                k = Int(fresh("pos"))
                jj = Int("jj")
                found = Exists([jj], And(0 <= jj, jj < s.n, s.a[jj] == xv.t))
                r = q.fork(Not(found), "next:none")
                if self.handlers:
                    self.raise_(r, Exc("StopIteration", "next"))
                else:
                    self.oblig(q, "SAFE", "identity-index-exists", found, note="next() on an exhausted generator raises StopIteration")
                q.assume(0 <= k, k < s.n, s.a[k] == xv.t, ForAll([jj], Implies(And(0 <= jj, jj < k), s.a[jj] != xv.t)))
                yield q, vint(k)
            return
        if name == "zip" and len(args) == 1 and isinstance(args[0], ast.Starred):
            for q, sv in self.ev(args[0].value, p):
                if sv.k != "seqseq":
                    raise Unsupported("zip(*%r)" % sv)
                N, row = sv.t
                M = Int(fresh("ziplen"))
                kk = Int("kk")
                q.assume(M >= 0, ForAll([kk], Implies(And(0 <= kk, kk < N), M <= row(kk).n)),
                         Implies(N > 0, Exists([kk], And(0 <= kk, kk < N, M == row(kk).n))), Implies(N <= 0, M == 0))
                from z3 import Lambda
                yield q, V("iterseq", IterSeq(M, (lambda NN, rw: lambda i: V("aseq", ASeq(NN, Lambda([kk], rw(kk).a[i]))))(N, row),
                                               desc="zip(*rows)"))
            return
        if name == "id":
            for q, vs in self.evs(args, p):
                if vs[0].k != "ref":
                    raise Unsupported("id(%r)" % vs[0])
                yield q, V("id", vs[0].t)      # id() is injective on live objects (assumption)
            return
        if name == "set":
            if args:
                raise Unsupported("set(...)")
            yield p, V("idset", K(R, False))
            return
        if name == "enumerate":
            for q, vs in self.evs(args, p):
                seq = self.as_iterseq(vs[0], q)
                start = vs[1].t if len(vs) > 1 else IntVal(0)
                yield q, V("iterseq", IterSeq(seq.n, (lambda s, st: lambda i: V("tuple", (vint(i + st), s.at(i))))(seq, start),
                                               desc="enumerate"))
            return
        raise Unsupported("builtin %s" % name)

    def functional_term(self, e, sub):
        """value of a call-free expression or of a property access with a functional contract, as a closed term;
        PRE obligations are emitted on the sub-path.  Returns (V, has_view_pure_effect)."""
        if isinstance(e, ast.Attribute) and isinstance(e.value, ast.Name) and e.value.id in sub.env:
            obj = sub.env[e.value.id]
            spec = self.fam.specs.get((self.mangle(e.attr), "getter"))
            if spec is not None and obj.k == "ref" and len(spec.outcomes) == 1 and spec.outcomes[0].value is not None:
                self.need_node(obj, sub, e.attr)
                ctx = Ctx(spec, sub.S, {"self": obj})
                for c in clauses(spec.requires(ctx)):
                    self.oblig(sub, "PRE", "get:%s/%s" % (e.attr, c.name), c.f)
                o = spec.outcomes[0]
                kind = "int" if o.res == "int" else o.res
                return V(kind, o.value(ctx)), bool(o.mods)
        raise Unsupported("generator body %s (needs a functional contract)" % ast.unparse(e))

    def viewpure_havoc(self, p):
        """effect of any number of view-pure calls (lazy creation of empty child lists): raw list fields change, the
        view, the ghost state and well-formedness do not (each step preserves them; they are transitive)"""
        from .heap import view_equal, alloc_mono, wf
        S0 = p.S
        S1 = S0.havoc(("hasC", "C", "Llen", "alloc"), "vp")
        p.set_state(S1)
        p.assume(view_equal(S1, S0), alloc_mono(S1, S0), *wf(S1))

    def reverse(self, s, p):
        arr = Array(fresh("rev"), I, R)
        i = Int("i")
        p.assume(ForAll([i], arr[i] == s.a[s.n - 1 - i]))
        return ASeq(s.n, arr)

    def construct(self, cls, e, p):
        raise Unsupported("constructor call %s" % ast.unparse(e))

    # ------------------------------------------------------------------ generators (eager, ghost output sequence)
    def yield_value(self, p, v):
        if v.k != "ref":
            raise Unsupported("yield of %r" % v)
        s = p.out
        p.out = ASeq(s.n + 1, Store(s.a, s.n, v.t))

    def havoc_out(self, p, spec):
        if p.out is not None and self.spec.generator:
            p.out = ASeq.fresh("out")

    # ------------------------------------------------------------------ contracts at call sites
    def fresh_result(self, kind):
        return fresh_value(kind, "res")

    def apply_spec(self, spec, p, args, label):
        """replace a call by the callee's contract: PRE obligations, then one continuation per outcome"""
        args = dict(args)
        for n, k in spec.params:
            if n not in args:
                raise Unsupported("argument %s of %s missing at the call site" % (n, spec.name))
            ak = args[n].k
            compatible = {"ref": ("ref", "aseq", "listref"), "aseq": ("aseq",), "listref": ("listref",),
                          "qseq": ("qseq", "gen"), "fn": ("fn",), "optfn": ("optfn",), "optint": ("optint",),
                          "int": ("int",), "bool": ("bool",), "any": ("any",), "optiter": ("optiter", "ref", "aseq")}
            if k == "any":
                continue
            if k in compatible and ak not in compatible[k]:
                raise Unsupported("argument %s of %s: a value of kind %s where the contract expects %s" % (n, spec.name, ak, k))
        for n, k in spec.params:
            if k == "ref" and args[n].k == "aseq":
                # a tuple value handed over as an object: it is iterable and iterates as itself
                s = args[n].t
                o = seqobj(s.n, s.a)
                p.assume(iterable(o), itlen(o) == s.n, itat(o) == s.a, o != NONE)
                args[n] = vref(o)
        ctx = Ctx(spec, p.S, args)
        if getattr(spec, "uses_witness", False):
            # the contract speaks about 'some callback with the stated pointwise behaviour' (existential witness)
            ctx.wit = self.fresh_witness()
            p.extra["fnwit"] = list(p.extra.get("fnwit", [])) + [ctx.wit]
        for c in clauses(spec.requires(ctx)):
            self.oblig(p, "PRE", "%s/%s" % (label, c.name), c.f)
        outs = []
        for o in spec.outcomes:
            cond = o.when(ctx) if o.when is not None else None
            if cond is not None and (not _maybe_true(cond) or not feasible(p.pc, cond)):
                continue
            q = p.fork(cond, "%s=%s" % (label, o.label))
            if o.mods == "all":
                S1 = q.S.havoc(RAW + GHOST + LOG, "post")
            elif o.mods:
                S1 = q.S.havoc(o.mods, "post")
            else:
                S1 = q.S
            if o.value is not None:
                res = V(o.res, o.value(ctx), dict(o.tag) if o.tag else None)
            else:
                res = self.fresh_result("int" if (o.res.startswith("wit") or o.res == "payload") else
                                        ("none" if o.res == "exc" else o.res))
                if o.tag and res.x is None:
                    res = V(res.k, res.t, dict(o.tag))
            q.set_state(S1)
            q.assume(*[c.assumable() for c in clauses(o.post(ctx, S1, res))])
            if o.kind == "return":
                outs.append((q, res))
            else:
                # a callee outcome's site is a semantic label (e.g. "hook:_pre_detach") that travels up with the exception; a site
                # *pattern* ("explicit*", "call:*") only classifies the callee's own raise statements - seen from here it is a call
                site = label if (o.site is None or o.site.endswith("*")) else o.site
                if p.cur_exc is not None:
                    site = "in-handler:" + site
                self.raise_(q, Exc(o.exc, site, res))
        return outs


class HeapWorld:
    def make_exec(self, spec, fi):
        return HeapExec(spec, fi)

    def initial_state(self):
        return State("0")

    def make_arg(self, n, k):
        if k == "optiter":
            return V("optiter", Const("arg_" + n, R))
        n = n.replace("*", "star_")
        if k == "aseq":
            return V("aseq", ASeq(Int("arg_%s_len" % n), Array("arg_%s_at" % n, I, R)))
        return V(k, Const("arg_" + n, R)) if k in ("ref", "listref") else initial_value(k, "arg_" + n)

    def arg_facts(self, args, spec):
        return [args[n].t.n >= 0 for n, k in spec.params if k == "aseq"]

    def empty_out(self, spec):
        return ASeq(IntVal(0), K(I, NONE))

    def make_arg_name(self, n):
        return n.replace("*", "star_")

    def gen_value(self, p):
        return V("aseq", p.out)

    def kind_ok(self, want, value):
        if want == "iterseq":
            return value.k == "aseq"
        return value.k == want


HEAPWORLD = HeapWorld()


# --------------------------------------------------------------------------------------- verification of a Spec
class StructFailure:
    def __init__(self, ident, msg):
        self.ident, self.msg = ident, msg


def verify_spec(spec):
    """generate all obligations for one function against its Spec; returns (FuncInfo|None, [Obligation], [StructFailure])"""
    try:
        fi = spec.fi()
    except frontend.StructError as e:
        return None, [], [StructFailure("%s:%s.%s[%s]" % (spec.relpath, spec.cls, spec.name, spec.role), str(e))]
    world = getattr(spec, "world", None) or HEAPWORLD
    ex = world.make_exec(spec, fi)
    S0 = world.initial_state()
    formal = fi.params()
    if fi.node.args.vararg is not None:
        formal = formal + ["*" + fi.node.args.vararg.arg]
    if fi.node.args.kwarg is not None:
        formal = formal + ["**" + fi.node.args.kwarg.arg]
    rename = {}
    if [n for n, _ in spec.params] != formal:
        private = fi.name.startswith("_") and not fi.name.endswith("__")
        cand = {a: b for (a, _), b in zip(spec.params, formal) if a != b} if len(formal) == len(spec.params) else {}
        if private and not fi.name.startswith("__"):
            # a protected (single underscore) helper: renaming is invisible only if no caller in the package passes the
            # renamed parameters by keyword
            used = frontend.keyword_call_sites(fi.name)
            private = not (used & (set(cand) | set(cand.values())))
        if private and len(formal) == len(spec.params) and all(a.startswith("*") == b.startswith("*") for (a, _), b in zip(spec.params, formal)):
            # a private helper's parameter names are not part of any interface: bind the contract's names positionally
            rename = cand
        else:
            return fi, [], [StructFailure(fi.ident, "parameters %s differ from the contract's %s"
                                          % (formal, [n for n, _ in spec.params]))]
    if rename:
        # sidecar invariants name the parameters as the contract does
        ex._alias = {a.lstrip("*"): b.lstrip("*") for a, b in rename.items()}
    args = {n: world.make_arg(n, k) for n, k in spec.params}
    ctx = Ctx(spec, S0, args)
    ex.fnctx = ctx
    pre = clauses(spec.requires(ctx))
    p0 = Path({rename.get(n, n).lstrip("*"): v for n, v in args.items()}, S0, list(S0.axioms) + world.arg_facts(args, spec) + [c.f for c in pre], [],
              world.empty_out(spec) if spec.generator else None)
    hints = getattr(spec, "hints", None)
    if hints:
        p0.pc.extend(hints(ctx))
    if hasattr(world, "init_path"):
        world.init_path(p0, spec, ctx)
    # input probes (vacuity / solver-soundness guard): under the precondition, the axioms and the definitional hints alone, both
    # "this sequence argument is empty" and "... is non-empty" must remain satisfiable (an `unsat` here is a checker fault)
    try:
        from z3 import Length as _Len, is_seq as _is_seq
        for n_, v_ in args.items():
            t_ = getattr(v_, "t", None)
            if t_ is not None and hasattr(t_, "sort") and _is_seq(t_) and n_ not in getattr(spec, "nonempty_args", ()):
                for nm_, f_ in (("empty", _Len(t_) == 0), ("non-empty", _Len(t_) > 0)):
                    ex.obl.append(Obligation("%s/PROBE:%s-%s" % (fi.ident, n_, nm_), "PROBE", list(p0.pc) + [f_], BoolVal(False), spec.props,
                                             "guard: must NOT be provable"))
    except Exception:
        pass
    try:
        exits = ex.run(p0)
    except (Unsupported, frontend.StructError) as e:
        return fi, ex.obl, [StructFailure(fi.ident, "%s: %s" % (type(e).__name__, e))]
    except Exception as e:
        # a sidecar clause (invariant, precondition at a call site) cannot be evaluated on the shape the code now has
        # (renamed/removed variable, value of another kind): the proof does not go through
        import traceback
        tb = traceback.extract_tb(e.__traceback__)[-1]
        return fi, ex.obl, [StructFailure(fi.ident, "contract not applicable to this code: %s: %s (at %s:%d)"
                                          % (type(e).__name__, e, tb.filename.split("/")[-1], tb.lineno))]
    fails = []
    try:
        _judge_exits(spec, world, ex, ctx, exits)
    except (Unsupported, frontend.StructError, AttributeError, TypeError, KeyError, IndexError, ValueError) as e:
        # the contract cannot even be evaluated on the shape this code now has
        return fi, ex.obl, [StructFailure(fi.ident, "contract not applicable: %s: %s" % (type(e).__name__, e))]
    except Exception as e:
        if type(e).__name__ == "Z3Exception":
            return fi, ex.obl, [StructFailure(fi.ident, "contract not applicable (sort error): %s" % e)]
        raise
    return fi, ex.obl, fails


def _judge_exits(spec, world, ex, ctx, exits):
    for x in exits:
        p = x.path
        if spec.generator and x.kind == "return":
            value = world.gen_value(p)
        else:
            value = x.value
            if hasattr(world, "normalize_result") and value is not None:
                value = world.normalize_result(value, p, ex)
        ctx.final_path = p
        if getattr(spec, "uses_witness", False):
            wl = p.extra.get("fnwit", [])
            if not wl:
                ex.oblig(p, "KIND", "witness-callback", BoolVal(False), note="no callback was built on this path")
                continue
            ctx.wit = wl[-1]
        cands = [o for o in spec.outcomes if o.matches(x)]
        if not cands:
            ex.oblig(p, "SAFE", "undeclared-exit:%s" % x.label, BoolVal(False),
                     note="an exit the contract does not foresee must be unreachable")
            continue
        if len(cands) > 1 and all(c_.when is not None for c_ in cands):
            # several conditional outcomes of the same kind: exactly the one whose condition holds applies
            ex.oblig(p, "RAISES", "some-outcome-applies:%s" % "|".join(c_.label for c_ in cands),
                     Or(*[c_.when(ctx) for c_ in cands]), props=spec.props)
            for c_ in cands:
                q_ = p.fork(c_.when(ctx), "case:" + c_.label)
                if feasible(q_.pc):
                    _judge_one(spec, world, ex, ctx, Exit(x.kind, q_, x.value, x.exc), c_, value)
            continue
        _judge_one(spec, world, ex, ctx, x, cands[0], value)
    return


def _judge_one(spec, world, ex, ctx, x, o, value):
    p = x.path
    ctx.final_path = p
    if True:
        ex.oblig(p, "CANARY", "exit-reachable:%s" % o.label, BoolVal(False),
                 note="vacuity guard: the path condition of this exit must not be refutable")
        if o.when is not None:
            ex.oblig(p, "RAISES", "%s/only-if" % o.label, o.when(ctx), props=spec.props | {"C02"})
        if not (x.kind == "raise" and x.exc.cls == "UserExc") and not o.user:
            for o2 in spec.outcomes:
                if o2 is not o and o2.when is not None and not o2.user:
                    ex.oblig(p, "RAISES", "%s/not-%s" % (o.label, o2.label), Not(o2.when(ctx)),
                             props=spec.props | {"C02"})
        if o.res == "exc":
            value = V("excargs", x.exc.payload)
        elif o.res == "payload":
            value = x.exc.payload
            if value is None or not isinstance(value, V) or value.k != "int":
                ex.oblig(p, "KIND", "%s/witness" % o.label, BoolVal(False), note="exception carries no witness")
                return
        elif o.res.startswith("wit"):
            # ghost witness of an exit taken inside loop #k: the iteration index on this path
            value = vint(p.extra[o.res]) if o.res in p.extra else None
            if value is None:
                ex.oblig(p, "KIND", "%s/witness" % o.label, BoolVal(False), note="exit is not inside loop %s" % o.res)
                return
        if o.res != "none" and o.res != "exc" and x.kind == "return":
            if value is None or not world.kind_ok(o.res, value):
                ex.oblig(p, "KIND", "%s/result-kind" % o.label, BoolVal(False),
                         note="result %r is not of the contract's kind %s" % (value, o.res))
                return
            if o.tag and not (isinstance(value.x, dict) and all(value.x.get(k_) == v_ for k_, v_ in o.tag.items())):
                ex.oblig(p, "KIND", "%s/result-type" % o.label, BoolVal(False),
                         note="the returned object is not known to be %s" % (o.tag,))
                return
        extra = []
        if o.value is not None and x.kind == "return":
            fv = o.value(ctx)
            if o.res == "aseq":
                jq = Int("jq")
                extra = [Clause("functional-result/len", value.t.n == fv.n, spec.props),
                         Clause("functional-result/elements", ForAll([jq], Implies(And(0 <= jq, jq < fv.n), value.t.a[jq] == fv.a[jq])), spec.props)]
            elif o.res == "tuple":
                ok = value.k == "tuple" and len(value.t) == len(fv) and all(a.k == b.k or {a.k, b.k} <= {"str", "pystr"} for a, b in zip(value.t, fv))
                if not ok:
                    extra = [Clause("functional-result/shape", BoolVal(False), spec.props)]
                else:
                    extra = [Clause("functional-result/%d" % k_, a.t == b.t, spec.props) for k_, (a, b) in enumerate(zip(value.t, fv))]
            else:
                extra = [Clause("functional-result", value.t == fv, spec.props)]
        for c in extra + clauses(o.post(ctx, p.S, value), props=spec.props):
            goal, sfx = c.provable()
            ex.oblig(p, "POST" if x.kind == "return" else "EXC", "%s/%s%s" % (o.label, c.name, sfx), goal,
                     props=c.props or spec.props)
    return
