#!/bin/bash
# usage: dev_mut.sh <file-relative> <sed-expr> [dev_run args...]
set -e
D=$(mktemp -d /tmp/mutXXXX)
cp -r /repo/anytree $D/anytree
sed -i "$2" $D/$1
diff -u /repo/$1 $D/$1 | head -30 || true
shift; shift
PYVC_REPO=$D python3-vt /verif/dev_run.py "$@" 2>&1 | tail -15
rm -rf $D
