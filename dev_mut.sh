#!/bin/bash
# usage: dev_mut.sh <file-relative> <sed-expr> [dev_run args...]
D=$(mktemp -d /tmp/mutXXXX)
cp -r /repo/anytree $D/anytree
sed -i "$2" $D/$1
diff -u /repo/$1 $D/$1 | grep '^[-+]' | grep -v '^+++\|^---'
shift; shift
PYVC_REPO=$D python3-vt /verif/dev_run.py "$@" > $D/out.txt 2>&1
grep -c "NOT ACCEPTED" $D/out.txt
grep "NOT ACCEPTED" $D/out.txt | sed 's/.*anytree\/node\/[a-z]*.py://' | cut -c1-150 | head -6
grep "struct: \['" $D/out.txt | cut -c1-300
grep "^total\|Traceback\|Error" $D/out.txt | head
rm -rf $D
