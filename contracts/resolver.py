"""Sidecar contracts for anytree/resolver.py: Resolver.get (C07) and the parts of Resolver.glob reached so far (C08).

Spec functions (one defining equation each; `pathattr`, `ignorecase`, `relax` are the resolver's fields, fixed symbols):

    NAMEOF(c)            str(getattr(c, pathattr, None))
    CMPV(a, b)           a == b, upper-cased on both sides iff ignorecase
    FC(kids, j, name)    the first child among kids[:j] whose NAMEOF matches name (None if there is none)
    GN / GE(n0, ps, j)   node reached / error status (0 ok, 1 above root, 2 no such child) after the components ps[:j]
"""
from z3 import (And, BoolVal, Const, Empty, Extract, ForAll, Function, If, Implies, Int, IntVal, Length, Not, Or, PrefixOf, StringVal)

from pyvc.core import LoopSpec, V
from pyvc.heap import B, I, NONE, R
from pyvc.heapworld import Clause, Outcome
from pyvc.seqworld import CH, PAR, QSpec, Registry, SeqR
from pyvc.textworld import (ATTR, BOR, COMPILE, HAS, IGNORECASE, KEY, KEYI, KEYP, KS, MATCHES, NONE_U, OFSTR, RE, REESC, ROOT, SEP,
                            SPLIT, STR, TEXTWORLD, UPPER, CmpFn, SeqStr, Str, U, vstr)

REL = "anytree/resolver.py"
P7 = {"C07"}
FC = Function("FC", SeqR, I, Str, R)
GN = Function("GN", R, SeqStr, I, R)
GE = Function("GE", R, SeqStr, I, I)
CMPAPP = Function("CMPAPP", CmpFn, Str, Str, B)
CMP_CONST = Const("CMP_CONST", CmpFn)
MATCH_CONST = Const("MATCH_CONST", CmpFn)


def S(x):
    return StringVal(x)


class Fields:
    """the resolver object's fields as fixed symbols"""
    pathattr = Const("f_pathattr", Str)
    ignorecase = Const("f_ignorecase", B)
    relax = Const("f_relax", B)


F = Fields


def nameof(c):
    n = OFSTR(F.pathattr)
    return STR(If(HAS(c, n), ATTR(c, n), NONE_U))


def cmpv(a, b):
    return If(F.ignorecase, UPPER(a) == UPPER(b), a == b)


def matchc(c, name):
    return cmpv(nameof(c), name)


def d_FC(kids, j, name):
    return [FC(kids, 0, name) == NONE,
            Implies(And(0 <= j, j < Length(kids)),
                    And(kids[j] != NONE,
                        FC(kids, j + 1, name) == If(FC(kids, j, name) != NONE, FC(kids, j, name), If(matchc(kids[j], name), kids[j], NONE))))]


def step(n, e, part):
    """one path component from node n (status e): new (node, status)"""
    kids = CH(n)
    fc = FC(kids, Length(kids), part)
    dots = Or(part == S(""), part == S("."))
    ne = If(e != 0, e, If(part == S(".."), If(PAR(n) == NONE, 1, 0), If(dots, 0, If(fc == NONE, 2, 0))))
    nn = If(e != 0, n, If(part == S(".."), If(PAR(n) == NONE, n, PAR(n)), If(dots, n, If(fc == NONE, n, fc))))
    return nn, ne


def d_G(n0, ps, j):
    nn, ne = step(GN(n0, ps, j), GE(n0, ps, j), ps[j])
    return [GN(n0, ps, 0) == n0, GE(n0, ps, 0) == 0,
            Implies(And(0 <= j, j < Length(ps)), And(GN(n0, ps, j + 1) == nn, GE(n0, ps, j + 1) == ne))]


def sticky(n0, ps, j, k):
    """once a component failed, status and node stay (lemma, proved by induction on k in SMT)"""
    return Implies(And(0 <= j, j <= k, k <= Length(ps), GE(n0, ps, j) != 0),
                   And(GE(n0, ps, k) == GE(n0, ps, j), GN(n0, ps, k) == GN(n0, ps, j)))


def fc_sticky(kids, j, k, name):
    """the first match stays the first match (lemma, proved by induction on k in SMT)"""
    return Implies(And(0 <= j, j <= k, k <= Length(kids), FC(kids, j, name) != NONE), FC(kids, k, name) == FC(kids, j, name))


def lemma_obligations():
    n0 = Const("ln0", R)
    ps = Const("lps", SeqStr)
    j, k = Int("lj"), Int("lk")
    kids = Const("lkids", SeqR)
    nm = Const("lname", Str)
    return [("LEMMA:first-match-is-sticky/base", [], fc_sticky(kids, j, j, nm)),
            ("LEMMA:first-match-is-sticky/step", d_FC(kids, k, nm) + [fc_sticky(kids, j, k, nm), k < Length(kids), j <= k],
             fc_sticky(kids, j, k + 1, nm)),
            ("LEMMA:failed-status-is-sticky/base", [], sticky(n0, ps, j, j)),
            ("LEMMA:failed-status-is-sticky/step", d_G(n0, ps, k) + [sticky(n0, ps, j, k), k < Length(ps), j <= k], sticky(n0, ps, j, k + 1))]


P8 = {"C08"}
TRANS = Function("TRANS", Str, I, Str)         # translation of the pattern prefix pat[:j] into regex syntax
GLOBRES = Function("GLOBRES", R, SeqStr, SeqR)  # strict-mode result list of __glob (bounded stand-in only)
GL = Function("GL", R, SeqStr, SeqR)            # relaxed denotation: the nodes the remaining components denote from a node
GLS = Function("GLS", SeqR, I, SeqStr, SeqR)    # '**': de-duplicated union over the subnodes subs[:j]
GLK = Function("GLK", SeqR, I, Str, SeqStr, SeqR)   # name/wildcard component: over the matching children among kids[:j]
DD = Function("DD", SeqR, SeqR, I, SeqR)        # acc extended by the elements of xs[:i] not yet present (identity)


def d_TRANS(pat, j):
    from z3 import SubString, Concat
    ch = SubString(pat, j, 1)
    return [TRANS(pat, 0) == S(""),
            Implies(And(0 <= j, j < Length(pat)),
                    TRANS(pat, j + 1) == Concat(TRANS(pat, j), If(ch == S("*"), S(".*"), If(ch == S("?"), S("."), REESC(ch)))))]


def trf(pat):
    from z3 import Concat
    return Concat(S("(?ms)"), TRANS(pat, Length(pat)), S("\\Z"))


def flags_of(ic):
    return If(ic, IGNORECASE, 0)


def wm(name, pat, ic):
    """the wildcard match the code performs: anchored regex built by __translate, IGNORECASE iff ignorecase"""
    return MATCHES(COMPILE(trf(pat), flags_of(ic)), name)


def cache_inv(cache):
    from z3 import Select
    dom, val, n = cache
    k = Const("ck", KS)
    return [Clause("cache/every-entry-is-the-compiled-translation-of-its-own-key",
                   ForAll([k], Implies(Select(dom, k), Select(val, k) == COMPILE(trf(KEYP(k)), flags_of(KEYI(k))))), P8),
            Clause("cache/size-nonneg", n >= 0, P8)]


def start_abs(c):
    return PrefixOf(SEP(c.node), c.path)


def start_parts(c):
    return SPLIT(c.path, SEP(c.node))


def build():
    reg = Registry()
    reg.bases["Resolver"] = None
    reg.cmpapp = lambda fn, a, b: CMPAPP(fn, a, b)
    reg.cmpconsts = {("Resolver", "_Resolver__cmp"): CMP_CONST, ("Resolver", "_Resolver__match"): MATCH_CONST}
    specs = []
    a_, b_ = Const("ca", Str), Const("cb", Str)
    CMP_AX = [ForAll([a_, b_], CMPAPP(CMP_CONST, a_, b_) == cmpv(a_, b_))]

    def fields(c):
        return {"pathattr": vstr(F.pathattr), "ignorecase": V("bool", F.ignorecase), "relax": V("bool", F.relax)}

    def qs(spec):
        spec.world = TEXTWORLD
        spec.fields = fields
        specs.append(spec)
        return spec
    SELF = ("self", "obj:Resolver")
    # ------------------------------------------------------------------ _getattr, __cmp
    sp = qs(QSpec(reg, REL, None, "_getattr", "function", [("node", "ref"), ("name", "str")], lambda c: [], [
        Outcome("return", "return", lambda c, S1, r: [], res="str", mods=(),
                value=lambda c: STR(If(HAS(c.node, OFSTR(c.name)), ATTR(c.node, OFSTR(c.name)), NONE_U)))], props=P7))
    reg.functions["_getattr"] = sp
    sp = qs(QSpec(reg, REL, "Resolver", "__cmp", "method", [SELF, ("name", "str"), ("pat", "str")], lambda c: [], [
        Outcome("return", "return", lambda c, S1, r: [], res="bool", mods=(), value=lambda c: cmpv(c.name, c.pat))], props=P7))
    reg.methods[("Resolver", "_Resolver__cmp")] = sp

    # ------------------------------------------------------------------ __get: first matching child
    def g_fc(c):
        return FC(CH(c.node), Length(CH(c.node)), c.name)

    def g_inv(L):
        c = L.fn
        return [("no-match-so-far", FC(CH(c.node), L.i, c.name) == NONE)]
    sp = qs(QSpec(reg, REL, "Resolver", "__get", "method", [SELF, ("node", "ref"), ("name", "str")],
                  lambda c: [Clause("node-is-not-None", c.node != NONE)], [
        Outcome("found", "return", lambda c, S1, r: [], res="ref", mods=(), when=lambda c: g_fc(c) != NONE, value=g_fc),
        Outcome("missed:relax", "return", lambda c, S1, r: [Clause("is-None", r.t == NONE)], res="ref", mods=(),
                when=lambda c: And(g_fc(c) == NONE, F.relax)),
        Outcome("ChildResolverError", "raise", lambda c, S1, r: [
            Clause("names-the-node", BoolVal(isinstance(r.t, list) and len(r.t) == 3 and r.t[0].k == "ref") if r.k == "excargs" else BoolVal(True)),
        ] + ([Clause("carries-node-and-child", And(r.t[0].t == c.node, r.t[1].t == c.name))] if r.k == "excargs" and isinstance(r.t, list) and len(r.t) == 3 and r.t[1].k == "str" else []),
            exc="ChildResolverError", mods=(), res="exc", when=lambda c: And(g_fc(c) == NONE, Not(F.relax))),
    ], loops={0: LoopSpec(g_inv, hints=lambda L: d_FC(CH(L.fn.node), L.i, L.fn.name) +
                          [fc_sticky(CH(L.fn.node), L.i + 1, Length(CH(L.fn.node)), L.fn.name)])}, props=P7,
        hints=lambda c: CMP_AX))
    reg.methods[("Resolver", "_Resolver__get")] = sp

    # ------------------------------------------------------------------ __start
    def st_rootname(c):
        return nameof(ROOT(c.node))

    def st_missing(c):
        ps = start_parts(c)
        return And(start_abs(c), Length(ps[1]) == 0)

    def st_unknown(c):
        ps = start_parts(c)
        return And(start_abs(c), Not(st_missing(c)), Not(CMPAPP(c.cmp_, st_rootname(c), ps[1])))

    def st_fail(c):
        return Or(st_missing(c), st_unknown(c))

    def st_ok_value(c):
        ps = start_parts(c)
        return (V("ref", If(start_abs(c), ROOT(c.node), c.node)),
                V("qseq", If(start_abs(c), Extract(ps, 2, Length(ps) - 2), ps), {"elem": "str"}))

    def st_req(c):
        ps = start_parts(c)
        # str.split: a leading separator yields an empty first piece and at least one more piece
        return [Clause("node-is-not-None", c.node != NONE),
                Clause("separator-non-empty", Length(SEP(c.node)) > 0)]
    sp = qs(QSpec(reg, REL, "Resolver", "__start", "method", [SELF, ("node", "ref"), ("path", "str"), ("cmp_", "cmpfn")], st_req, [
        Outcome("ok", "return", lambda c, S1, r: [], res="tuple", mods=(), when=lambda c: Not(st_fail(c)), value=st_ok_value),
        Outcome("refused:relax", "return", lambda c, S1, r: [
            Clause("is-(None, None)", BoolVal(r.k == "tuple" and len(r.t) == 2 and all(x.k == "ref" and x.t is NONE for x in r.t)))],
            res="tuple", mods=(), when=lambda c: And(st_fail(c), F.relax),
            value=lambda c: (V("ref", NONE), V("ref", NONE))),
        Outcome("ResolverError:root-missing", "raise", lambda c, S1, r: [], exc="ResolverError", site="explicit0", mods=(),
                when=lambda c: And(st_missing(c), Not(F.relax))),
        Outcome("ResolverError:unknown-root", "raise", lambda c, S1, r: [], exc="ResolverError", site="explicit1", mods=(),
                when=lambda c: And(st_unknown(c), Not(F.relax))),
    ], props=P7))
    reg.methods[("Resolver", "_Resolver__start")] = sp

    # ------------------------------------------------------------------ get
    class GetCtx:
        pass

    def gc(c):
        """start node / components after __start, for the comparison callback __cmp"""
        ps = start_parts(c)
        ab = start_abs(c)
        n0 = If(ab, ROOT(c.node), c.node)
        p0 = If(ab, Extract(ps, 2, Length(ps) - 2), ps)
        missing = And(ab, Length(ps[1]) == 0)
        unknown = And(ab, Not(missing), Not(cmpv(nameof(ROOT(c.node)), ps[1])))
        return n0, p0, Or(missing, unknown), missing

    def get_status(c):
        n0, p0, sfail, _ = gc(c)
        return If(sfail, 3, GE(n0, p0, Length(p0)))

    def get_node(c):
        n0, p0, _, _ = gc(c)
        return GN(n0, p0, Length(p0))

    def get_inv(L):
        c = L.fn
        n0, p0, _, _ = gc(c)
        return [("reached-so-far", And(L.t("node") == GN(n0, p0, L.i), GE(n0, p0, L.i) == 0, L.t("node") != NONE)),
                ("components", L.v["parts"].t == p0)]

    def get_hints(L):
        c = L.fn
        n0, p0, _, _ = gc(c)
        node = GN(n0, p0, L.i)
        return d_G(n0, p0, L.i) + d_FC(CH(node), Length(CH(node)), p0[L.i])[:1] + [sticky(n0, p0, L.i + 1, Length(p0))] + CMP_AX

    def exc_node(r, want):
        if r.k == "excargs" and isinstance(r.t, list) and r.t and r.t[0].k == "ref":
            return [Clause("carries-the-node-where-it-failed", r.t[0].t == want)]
        return []
    sp = qs(QSpec(reg, REL, "Resolver", "get", "method", [SELF, ("node", "ref"), ("path", "str")],
                  lambda c: [Clause("node-is-not-None", c.node != NONE), Clause("separator-non-empty", Length(SEP(c.node)) > 0)], [
        Outcome("reached", "return", lambda c, S1, r: [Clause("the-node-the-path-denotes", r.t == get_node(c))], res="ref", mods=(),
                when=lambda c: get_status(c) == 0),
        Outcome("None:relax", "return", lambda c, S1, r: [Clause("is-None", r.t == NONE)], res="ref", mods=(),
                when=lambda c: And(get_status(c) != 0, F.relax)),
        Outcome("RootResolverError", "raise", lambda c, S1, r: exc_node(r, get_node(c)), exc="RootResolverError", mods=(), res="exc",
                when=lambda c: And(get_status(c) == 1, Not(F.relax))),
        Outcome("ChildResolverError", "raise", lambda c, S1, r: exc_node(r, get_node(c)), exc="ChildResolverError", mods=(), res="exc",
                when=lambda c: And(get_status(c) == 2, Not(F.relax))),
        Outcome("ResolverError:root-component", "raise", lambda c, S1, r: [], exc="ResolverError", mods=(),
                when=lambda c: And(get_status(c) == 3, Not(F.relax))),
    ], loops={0: LoopSpec(get_inv, hints=get_hints)}, props=P7,
        hints=lambda c: CMP_AX + d_G(gc(c)[0], gc(c)[1], IntVal(0))[:2] + [ROOT(c.node) != NONE, PAR(ROOT(c.node)) == NONE]))
    reg.methods[("Resolver", "get")] = sp
    build_glob(reg, specs, qs, SELF, fields)
    return reg, specs


def build_glob(reg, specs, qs, SELF, fields):
    from z3 import Array, Contains, Select
    import ast as _ast
    from pyvc import frontend
    a_, b_ = Const("ma", Str), Const("mb", Str)
    MATCH_AX = [ForAll([a_, b_], CMPAPP(MATCH_CONST, a_, b_) == wm(a_, b_, F.ignorecase))]
    try:
        mx = frontend.module_assign(REL, "_MAXCACHE")
        maxcache = mx.value if isinstance(mx, _ast.Constant) and isinstance(mx.value, int) else None
    except frontend.StructError:
        maxcache = None
    reg.globals = {"_MAXCACHE": V("int", IntVal(maxcache if maxcache is not None else 20))}
    reg.classes["Resolver"] = None
    # ------------------------------------------------------------------ is_wildcard, __translate
    sp = qs(QSpec(reg, REL, "Resolver", "is_wildcard", "static", [("path", "str")], lambda c: [], [
        Outcome("return", "return", lambda c, S1, r: [], res="bool", mods=(),
                value=lambda c: Or(Contains(c.path, S("?")), Contains(c.path, S("*"))))], props=P8))
    reg.statics[("Resolver", "is_wildcard")] = sp
    sp = qs(QSpec(reg, REL, "Resolver", "__translate", "static", [("pat", "str")], lambda c: [], [
        Outcome("return", "return", lambda c, S1, r: [], res="str", mods=(), value=lambda c: trf(c.pat))],
        loops={0: LoopSpec(lambda L: [("translated-so-far", L.t("re_pat") == TRANS(L.fn.pat, L.i))],
                           hints=lambda L: d_TRANS(L.fn.pat, L.i), vars_kinds={"re_pat": "str"})}, props=P8,
        hints=lambda c: d_TRANS(c.pat, IntVal(0))[:1]))
    reg.statics[("Resolver", "_Resolver__translate")] = sp

    # ------------------------------------------------------------------ __match: the shared cache is transparent
    def m_req(c):
        cache = (Array("cache_dom", KS, B), Array("cache_val", KS, RE), Int("cache_n"))
        c.__dict__["cache0"] = cache
        return cache_inv(cache)

    def m_post(c, S1, r):
        cache1 = c.final_path.extra["cache"]
        return ([Clause("result-is-the-wildcard-match-for-this-resolvers-own-ignorecase (whatever the cache held)",
                        r.t == wm(c.name, c.pat, F.ignorecase), P8)] + cache_inv(cache1))
    sp = qs(QSpec(reg, REL, "Resolver", "__match", "method", [SELF, ("name", "str"), ("pat", "str")], m_req, [
        Outcome("return", "return", m_post, res="bool", mods=())], props=P8))
    sp.init_extra = lambda c: {"cache": c.cache0}
    reg.methods[("Resolver", "_Resolver__match")] = sp

    # ------------------------------------------------------------------ glob = __start with the wildcard matcher, then __glob
    # ------------------------------------------------------------------ the recursive descent __glob / __find
    # Both modes: a returned list is the denotation GL of the statement.  Relaxed mode raises nothing.  Strict mode (sibling-unique
    # names, the property's scope) raises only at a raise statement that is under its dead-end condition, and whenever an error
    # leaves __glob/__find the denotation of the remaining components is empty - which is what makes swallowing the error in an
    # enclosing wildcard / '**' alternative harmless (the defect D11 was a '**' alternative that let a RootResolverError through).
    from pyvc.seqworld import FALSEF, TRUEF
    from contracts import iterators as IT
    IT_reg, _ = IT.build()
    reg.classes.update({k: v for k, v in IT_reg.classes.items() if k == "PreOrderIter"})
    reg.classes["Resolver"] = None

    def match_pure():
        # for callers, __match is a pure function of (name, pattern, this resolver's ignorecase): that is exactly what the
        # verified contract of __match (cache transparency) says
        sp_ = QSpec(reg, REL, "Resolver", "__match", "method", [SELF, ("name", "str"), ("pat", "str")], lambda c: [], [
            Outcome("return", "return", lambda c, S1, r: [], res="bool", mods=(), value=lambda c: wm(c.name, c.pat, F.ignorecase))], props=P8)
        sp_.world = TEXTWORLD
        return sp_
    reg.methods_for_callers = {("Resolver", "_Resolver__match"): match_pure()}

    def tail(ps):
        return Extract(ps, 1, Length(ps) - 1)

    def sub_of(n):
        return IT.iterseq("PreOrderIter", n, TRUEF, FALSEF, BoolVal(False), IntVal(0))

    def wmn(c_, name):
        return wm(nameof(c_), name, F.ignorecase)

    def d_DD(acc, xs, i):
        from z3 import Contains, Concat, Unit
        a = DD(acc, xs, i)
        return [DD(acc, xs, 0) == acc,
                Implies(And(0 <= i, i < Length(xs)), DD(acc, xs, i + 1) == If(Contains(a, Unit(xs[i])), a, Concat(a, Unit(xs[i]))))]

    def d_GLS(subs, j, rem):
        g = GL(subs[j], rem)
        return [GLS(subs, 0, rem) == Empty(SeqR),
                Implies(And(0 <= j, j < Length(subs)), GLS(subs, j + 1, rem) == DD(GLS(subs, j, rem), g, Length(g)))]

    def d_GLK(kids, j, name, rem):
        from z3 import Concat
        return [GLK(kids, 0, name, rem) == Empty(SeqR),
                Implies(And(0 <= j, j < Length(kids)),
                        GLK(kids, j + 1, name, rem) == Concat(GLK(kids, j, name, rem), If(wmn(kids[j], name), GL(kids[j], rem), Empty(SeqR))))]

    def d_GL(n, ps):
        from z3 import Unit
        name, rem = ps[0], tail(ps)
        s_ = sub_of(n)
        k_ = CH(n)
        return [GL(n, ps) == If(Length(ps) == 0, Unit(n),
                                If(name == S(".."), If(PAR(n) == NONE, Empty(SeqR), GL(PAR(n), rem)),
                                   If(Or(name == S(""), name == S(".")), GL(n, rem),
                                      If(name == S("**"), GLS(s_, Length(s_), rem), GLK(k_, Length(k_), name, rem)))))]
    reg.glob_defs = (d_GL, d_GLS, d_GLK, d_DD, tail, sub_of)

    # Strict mode (relax=False) is in the property's scope for sibling-unique names only.  UNIQ_ALL stands for: no two children of
    # any node match the same wildcard-free pattern under this resolver's own matcher; it is an opaque constant that is *revealed*
    # (instantiated) for one node and one pattern where needed, so no quantifier over strings reaches the solver.
    UNIQ_ALL = Const("UNIQ_ALL", B)

    def wild(pat):
        return Or(Contains(pat, S("?")), Contains(pat, S("*")))

    def reveal_uniq(n, pat):
        k_ = CH(n)
        i_, j_ = Int("ui"), Int("uj")
        return Implies(And(UNIQ_ALL, Not(wild(pat))),
                       ForAll([i_, j_], Implies(And(0 <= i_, i_ < j_, j_ < Length(k_)), Not(And(wmn(k_[i_], pat), wmn(k_[j_], pat))))))

    def uniq_req():
        return Clause("strict-mode: names are unique among siblings (under the resolver's matcher)", Implies(Not(F.relax), UNIQ_ALL))

    def no_match(kids, m, k, pat):
        j_ = Int("nj")
        return ForAll([j_], Implies(And(m <= j_, j_ < k), Not(wmn(kids[j_], pat))))

    def glk_skip(kids, m, k, pat, rem):
        """children that do not match contribute nothing (lemma, proved by induction on k in SMT)"""
        return Implies(And(0 <= m, m <= k, k <= Length(kids), no_match(kids, m, k, pat)), GLK(kids, k, pat, rem) == GLK(kids, m, pat, rem))
    reg.glob_lemmas = lambda: _glob_lemmas(glk_skip, d_GLK)
    dead_end = lambda value: lambda c, S1, r: [Clause("strict-only", Not(F.relax), P8),
                                              Clause("then-the-components-denote-nothing", Length(value(c)) == 0, P8)]

    def gl_outcomes(valuefn, here=()):
        """both modes: a returned list is the denotation; strict mode may instead raise, and then the denotation is empty (so an
        enclosing wildcard or '**' alternative that swallows the error loses nothing).  `here`: the raise statements of the function
        itself with the dead-end condition each one is under."""
        return [
            Outcome("return", "return", lambda c, S1, r: [Clause("is-the-denotation-of-the-remaining-components", r.t == valuefn(c), P8)],
                    res="qseq", mods=()),
        ] + list(here) + [
            Outcome("ResolverError:from-below", "raise", dead_end(valuefn), exc="ResolverError", mods=(), user=True, site="call:*"),
            Outcome("ChildResolverError:from-below", "raise", dead_end(valuefn), exc="ChildResolverError", mods=(), user=True, site="call:*"),
            Outcome("RootResolverError:from-below", "raise", dead_end(valuefn), exc="RootResolverError", mods=(), user=True, site="call:*"),
        ]

    def glob_inv_outer(L):
        c = L.fn
        rem = tail(c.parts)
        return [("collected-so-far", L.t("matches") == GLS(sub_of(c.node), L.i, rem))]

    def glob_hints_outer(L):
        c = L.fn
        rem = tail(c.parts)
        s_ = sub_of(c.node)
        g = GL(s_[L.i], rem)
        return d_GLS(s_, L.i, rem) + d_DD(GLS(s_, L.i, rem), g, IntVal(0))[:1] + [s_[L.i] != NONE]

    def glob_inv_inner(L):
        c = L.fn
        rem = tail(c.parts)
        s_ = sub_of(c.node)
        sub = L.t("subnode")
        g = GL(sub, rem)
        acc0 = L.pre_v["matches"].t
        return [("de-duplicated-so-far", L.t("matches") == DD(acc0, g, L.i))]

    def glob_hints_inner(L):
        c = L.fn
        rem = tail(c.parts)
        sub = L.t("subnode")
        g = GL(sub, rem)
        return d_DD(L.pre_v["matches"].t, g, L.i)
    def glob_here():
        v = lambda c: GL(c.node, c.parts)
        return [
            Outcome("RootResolverError:here", "raise", lambda c, S1, r: dead_end(v)(c, S1, r) + [
                Clause("dead-end: a '..' step at the root", And(Length(c.parts) > 0, c.parts[0] == S(".."), PAR(c.node) == NONE), P8)],
                exc="RootResolverError", mods=(), site="explicit*"),
            Outcome("ChildResolverError:here", "raise", lambda c, S1, r: dead_end(v)(c, S1, r) + [
                Clause("dead-end: a literal component that no child matches",
                       And(Length(c.parts) > 0, Not(wild(c.parts[0])), c.parts[0] != S(".."), c.parts[0] != S(""), c.parts[0] != S("."),
                           no_match(CH(c.node), 0, Length(CH(c.node)), c.parts[0])), P8)],
                exc="ChildResolverError", mods=(), site="explicit*"),
        ]
    gl = qs(QSpec(reg, REL, "Resolver", "__glob", "method", [SELF, ("node", "ref"), ("parts", "strlist")],
                  lambda c: [Clause("node-is-not-None", c.node != NONE), uniq_req()], gl_outcomes(lambda c: GL(c.node, c.parts), glob_here()),
                  loops={0: LoopSpec(glob_inv_outer, hints=glob_hints_outer, vars_kinds={"matches": "qseq"}),
                         1: LoopSpec(glob_inv_inner, hints=glob_hints_inner, vars_kinds={"matches": "qseq"})},
                  props=P8, hints=lambda c: d_GL(c.node, c.parts) + d_GLS(sub_of(c.node), IntVal(0), tail(c.parts))[:1] + MATCH_AX))
    reg.methods[("Resolver", "_Resolver__glob")] = gl

    def find_inv(L):
        c = L.fn
        return [("matches-so-far", L.t("matches") == GLK(CH(c.node), L.i, c.pat, c.remainder))]

    def find_hints(L):
        c = L.fn
        k_ = CH(c.node)
        n_ = Length(k_)
        return d_GLK(k_, L.i, c.pat, c.remainder) + [Implies(Length(c.remainder) == 0, GL(k_[L.i], c.remainder) == __import__("z3").Unit(k_[L.i])),
                                                     k_[L.i] != NONE] + d_GL(k_[L.i], c.remainder) + [
            # re-raise of a literal component: the one matching child denotes nothing, the others do not match (UNIQ) and add nothing
            reveal_uniq(c.node, c.pat), glk_skip(k_, IntVal(0), L.i, c.pat, c.remainder), glk_skip(k_, L.i + 1, n_, c.pat, c.remainder),
            GLK(k_, 0, c.pat, c.remainder) == Empty(SeqR)]
    fd = qs(QSpec(reg, REL, "Resolver", "__find", "method", [SELF, ("node", "ref"), ("pat", "str"), ("remainder", "strlist")],
                  lambda c: [Clause("node-is-not-None", c.node != NONE), uniq_req()],
                  gl_outcomes(lambda c: GLK(CH(c.node), Length(CH(c.node)), c.pat, c.remainder)),
                  loops={0: LoopSpec(find_inv, hints=find_hints, vars_kinds={"matches": "qseq"})}, props=P8,
                  hints=lambda c: d_GLK(CH(c.node), IntVal(0), c.pat, c.remainder)[:1] + MATCH_AX))
    reg.methods[("Resolver", "_Resolver__find")] = fd

    def gstart(c):
        ps = start_parts(c)
        ab = start_abs(c)
        n0 = If(ab, ROOT(c.node), c.node)
        p0 = If(ab, Extract(ps, 2, Length(ps) - 2), ps)
        missing = And(ab, Length(ps[1]) == 0)
        unknown = And(ab, Not(missing), Not(wm(nameof(ROOT(c.node)), ps[1], F.ignorecase)))
        return n0, p0, Or(missing, unknown)
    sp = qs(QSpec(reg, REL, "Resolver", "glob", "method", [SELF, ("node", "ref"), ("path", "str")],
                  lambda c: [Clause("node-is-not-None", c.node != NONE), Clause("separator-non-empty", Length(SEP(c.node)) > 0), uniq_req()], [
        Outcome("result", "return", lambda c, S1, r: [Clause("the denotation of the remaining components from the start node (both modes)",
                                                                r.t == GL(gstart(c)[0], gstart(c)[1]))], res="qseq", mods=(),
                when=lambda c: Not(gstart(c)[2])),
        Outcome("empty:relax", "return", lambda c, S1, r: [Clause("is-empty", Length(r.t) == 0)], res="qseq", mods=(),
                when=lambda c: And(gstart(c)[2], F.relax)),
        Outcome("ResolverError:root-component", "raise", lambda c, S1, r: [], exc="ResolverError", mods=(),
                when=lambda c: And(gstart(c)[2], Not(F.relax)), site="explicit*"),
        Outcome("ResolverError:from-matching", "raise", dead_end(lambda c: GL(gstart(c)[0], gstart(c)[1])), exc="ResolverError", mods=(), user=True,
                site="call:*"),
        Outcome("ChildResolverError", "raise", dead_end(lambda c: GL(gstart(c)[0], gstart(c)[1])), exc="ChildResolverError", mods=(), user=True),
        Outcome("RootResolverError", "raise", dead_end(lambda c: GL(gstart(c)[0], gstart(c)[1])), exc="RootResolverError", mods=(), user=True),
    ], props=P8, hints=lambda c: MATCH_AX + [ROOT(c.node) != NONE, PAR(ROOT(c.node)) == NONE]))
    reg.methods[("Resolver", "glob")] = sp


def _glob_lemmas(glk_skip, d_GLK):
    kids = Const("lgk", SeqR)
    m, k = Int("lgm"), Int("lgk2")
    pat = Const("lgpat", Str)
    rem = Const("lgrem", SeqStr)
    return [("LEMMA:non-matching-children-add-nothing/base", [], glk_skip(kids, m, m, pat, rem)),
            ("LEMMA:non-matching-children-add-nothing/step", d_GLK(kids, k, pat, rem) + [glk_skip(kids, m, k, pat, rem), m <= k, k < Length(kids)],
             glk_skip(kids, m, k + 1, pat, rem))]
