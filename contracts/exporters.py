"""Sidecar contracts for DotExporter / UniqueDotExporter (C12) and MermaidExporter (C13), text world.

The exporter object's option fields are fixed symbols during the verification of its methods; the line listings are
spec functions over node sequences with ONE defining equation each:

    OPTL(opts, j, ind)                 option lines of opts[:j]
    NODEL(s, j, ...)                   node lines of the nodes s[:j]
    KIDL(p, kids, i, ...)              edge lines from p to the admitted children among kids[:i]
    EDGEL(s, j, ...)                   edge lines of the parents s[:j]
    CLEANK / CLEANP                    'no listed known-finding situation met so far' (see KF5)
"""
from z3 import (And, BoolVal, Concat, Const, Function, If, Implies, Int, IntToStr, IntVal, Length, Not, Or, StringVal, Unit)

from pyvc import known
from pyvc.core import LoopSpec, V
from pyvc.heap import B, I, NONE, R
from pyvc.heapworld import Clause, Outcome
from pyvc.seqworld import CH, FALSEF, TRUEF, Fn, QSpec, Registry, SeqR, app, as_optfn, as_optint
from pyvc.textworld import (ATTR, EMPTYL, ESC, ISNONE, NONE_U, SPACES, STR, TEXTWORLD, SeqStr, SeqU, Str, U, UFn, UFn2, appU, appU2,
                            strconst, tostr)

from . import iterators as IT

DOT = "anytree/exporter/dotexporter.py"
MER = "anytree/exporter/mermaidexporter.py"


def S(x):
    return StringVal(x)


def cat(*xs):
    t = xs[0]
    for x in xs[1:]:
        t = Concat(t, x)
    return t


class ExporterModel:
    """spec functions and line formats of one exporter kind"""

    def __init__(self, kind):
        self.kind = kind
        k = kind
        self.DEF_NAME = Const(k + "_DEF_NAME", UFn)
        self.DEF_NODEATTR = Const(k + "_DEF_NODEATTR", UFn)
        self.DEF_EDGE1 = Const(k + "_DEF_EDGEATTR", UFn2)
        self.DEF_EDGE2 = Const(k + "_DEF_EDGETYPE", UFn2)
        self.OPTL = Function(k + "_OPTL", SeqU, I, Str, SeqStr)
        # node lines / edge lines depend on the callbacks in force: passed as arguments
        self.NODEL = Function(k + "_NODEL", SeqR, I, Str, UFn, UFn, SeqStr)
        self.KIDL = Function(k + "_KIDL", R, SeqR, I, Str, UFn, UFn2, UFn2, Fn, Fn, SeqStr)
        self.EDGEL = Function(k + "_EDGEL", SeqR, I, Str, UFn, UFn2, UFn2, Fn, Fn, SeqStr)
        self.CLEANK = Function(k + "_CLEANK", SeqR, I, Fn, Fn, B)
        self.CLEANP = Function(k + "_CLEANP", SeqR, I, Fn, Fn, B)
        self.kf = "KF5" if (kind == "Dot" and known.is_known("KF5")) else None

    # ---- line formats (the property's wording) -------------------------------------------------
    def nodeline(self, x, ind, nn, na):
        if self.kind == "Dot":
            a = appU(na, x)
            return cat(ind, S('"'), ESC(STR(appU(nn, x))), S('"'), If(ISNONE(a), S(""), cat(S(" ["), STR(a), S("]"))), S(";"))
        return cat(ind, STR(appU(nn, x)), STR(appU(na, x)))

    def edgeline(self, p, c, ind, nn, e1, e2):
        if self.kind == "Dot":
            ea = appU2(e1, p, c)
            return cat(ind, S('"'), ESC(STR(appU(nn, p))), S('" '), STR(appU2(e2, p, c)), S(' "'), ESC(STR(appU(nn, c))), S('"'),
                       If(ISNONE(ea), S(""), cat(S(" ["), STR(ea), S("]"))), S(";"))
        return cat(ind, STR(appU(nn, p)), STR(appU2(e1, p, c)), STR(appU(nn, c)))

    def child_ok(self, c, f, st):
        """C12/C13: an edge is written iff its child end is declared too: passes filter_ and is not pruned by stop"""
        return And(app(f, c), Not(app(st, c)))

    def guard(self, clean, formula):
        """the listed known-finding situation is subtracted exactly: the clause is proved for executions that did not meet it"""
        return Implies(clean, formula) if self.kf else formula

    def kf_case(self, c, f, st):
        """KF5 (DotExporter only): a child that passes filter_ but satisfies stop"""
        return And(app(f, c), app(st, c))

    # ---- defining equations ------------------------------------------------------------------
    def d_OPTL(self, o, j, ind):
        return [self.OPTL(o, 0, ind) == EMPTYL,
                Implies(And(0 <= j, j < Length(o)), self.OPTL(o, j + 1, ind) == Concat(self.OPTL(o, j, ind), Unit(Concat(ind, STR(o[j])))))]

    def d_NODEL(self, s, j, ind, nn, na):
        return [self.NODEL(s, 0, ind, nn, na) == EMPTYL,
                Implies(And(0 <= j, j < Length(s)), self.NODEL(s, j + 1, ind, nn, na) ==
                        Concat(self.NODEL(s, j, ind, nn, na), Unit(self.nodeline(s[j], ind, nn, na))))]

    def d_KIDL(self, p, k, i, ind, nn, e1, e2, f, st):
        a = (ind, nn, e1, e2, f, st)
        return [self.KIDL(p, k, 0, *a) == EMPTYL,
                Implies(And(0 <= i, i < Length(k)), self.KIDL(p, k, i + 1, *a) ==
                        Concat(self.KIDL(p, k, i, *a), If(self.child_ok(k[i], f, st), Unit(self.edgeline(p, k[i], ind, nn, e1, e2)), EMPTYL)))]

    def d_EDGEL(self, s, j, ind, nn, e1, e2, f, st):
        a = (ind, nn, e1, e2, f, st)
        return [self.EDGEL(s, 0, *a) == EMPTYL,
                Implies(And(0 <= j, j < Length(s)), self.EDGEL(s, j + 1, *a) ==
                        Concat(self.EDGEL(s, j, *a), self.KIDL(s[j], CH(s[j]), Length(CH(s[j])), *a)))]

    def d_CLEANK(self, k, i, f, st):
        if not self.kf:
            return [self.CLEANK(k, i, f, st), self.CLEANK(k, i + 1, f, st), self.CLEANK(k, 0, f, st)]
        return [self.CLEANK(k, 0, f, st),
                Implies(And(0 <= i, i < Length(k)), self.CLEANK(k, i + 1, f, st) == And(self.CLEANK(k, i, f, st), Not(self.kf_case(k[i], f, st))))]

    def d_CLEANP(self, s, j, f, st):
        if not self.kf:
            return [self.CLEANP(s, j, f, st), self.CLEANP(s, j + 1, f, st), self.CLEANP(s, 0, f, st)]
        return [self.CLEANP(s, 0, f, st),
                Implies(And(0 <= j, j < Length(s)), self.CLEANP(s, j + 1, f, st) ==
                        And(self.CLEANP(s, j, f, st), self.CLEANK(CH(s[j]), Length(CH(s[j])), f, st)))]


def none_v():
    return V("ref", NONE)


def build(kind):
    M = ExporterModel(kind)
    dot = kind == "Dot"
    REL = DOT if dot else MER
    CLS = "DotExporter" if dot else "MermaidExporter"
    P = {"C12"} if dot else {"C13"}
    reg = Registry()
    IT_reg, _ = IT.build()
    reg.classes.update(IT_reg.classes)
    reg.bases.update(IT_reg.bases)
    reg.statics.update(IT_reg.statics)
    reg.specfn = IT_reg.specfn
    reg.bases[CLS] = None
    specs = []
    FIELD_KINDS = ([("node", "ref"), ("graph", "str"), ("name", "str"), ("options", "optseq"), ("indent", "int"),
                    ("nodenamefunc", "optufn"), ("nodeattrfunc", "optufn"), ("edgeattrfunc", "optufn2"), ("edgetypefunc", "optufn2"),
                    ("filter_", "optfn"), ("maxlevel", "optint"), ("stop", "optfn")] if dot else
                   [("node", "ref"), ("graph", "str"), ("name", "str"), ("options", "optseq"), ("indent", "int"),
                    ("nodenamefunc", "optufn"), ("nodefunc", "optufn"), ("edgefunc", "optufn2"), ("filter_", "optfn"),
                    ("stop", "optfn"), ("maxlevel", "optint")])

    def mkfields(c):
        f = {n: TEXTWORLD.make_arg("f_" + n, k) for n, k in FIELD_KINDS}
        c.__dict__["fld"] = f
        hm, m = f["maxlevel"].t
        return [Clause("None-is-canonical", Implies(Not(hm), m == 0))]

    def fld(c, n):
        return c.fld[n]

    def eff_stop(c):
        g, s = c.fld["stop"].t
        return If(g, s, FALSEF)

    def stop_of(c):
        """the stop callback in force: the explicit parameter (MermaidExporter) or the field with its default"""
        a = c.__dict__.get("args", {})
        if "stop" in a and a["stop"].k == "fn":
            return a["stop"].t
        if "stop_used" in c.__dict__:
            return c.__dict__["stop_used"]
        return eff_stop(c)

    def declared(c, f):
        """the node listing: pre-order restricted by filter_, stop, maxlevel"""
        hm, m = c.fld["maxlevel"].t
        return IT.iterseq("PreOrderIter", c.fld["node"].t, f, stop_of(c), hm, m)

    def parents(c, f):
        """the parents whose children can be declared: one level less (None stays None)"""
        hm, m = c.fld["maxlevel"].t
        return IT.iterseq("PreOrderIter", c.fld["node"].t, f, stop_of(c), hm, If(hm, m - 1, 0))

    def qs(spec):
        spec.world = TEXTWORLD
        spec.fields = lambda c: c.__dict__.get("fld", {})
        specs.append(spec)
        return spec
    SELF = ("self", "obj:" + CLS)

    # ------------------------------------------------------------------ default callbacks (static ones)
    if dot:
        qs(QSpec(reg, REL, CLS, "_default_nodenamefunc", "static", [("node", "ref")], lambda c: [], [
            Outcome("return", "return", lambda c, S1, r: [], res="any", mods=(), value=lambda c: ATTR(c.node, strconst("name")))], props=P))
        qs(QSpec(reg, REL, CLS, "_default_nodeattrfunc", "static", [("node", "ref")], lambda c: [], [
            Outcome("return", "return", lambda c, S1, r: [Clause("is-None", BoolVal(r.k == "ref" and r.t is NONE))], mods=())], props=P))
        for nm, txt in (("_default_edgeattrfunc", None), ("_default_edgetypefunc", "->")):
            qs(QSpec(reg, REL, CLS, nm, "static", [("node", "ref"), ("child", "ref")], lambda c: [], [
                Outcome("return", "return", (lambda t: lambda c, S1, r: [
                    Clause("is-%r" % (t,), BoolVal((r.k == "ref" and r.t is NONE) if t is None else (r.k == "pystr" and r.t == t)))])(txt),
                    mods=())], props=P))
        qs(QSpec(reg, REL, CLS, "_default_filter", "static", [("node", "ref")], lambda c: [], [
            Outcome("return", "return", lambda c, S1, r: [], res="bool", mods=(), value=lambda c: BoolVal(True))], props=P))
        reg.static_ufns = {(CLS, "_default_nodenamefunc"): M.DEF_NAME, (CLS, "_default_nodeattrfunc"): M.DEF_NODEATTR}
        reg.static_ufn2s = {(CLS, "_default_edgeattrfunc"): M.DEF_EDGE1, (CLS, "_default_edgetypefunc"): M.DEF_EDGE2}
        reg.static_fns = {(CLS, "_default_filter"): TRUEF}
        for k_ in ("_default_nodenamefunc", "_default_nodeattrfunc", "_default_edgeattrfunc", "_default_edgetypefunc", "_default_filter"):
            reg.statics[(CLS, k_)] = specs[[s.name for s in specs].index(k_)]
    else:
        qs(QSpec(reg, REL, CLS, "_default_edgefunc", "static", [("node", "ref"), ("child", "ref")], lambda c: [], [
            Outcome("return", "return", lambda c, S1, r: [Clause("is-arrow", BoolVal(r.k == "pystr" and r.t == "-->"))], mods=())], props=P))
        reg.statics[(CLS, "_default_edgefunc")] = specs[-1]
        qs(QSpec(reg, REL, CLS, "_default_nodefunc", "static", [("node", "ref")], lambda c: [], [
            Outcome("return", "return", lambda c, S1, r: [
                Clause("is-the-quoted-escaped-name", tostr(r) == cat(S('["'), ESC(STR(ATTR(c.node, strconst("name")))), S('"]'))
                       if r.k in ("str", "pystr") else BoolVal(False))], mods=())], props=P))
        reg.statics[(CLS, "_default_nodefunc")] = specs[-1]
        # the stateful identifier function: verified separately (build_ids); by its stability contract it behaves as a
        # function of the node, which is how the line listing refers to it (DEF_NAME)
        reg.methods[(CLS, "_default_nodenamefunc")] = build_ids(kind)[0]
        reg.static_ufn2s = {(CLS, "_default_edgefunc"): M.DEF_EDGE1}
        reg.static_ufns = {(CLS, "_default_nodenamefunc"): M.DEF_NAME, (CLS, "_default_nodefunc"): M.DEF_NODEATTR}
        reg.static_fns = {}

    # esc(): assumed contract relative to re.sub (ESC = character-wise backslash-escaping of '"' and '\\'); its body is
    # pinned by a syntactic obligation (checks/text_props.py) and validated boundedly against CPython
    esc_spec = QSpec(reg, REL, CLS, "esc", "static", [("value", "any")], lambda c: [], [
        Outcome("return", "return", lambda c, S1, r: [], res="str", mods=(), value=lambda c: ESC(STR(c.value)))], props=P)
    esc_spec.world = TEXTWORLD
    reg.statics[(CLS, "esc")] = esc_spec

    def def_axioms():
        from z3 import ForAll
        from pyvc.textworld import OFSTR
        x, y = Const("xd", R), Const("yd", R)
        if dot:
            return [ForAll([x], appU(M.DEF_NAME, x) == ATTR(x, strconst("name"))),
                    ForAll([x], ISNONE(appU(M.DEF_NODEATTR, x))),
                    ForAll([x, y], ISNONE(appU2(M.DEF_EDGE1, x, y))),
                    ForAll([x, y], STR(appU2(M.DEF_EDGE2, x, y)) == S("->"))]
        return [ForAll([x, y], STR(appU2(M.DEF_EDGE1, x, y)) == S("-->")),
                ForAll([x], STR(appU(M.DEF_NODEATTR, x)) == cat(S('["'), ESC(STR(ATTR(x, strconst("name")))), S('"]')))]

    # ------------------------------------------------------------------ __iter_options
    def opt_seq(c):
        return c.fld["options"].t[1]

    def opt_inv(L):
        c = L.fn
        return [("option-lines-so-far", L.out == M.OPTL(opt_seq(c), L.i, c.indent))]
    qs(QSpec(reg, REL, CLS, "__iter_options", "method", [SELF, ("indent", "str")], mkfields, [
        Outcome("return", "return", lambda c, S1, r: [], res="gen", mods=(),
                value=lambda c: If(And(c.fld["options"].t[0], Length(opt_seq(c)) > 0), M.OPTL(opt_seq(c), Length(opt_seq(c)), c.indent), EMPTYL))],
        loops={0: LoopSpec(opt_inv, hints=lambda L: M.d_OPTL(opt_seq(L.fn), L.i, L.fn.indent))}, generator=True, yields="str", props=P,
        hints=lambda c: M.d_OPTL(opt_seq(c), IntVal(0), c.indent)))
    reg.methods[(CLS, "_%s__iter_options" % CLS)] = specs[-1]

    # ------------------------------------------------------------------ __iter_nodes
    na_name = "nodeattrfunc" if dot else "nodefunc"

    def nodes_params():
        base = [SELF, ("indent", "str"), ("nodenamefunc", "ufn"), (na_name, "ufn"), ("filter_", "fn")]
        return base if dot else base + [("stop", "fn")]

    def nodes_req(c):
        return mkfields(c)

    def nodes_inv(L):
        c = L.fn
        s = declared(c, c.filter_)
        return [("node-lines-so-far", L.out == M.NODEL(s, L.i, c.indent, c.nodenamefunc, getattr(c, na_name)))]

    def nodes_hints(L):
        c = L.fn
        return M.d_NODEL(declared(c, c.filter_), L.i, c.indent, c.nodenamefunc, getattr(c, na_name)) + def_axioms()
    qs(QSpec(reg, REL, CLS, "__iter_nodes", "method", nodes_params(), nodes_req, [
        Outcome("return", "return", lambda c, S1, r: [], res="gen", mods=(),
                value=lambda c: M.NODEL(declared(c, c.filter_), Length(declared(c, c.filter_)), c.indent, c.nodenamefunc, getattr(c, na_name)))],
        loops={0: LoopSpec(nodes_inv, hints=nodes_hints)}, generator=True, yields="str", props=P))
    reg.methods[(CLS, "_%s__iter_nodes" % CLS)] = specs[-1]

    # ------------------------------------------------------------------ __iter_edges
    def edges_params():
        if dot:
            return [SELF, ("indent", "str"), ("nodenamefunc", "ufn"), ("edgeattrfunc", "ufn2"), ("edgetypefunc", "ufn2"), ("filter_", "fn")]
        return [SELF, ("indent", "str"), ("nodenamefunc", "ufn"), ("edgefunc", "ufn2"), ("filter_", "fn"), ("stop", "fn")]

    def eargs(c):
        if dot:
            return (c.indent, c.nodenamefunc, c.edgeattrfunc, c.edgetypefunc, c.filter_, stop_of(c))
        return (c.indent, c.nodenamefunc, c.edgefunc, c.edgefunc, c.filter_, stop_of(c))

    def edges_outer_inv(L):
        c = L.fn
        s = parents(c, c.filter_)
        return [("edge-lines-so-far", M.guard(M.CLEANP(s, L.i, c.filter_, stop_of(c)), L.out == M.EDGEL(s, L.i, *eargs(c))))]

    def edges_outer_hints(L):
        c = L.fn
        s = parents(c, c.filter_)
        return M.d_EDGEL(s, L.i, *eargs(c)) + M.d_CLEANP(s, L.i, c.filter_, stop_of(c)) + def_axioms()

    def edges_inner_inv(L):
        c = L.fn
        p = L.t("node")
        kids = CH(p)
        return [("edge-lines-of-this-parent-so-far",
                 M.guard(M.CLEANK(kids, L.i, c.filter_, stop_of(c)),
                         L.out == Concat(L.out_pre, M.KIDL(p, kids, L.i, *eargs(c)))))]

    def edges_inner_hints(L):
        c = L.fn
        kids = CH(L.t("node"))
        return M.d_KIDL(L.t("node"), kids, L.i, *eargs(c)) + M.d_CLEANK(kids, L.i, c.filter_, stop_of(c))

    def edges_post(c, S1, r):
        s = parents(c, c.filter_)
        lines = r.t
        return [Clause("one-edge-line-per-admitted-parent-child-pair (both ends declared)" + (" [outside KF5]" if M.kf else ""),
                       M.guard(M.CLEANP(s, Length(s), c.filter_, stop_of(c)), lines == M.EDGEL(s, Length(s), *eargs(c))))]
    qs(QSpec(reg, REL, CLS, "__iter_edges", "method", edges_params(), nodes_req, [
        Outcome("return", "return", edges_post, res="lines", mods=())],
        loops={0: LoopSpec(edges_outer_inv, hints=edges_outer_hints), 1: LoopSpec(edges_inner_inv, hints=edges_inner_hints)},
        generator=True, yields="str", props=P))
    reg.methods[(CLS, "_%s__iter_edges" % CLS)] = specs[-1]

    # ------------------------------------------------------------------ __iter (the whole listing) and __iter__ (defaults)
    def all_lines(c, ind, nn, na, e1, e2, f):
        dn = declared(c, f)
        pr = parents(c, f)
        o = opt_seq(c)
        header = cat(tostr(c.fld["graph"]), S(" "), tostr(c.fld["name"]), S(" {")) if dot else cat(tostr(c.fld["graph"]), S(" "), tostr(c.fld["name"]))
        body = cat(Unit(header),
                   If(And(c.fld["options"].t[0], Length(o) > 0), M.OPTL(o, Length(o), ind), EMPTYL),
                   M.NODEL(dn, Length(dn), ind, nn, na))
        return header, body, pr

    def iter_params():
        if dot:
            return [SELF, ("indent", "str"), ("nodenamefunc", "ufn"), ("nodeattrfunc", "ufn"), ("edgeattrfunc", "ufn2"),
                    ("edgetypefunc", "ufn2"), ("filter_", "fn")]
        return [SELF, ("indent", "str"), ("nodenamefunc", "ufn"), ("nodefunc", "ufn"), ("edgefunc", "ufn2"), ("filter_", "fn"), ("stop", "fn")]

    def iter_post(c, S1, r):
        ind, nn, na, f = c.indent, c.nodenamefunc, getattr(c, na_name), c.filter_
        e1, e2 = (c.edgeattrfunc, c.edgetypefunc) if dot else (c.edgefunc, c.edgefunc)
        header, body, pr = all_lines(c, ind, nn, na, e1, e2, f)
        edges = M.EDGEL(pr, Length(pr), ind, nn, e1, e2, f, stop_of(c))
        want = cat(body, edges, Unit(S("}"))) if dot else cat(body, edges)
        return [Clause("header, option lines, node lines, edge lines" + (", closing brace" if dot else "") + (" [outside KF5]" if M.kf else ""),
                       M.guard(M.CLEANP(pr, Length(pr), f, stop_of(c)), r.t == want))]
    qs(QSpec(reg, REL, CLS, "__iter", "method", iter_params(), nodes_req, [
        Outcome("return", "return", iter_post, res="lines", mods=())], generator=True, yields="str", props=P))
    reg.methods[(CLS, "_%s__iter" % CLS)] = specs[-1]

    def iter_dunder_post(c, S1, r):
        ind = SPACES(c.fld["indent"].t)
        g, fn_ = c.fld["nodenamefunc"].t
        nn = If(g, fn_, M.DEF_NAME)
        g2, fn2 = c.fld[na_name].t
        na = If(g2, fn2, M.DEF_NODEATTR)
        if dot:
            ga, fa = c.fld["edgeattrfunc"].t
            gt, ft = c.fld["edgetypefunc"].t
            e1, e2 = If(ga, fa, M.DEF_EDGE1), If(gt, ft, M.DEF_EDGE2)
        else:
            ge, fe = c.fld["edgefunc"].t
            e1 = e2 = If(ge, fe, M.DEF_EDGE1)
        gf, ff = c.fld["filter_"].t
        f = If(gf, ff, TRUEF)
        header, body, pr = all_lines(c, ind, nn, na, e1, e2, f)
        edges = M.EDGEL(pr, Length(pr), ind, nn, e1, e2, f, stop_of(c))
        want = cat(body, edges, Unit(S("}"))) if dot else cat(body, edges)
        return [Clause("the listing with indent = ' ' * indent and defaults for callbacks that were not given" + (" [outside KF5]" if M.kf else ""),
                       M.guard(M.CLEANP(pr, Length(pr), f, stop_of(c)), r.t == want))]
    if dot:
        qs(QSpec(reg, REL, CLS, "__iter__", "method", [SELF], mkfields, [
            Outcome("return", "return", iter_dunder_post, res="lines", mods=())], props=P))
    else:
        def mer_iter_post(c, S1, r):
            from z3 import ForAll
            env = c.final_path.env
            def fn_of(v):
                return v.t if v.k == "fn" else (v.t[1] if v.k == "optfn" else None)
            if not all(k_ in env and fn_of(env[k_]) is not None for k_ in ("filter_", "stop")):
                return [Clause("callbacks-in-force-are-functions", BoolVal(False))]
            f, st = fn_of(env["filter_"]), fn_of(env["stop"])
            gf, ff = c.fld["filter_"].t
            gs, fs = c.fld["stop"].t
            x = Const("xm", R)
            c.__dict__["stop_used"] = st
            ind = SPACES(c.fld["indent"].t)
            g, fn_ = c.fld["nodenamefunc"].t
            nn = If(g, fn_, M.DEF_NAME)
            g2, fn2 = c.fld["nodefunc"].t
            na = If(g2, fn2, M.DEF_NODEATTR)
            ge, fe = c.fld["edgefunc"].t
            e1 = If(ge, fe, M.DEF_EDGE1)
            header, body, pr = all_lines(c, ind, nn, na, e1, e1, f)
            edges = M.EDGEL(pr, Length(pr), ind, nn, e1, e1, f, st)
            out = [Clause("filter-in-force: the given one, else accept-all", ForAll([x], app(f, x) == If(gf, app(ff, x), True))),
                   Clause("stop-in-force: the given one, else never", ForAll([x], app(st, x) == If(gs, app(fs, x), False))),
                   Clause("the listing with indent = ' ' * indent and defaults for callbacks that were not given", r.t == cat(body, edges))]
            del c.__dict__["stop_used"]
            return out
        qs(QSpec(reg, REL, CLS, "__iter__", "method", [SELF], mkfields, [
            Outcome("return", "return", mer_iter_post, res="lines", mods=())], props=P))
    return M, reg, specs


def build_ids(kind):
    """the stateful default identifier function of UniqueDotExporter / MermaidExporter: invariant of (table, counter)"""
    from z3 import Array, ForAll, Select, Store
    from pyvc.textworld import HEXS
    dot = kind == "Dot"
    REL = DOT if dot else MER
    CLS = "UniqueDotExporter" if dot else "MermaidExporter"
    P = {"C12"} if dot else {"C13"}
    reg = Registry()
    reg.bases[CLS] = None
    x, y = Const("xi", R), Const("yi", R)

    def inv(dom, val, n):
        return [Clause("ids/counter-nonneg", n >= 0), Clause("ids/below-counter", ForAll([x], Implies(Select(dom, x), And(0 <= Select(val, x), Select(val, x) < n)))),
                Clause("ids/distinct-nodes-distinct-numbers",
                       ForAll([x, y], Implies(And(Select(dom, x), Select(dom, y), Select(val, x) == Select(val, y)), x == y)))]
    IDS, CNT = "_%s__node_ids" % CLS, "_%s__node_counter" % CLS

    def req(c):
        dom, val, n = Array("ids_dom", R, B), Array("ids_val", R, I), Int("ids_next")
        c.__dict__["fld"] = {IDS: V("iddict", (dom, val)), CNT: V("counter", n)}
        c.__dict__["st0"] = (dom, val, n)
        return inv(dom, val, n)

    def post(c, S1, r):
        dom, val, n = c.st0
        f = c.final_path.extra["objs"]["self0"]
        d1, v1 = f[IDS].t
        n1 = f[CNT].t
        num = Select(v1, c.node)
        fmt = HEXS(num) if dot else Concat(StringVal("N"), IntToStr(num))
        return (inv(d1, v1, n1) + [
            Clause("ids/node-has-a-number-now", Select(d1, c.node)),
            Clause("ids/numbers-never-change", ForAll([x], Implies(Select(dom, x), And(Select(d1, x), Select(v1, x) == Select(val, x))))),
            Clause("ids/only-this-node-added", ForAll([x], Implies(And(Select(d1, x), x != c.node), Select(dom, x)))),
            Clause("ids/counter-never-decreases", n1 >= n),
            Clause("returns-the-formatted-number-of-the-node", tostr(r) == fmt if r.k in ("str", "pystr") else BoolVal(False))])
    sp = QSpec(reg, REL, CLS, "_default_nodenamefunc", "method", [("self", "obj:" + CLS), ("node", "ref")], req, [
        Outcome("return", "return", post, res="str", mods=())], props=P)
    sp.world = TEXTWORLD
    sp.fields = lambda c: c.fld
    return [sp]
