"""Sidecar contracts for anytree/iterators (C05, C06) in the seq world.

Spec functions (recursive definitions over the immutable view CH, with a 'remaining depth budget' b: a level is
admitted iff no bound is given or b >= 1) - each with ONE defining equation, instantiated where needed:

    FILTP(s,j,f)            the elements x of s[:j] with f(x)
    NSP(s,j,st)             the elements x of s[:j] with not st(x)
    GC(s,j,st)              concat of NSP(CH(x)) for x in s[:j]                 (the stop-pruned grandchildren)
    PRE(s,j,f,st,hm,b)      restricted pre-order of the forest s[:j]
    POSTF(s,j,f,st,hm,b)    restricted post-order of the (already stop-pruned) forest s[:j]
    LEVEL(s,f,st,hm,b)      restricted level order from the (already stop-pruned) level s
    LEVELG(s,f,st,hm,b)     the same, one tuple per admitted level
    ZIG(g,j)                the first j tuples of g, every second one (index 1,3,..) reversed
"""
from z3 import (And, BoolVal, Concat, Const, Function, If, Implies, Int, IntVal, Length, Not, Or, Unit)

from pyvc.core import LoopSpec, V
from pyvc.heap import B, I, NONE, R
from pyvc.heapworld import Clause, Outcome
from pyvc.seqworld import (CH, EMPTY, EMPTY2, FALSEF, TRUEF, Fn, QSpec, Registry, SeqR, SeqSeqR, app, as_optfn, as_optint,
                           qseq)

FILTP = Function("FILTP", SeqR, I, Fn, SeqR)
NSP = Function("NSP", SeqR, I, Fn, SeqR)
GC = Function("GC", SeqR, I, Fn, SeqR)
PRE = Function("PRE", SeqR, I, Fn, Fn, B, I, SeqR)
POSTF = Function("POSTF", SeqR, I, Fn, Fn, B, I, SeqR)
LEVEL = Function("LEVEL", SeqR, Fn, Fn, B, I, SeqR)
LEVELG = Function("LEVELG", SeqR, Fn, Fn, B, I, SeqSeqR)
REV = Function("REV", SeqR, SeqR)
ZIG = Function("ZIG", SeqSeqR, I, SeqSeqR)


def rng(j, s):
    return And(0 <= j, j < Length(s))


def dec(hm, b):
    return If(hm, b - 1, 0)


# ------------------------------------------------------------------ defining equations (instances)
def d_FILTP(s, j, f):
    return [FILTP(s, 0, f) == EMPTY,
            Implies(rng(j, s), FILTP(s, j + 1, f) == Concat(FILTP(s, j, f), If(app(f, s[j]), Unit(s[j]), EMPTY)))]


def d_NSP(s, j, st):
    return [NSP(s, 0, st) == EMPTY,
            Implies(rng(j, s), NSP(s, j + 1, st) == Concat(NSP(s, j, st), If(app(st, s[j]), EMPTY, Unit(s[j]))))]


def d_GC(s, j, st):
    return [GC(s, 0, st) == EMPTY,
            Implies(rng(j, s), GC(s, j + 1, st) == Concat(GC(s, j, st), NSP(CH(s[j]), Length(CH(s[j])), st)))]


def PRE_one(c, f, st, hm, b):
    return If(And(hm, b < 1), EMPTY,
              If(app(st, c), EMPTY, Concat(If(app(f, c), Unit(c), EMPTY), PRE(CH(c), Length(CH(c)), f, st, hm, dec(hm, b)))))


def d_PRE(s, j, f, st, hm, b):
    return [PRE(s, 0, f, st, hm, b) == EMPTY,
            Implies(rng(j, s), PRE(s, j + 1, f, st, hm, b) == Concat(PRE(s, j, f, st, hm, b), PRE_one(s[j], f, st, hm, b)))]


def POSTF_one(c, f, st, hm, b):
    g = NSP(CH(c), Length(CH(c)), st)
    return If(And(hm, b < 1), EMPTY, Concat(POSTF(g, Length(g), f, st, hm, dec(hm, b)), If(app(f, c), Unit(c), EMPTY)))


def d_POSTF(s, j, f, st, hm, b):
    return [POSTF(s, 0, f, st, hm, b) == EMPTY,
            Implies(rng(j, s), POSTF(s, j + 1, f, st, hm, b) == Concat(POSTF(s, j, f, st, hm, b), POSTF_one(s[j], f, st, hm, b)))]


def d_LEVEL(s, f, st, hm, b):
    nxt = If(And(hm, b - 1 < 1), EMPTY, GC(s, Length(s), st))
    return [LEVEL(s, f, st, hm, b) == If(Or(Length(s) == 0, And(hm, b < 1)), EMPTY,
                                         Concat(FILTP(s, Length(s), f), LEVEL(nxt, f, st, hm, dec(hm, b))))]


def d_LEVELG(s, f, st, hm, b):
    rest = If(And(hm, b - 1 < 1), EMPTY2, LEVELG(GC(s, Length(s), st), f, st, hm, dec(hm, b)))
    return [LEVELG(s, f, st, hm, b) == If(Or(Length(s) == 0, And(hm, b < 1)), EMPTY2,
                                          Concat(Unit(FILTP(s, Length(s), f)), rest))]


def d_ZIG(g, j):
    return [ZIG(g, 0) == EMPTY2,
            Implies(And(0 <= j, j < Length(g)), ZIG(g, j + 1) == Concat(ZIG(g, j), Unit(If(j % 2 == 1, REV(g[j]), g[j]))))]


# lemmas proved from the definitions by induction on j (two SMT obligations each: base, step) and then used as hints
def z_PRE(s, j, f, st, hm, b):
    return Implies(And(hm, b < 1, 0 <= j, j <= Length(s)), PRE(s, j, f, st, hm, b) == EMPTY)


def z_POSTF(s, j, f, st, hm, b):
    return Implies(And(hm, b < 1, 0 <= j, j <= Length(s)), POSTF(s, j, f, st, hm, b) == EMPTY)


def lemma_obligations():
    """(name, hypotheses, goal): induction base and step of the two zero-budget lemmas"""
    s = Const("ls", SeqR)
    f, st = Const("lf", Fn), Const("lst", Fn)
    hm = Const("lhm", B)
    b, j = Int("lb"), Int("lj")
    out = []
    for nm, z, d in (("PRE", z_PRE, d_PRE), ("POSTF", z_POSTF, d_POSTF)):
        out.append(("LEMMA:zero-budget-%s/base" % nm, d(s, j, f, st, hm, b), z(s, IntVal(0), f, st, hm, b)))
        out.append(("LEMMA:zero-budget-%s/step" % nm, d(s, j, f, st, hm, b) + [z(s, j, f, st, hm, b), rng(j, s)],
                    z(s, j + 1, f, st, hm, b)))
    return out


# ------------------------------------------------------------------ class-level sequences
def eff(args):
    """effective callbacks and bound of an iterator object: defaults applied"""
    fg, f = as_optfn(args["filter_"])
    sg, s = as_optfn(args["stop"])
    hm, m = as_optint(args["maxlevel"])
    return If(fg, f, TRUEF), If(sg, s, FALSEF), hm, m


def start_children(node, ST, hm, m):
    return If(And(hm, 1 > m), EMPTY, NSP(Unit(node), 1, ST))


def iterseq(kind, node, F, ST, hm, m):
    c0 = start_children(node, ST, hm, m)
    b0 = If(hm, m, 0)
    if kind == "PreOrderIter":
        return PRE(c0, Length(c0), F, ST, hm, b0)
    if kind == "PostOrderIter":
        return POSTF(c0, Length(c0), F, ST, hm, b0)
    if kind == "LevelOrderIter":
        return LEVEL(c0, F, ST, hm, b0)
    if kind == "LevelOrderGroupIter":
        return LEVELG(c0, F, ST, hm, b0)
    if kind == "ZigZagGroupIter":
        g = LEVELG(c0, F, ST, hm, b0)
        return If(Length(c0) == 0, EMPTY2, ZIG(g, Length(g)))
    raise ValueError(kind)


KINDS = ("PreOrderIter", "PostOrderIter", "LevelOrderIter", "LevelOrderGroupIter", "ZigZagGroupIter")
FILES = {"AbstractIter": "anytree/iterators/abstractiter.py", "PreOrderIter": "anytree/iterators/preorderiter.py",
         "PostOrderIter": "anytree/iterators/postorderiter.py", "LevelOrderIter": "anytree/iterators/levelorderiter.py",
         "LevelOrderGroupIter": "anytree/iterators/levelordergroupiter.py",
         "ZigZagGroupIter": "anytree/iterators/zigzaggroupiter.py"}
ITER_PARAMS = [("children", "qseq"), ("filter_", "fn"), ("stop", "fn"), ("maxlevel", "optint")]
P56 = {"C05", "C06"}


def budget_ok(c):
    hm, m = c.args["maxlevel"].t
    return Or(Length(c.children) == 0, Implies(hm, m >= 1))


def build():
    reg = Registry()
    reg.specfn = {"FILTP": FILTP, "NSP": NSP, "REV": REV}
    for k in KINDS:
        reg.bases[k] = "AbstractIter"
    reg.bases["AbstractIter"] = None
    specs = []

    def add(table, key, spec):
        table[key] = spec
        specs.append(spec)
        return spec

    def none_v():
        return V("ref", NONE)
    AI = "AbstractIter"
    # ------------------------------------------------------------------ shared helpers
    add(reg.statics, (AI, "_abort_at_level"), QSpec(
        reg, FILES[AI], AI, "_abort_at_level", "static", [("level", "int"), ("maxlevel", "optint")], lambda c: [], [
            Outcome("return", "return", lambda c, S1, r: [], res="bool", mods=(),
                    value=lambda c: And(c.args["maxlevel"].t[0], c.level > c.args["maxlevel"].t[1]))], props=P56))
    add(reg.statics, (AI, "_get_children"), QSpec(
        reg, FILES[AI], AI, "_get_children", "static", [("children", "qseq"), ("stop", "fn")], lambda c: [], [
            Outcome("return", "return", lambda c, S1, r: [], res="qseq", mods=(),
                    value=lambda c: NSP(c.children, Length(c.children), c.stop))], props=P56))
    add(reg.statics, (AI, "_AbstractIter__default_filter"), QSpec(
        reg, FILES[AI], AI, "__default_filter", "static", [("node", "ref")], lambda c: [], [
            Outcome("return", "return", lambda c, S1, r: [], res="bool", mods=(), value=lambda c: BoolVal(True))], props=P56))
    add(reg.statics, (AI, "_AbstractIter__default_stop"), QSpec(
        reg, FILES[AI], AI, "__default_stop", "static", [("node", "ref")], lambda c: [], [
            Outcome("return", "return", lambda c, S1, r: [], res="bool", mods=(), value=lambda c: BoolVal(False))], props=P56))
    reg.static_fns = {(AI, "_AbstractIter__default_filter"): TRUEF, (AI, "_AbstractIter__default_stop"): FALSEF}

    # ------------------------------------------------------------------ PreOrderIter._iter
    def pre_inv(L):
        c = L.fn
        hm, m = c.args["maxlevel"].t
        return [("yielded-so-far", L.out == PRE(c.children, L.i, c.filter_, c.stop, hm, m))]

    def pre_hints(L):
        c = L.fn
        hm, m = c.args["maxlevel"].t
        s = c.children
        kid = CH(s[L.i])
        return d_PRE(s, L.i, c.filter_, c.stop, hm, m) + [z_PRE(kid, Length(kid), c.filter_, c.stop, hm, dec(hm, m))]
    add(reg.statics, ("PreOrderIter", "_iter"), QSpec(
        reg, FILES["PreOrderIter"], "PreOrderIter", "_iter", "static", ITER_PARAMS,
        lambda c: [Clause("level-admitted-or-nothing-to-do", budget_ok(c))], [
            Outcome("return", "return", lambda c, S1, r: [], res="gen", mods=(),
                    value=lambda c: PRE(c.children, Length(c.children), c.filter_, c.stop, *c.args["maxlevel"].t))],
        loops={0: LoopSpec(pre_inv, hints=pre_hints)}, generator=True, props=P56))

    # ------------------------------------------------------------------ PostOrderIter.__next / _iter
    def post_b(c):
        hm, m = c.args["maxlevel"].t
        return hm, If(hm, m - c.level + 1, 0)

    def post_inv(L):
        c = L.fn
        hm, b = post_b(c)
        return [("yielded-so-far", L.out == POSTF(c.children, L.i, c.filter_, c.stop, hm, b))]

    def post_hints(L):
        c = L.fn
        hm, b = post_b(c)
        return d_POSTF(c.children, L.i, c.filter_, c.stop, hm, b)

    def post_fn_hints(c):
        hm, b = post_b(c)
        return [z_POSTF(c.children, Length(c.children), c.filter_, c.stop, hm, b)]
    add(reg.statics, ("PostOrderIter", "_PostOrderIter__next"), QSpec(
        reg, FILES["PostOrderIter"], "PostOrderIter", "__next", "static",
        [("children", "qseq"), ("level", "int"), ("filter_", "fn"), ("stop", "fn"), ("maxlevel", "optint")],
        lambda c: [Clause("level-positive", c.level >= 1)], [
            Outcome("return", "return", lambda c, S1, r: [], res="gen", mods=(),
                    value=lambda c: POSTF(c.children, Length(c.children), c.filter_, c.stop, *post_b(c)))],
        loops={0: LoopSpec(post_inv, hints=post_hints)}, generator=True, props=P56, hints=post_fn_hints))
    add(reg.statics, ("PostOrderIter", "_iter"), QSpec(
        reg, FILES["PostOrderIter"], "PostOrderIter", "_iter", "static", ITER_PARAMS, lambda c: [], [
            Outcome("return", "return", lambda c, S1, r: [], res="gen", mods=(),
                    value=lambda c: POSTF(c.children, Length(c.children), c.filter_, c.stop, c.args["maxlevel"].t[0],
                                          If(c.args["maxlevel"].t[0], c.args["maxlevel"].t[1], 0)))], props=P56))

    # ------------------------------------------------------------------ LevelOrderIter._iter
    def lvl_b(c, level):
        hm, m = c.args["maxlevel"].t
        return hm, If(hm, m - level + 1, 0)

    def lvl_inv(L):
        c = L.fn
        hm, b = lvl_b(c, L.t("level"))
        _, b0 = lvl_b(c, IntVal(1))
        ch = L.t("children")
        return [("yielded-plus-rest-is-the-level-order",
                 Concat(L.out, LEVEL(ch, c.filter_, c.stop, hm, b)) == LEVEL(c.children, c.filter_, c.stop, hm, b0)),
                ("level-counter", L.t("level") >= 1),
                ("level-admitted-or-nothing-to-do", Or(Length(ch) == 0, Implies(hm, b >= 1)))]

    def lvl_hints(L):
        c = L.fn
        hm, b = lvl_b(c, L.t("level"))
        return d_LEVEL(L.t("children"), c.filter_, c.stop, hm, b)

    def lvl_inner_inv(with_next):
        def inv(L):
            c = L.fn
            ch = L.t("children")
            cl = [("yielded-in-this-level", L.out == Concat(L.out_pre, FILTP(ch, L.i, c.filter_)))]
            if with_next:
                cl.append(("next-level-collected", L.t("next_children") == GC(ch, L.i, c.stop)))
            return cl
        return inv

    def lvl_inner_hints(L):
        c = L.fn
        ch = L.t("children")
        return d_FILTP(ch, L.i, c.filter_) + d_GC(ch, L.i, c.stop)
    add(reg.statics, ("LevelOrderIter", "_iter"), QSpec(
        reg, FILES["LevelOrderIter"], "LevelOrderIter", "_iter", "static", ITER_PARAMS,
        lambda c: [Clause("level-admitted-or-nothing-to-do", budget_ok(c))], [
            Outcome("return", "return", lambda c, S1, r: [], res="gen", mods=(),
                    value=lambda c: LEVEL(c.children, c.filter_, c.stop, c.args["maxlevel"].t[0],
                                          If(c.args["maxlevel"].t[0], c.args["maxlevel"].t[1], 0)))],
        loops={0: LoopSpec(lvl_inv, hints=lvl_hints, vars_kinds={"next_children": "qseq"}),
               1: LoopSpec(lvl_inner_inv(False), hints=lvl_inner_hints),
               2: LoopSpec(lvl_inner_inv(True), hints=lvl_inner_hints)},
        generator=True, props=P56))

    # ------------------------------------------------------------------ LevelOrderGroupIter
    def gg_inv(L):
        return [("collected", L.t("next_children") == GC(L.fn.children, L.i, L.fn.stop))]
    add(reg.statics, ("LevelOrderGroupIter", "_get_grandchildren"), QSpec(
        reg, FILES["LevelOrderGroupIter"], "LevelOrderGroupIter", "_get_grandchildren", "static",
        [("children", "qseq"), ("stop", "fn")], lambda c: [], [
            Outcome("return", "return", lambda c, S1, r: [], res="qseq", mods=(),
                    value=lambda c: GC(c.children, Length(c.children), c.stop))],
        loops={0: LoopSpec(gg_inv, hints=lambda L: d_GC(L.fn.children, L.i, L.fn.stop))}, props=P56))

    def lg_inv(L):
        c = L.fn
        hm, b = lvl_b(c, L.t("level"))
        _, b0 = lvl_b(c, IntVal(1))
        ch = L.t("children")
        return [("yielded-plus-rest-are-the-level-groups",
                 Concat(L.out, LEVELG(ch, c.filter_, c.stop, hm, b)) == LEVELG(c.children, c.filter_, c.stop, hm, b0)),
                ("level-counter", L.t("level") >= 1),
                ("level-admitted-or-nothing-to-do", Or(Length(ch) == 0, Implies(hm, b >= 1)))]

    def lg_hints(L):
        c = L.fn
        hm, b = lvl_b(c, L.t("level"))
        return d_LEVELG(L.t("children"), c.filter_, c.stop, hm, b)
    add(reg.statics, ("LevelOrderGroupIter", "_iter"), QSpec(
        reg, FILES["LevelOrderGroupIter"], "LevelOrderGroupIter", "_iter", "static", ITER_PARAMS,
        lambda c: [Clause("level-admitted-or-nothing-to-do", budget_ok(c))], [
            Outcome("return", "return", lambda c, S1, r: [], res="gen", mods=(),
                    value=lambda c: LEVELG(c.children, c.filter_, c.stop, c.args["maxlevel"].t[0],
                                           If(c.args["maxlevel"].t[0], c.args["maxlevel"].t[1], 0)))],
        loops={0: LoopSpec(lg_inv, hints=lg_hints)}, generator=True, yields="qseq", props=P56))

    # ------------------------------------------------------------------ class-level contracts (constructor = the sequence it will yield)
    for k in KINDS:
        reg.classes[k] = QSpec(
            reg, FILES[k], k, "<class>", "class",
            [("node", "ref"), ("filter_", "optfn"), ("stop", "optfn"), ("maxlevel", "optint")], lambda c: [], [
                Outcome("return", "return", lambda c, S1, r: [], res="gen", mods=(),
                        value=(lambda kk: lambda c: iterseq(kk, c.node, *eff(c.args)))(k), tag={"cls": k})],
            props=P56, defaults={"filter_": none_v(), "stop": none_v(), "maxlevel": none_v()})

    # ------------------------------------------------------------------ ZigZagGroupIter._iter
    def zz_G(c):
        hm, m = c.args["maxlevel"].t
        return iterseq("LevelOrderGroupIter", c.children[0], c.filter_, c.stop, hm, m)

    def zz_pos(L):
        g = L.v["_iter"]
        return L.extra["gens"][g.t][1]

    def zz_inv(L):
        G, pos = zz_G(L.fn), zz_pos(L)
        return [("position", And(0 <= pos, pos <= Length(G), pos % 2 == 0)),
                ("iterates-the-level-groups", L.extra["gens"][L.v["_iter"].t][0] == G),
                ("yielded-so-far", L.out == ZIG(G, pos))]

    def zz_hints(L):
        G, pos = zz_G(L.fn), zz_pos(L)
        return d_ZIG(G, pos) + d_ZIG(G, pos + 1)
    add(reg.statics, ("ZigZagGroupIter", "_iter"), QSpec(
        reg, FILES["ZigZagGroupIter"], "ZigZagGroupIter", "_iter", "static", ITER_PARAMS,
        lambda c: [Clause("at-most-the-start-node", Length(c.children) <= 1)], [
            Outcome("return", "return", lambda c, S1, r: [], res="gen", mods=(),
                    value=lambda c: If(Length(c.children) == 0, EMPTY2, ZIG(zz_G(c), Length(zz_G(c)))))],
        loops={0: LoopSpec(zz_inv, hints=zz_hints)}, generator=True, yields="qseq", props=P56))

    # ------------------------------------------------------------------ AbstractIter.__init__ / __init per iterator class
    def fields(c):
        return {"node": c.args["node"], "filter_": c.args["filter_"], "stop": c.args["stop"],
                "maxlevel": c.args["maxlevel"], "_AbstractIter__iter": none_v()}
    for k in KINDS:
        spec = QSpec(
            reg, FILES[AI], AI, "__init", "method", [("self", "obj:" + k)],
            (lambda kk: lambda c: [Clause("None-is-canonical", Implies(Not(_mkfields(c, kk)["maxlevel"].t[0]),
                                                                       c.fld["maxlevel"].t[1] == 0))])(k), [
                Outcome("return", "return", lambda c, S1, r: [], res="gen", mods=(),
                        value=(lambda kk: lambda c: iterseq(kk, c.fld["node"].t, *eff(c.fld)))(k))],
            props=P56)
        spec.fields = lambda c: c.fld
        spec.hints = lambda c: d_NSP(Unit(c.fld["node"].t), IntVal(0), eff(c.fld)[1])
        spec.variant = k
        specs.append(spec)
        reg.methods[(k, "_AbstractIter__init")] = spec
    # ------------------------------------------------------------------ class protocol: __init__, __next__
    def init_post(c, S1, r):
        f = c.final_path.extra["objs"]["self0"]
        def same(a, b):
            if a.k == "optfn":
                return And(a.t[0] == b.t[0], Implies(a.t[0], a.t[1] == b.t[1])) if b.k == "optfn" else BoolVal(False)
            if a.k == "optint":
                return And(a.t[0] == b.t[0], a.t[1] == b.t[1]) if b.k == "optint" else BoolVal(False)
            return a.t == b.t if b.k == a.k else BoolVal(False)
        cl = []
        for nm in ("node", "filter_", "stop", "maxlevel"):
            cl.append(Clause("field-%s-is-the-argument" % nm, same(c.args[nm], f[nm]) if nm in f else BoolVal(False)))
        it_ = f.get("_AbstractIter__iter")
        cl.append(Clause("not-started", BoolVal(it_ is not None and it_.k == "ref" and it_.t is NONE)))
        return cl
    sp = QSpec(reg, FILES[AI], AI, "__init__", "method",
               [("self", "obj:AbstractIter"), ("node", "ref"), ("filter_", "optfn"), ("stop", "optfn"), ("maxlevel", "optint")],
               lambda c: [], [Outcome("return", "return", init_post, mods=())], props=P56)
    specs.append(sp)
    for k in KINDS:
        # first call: the iterator is created lazily and its first element delivered (or StopIteration)
        def nx_req(kk):
            return lambda c: [Clause("None-is-canonical", Implies(Not(_mkfields(c, kk)["maxlevel"].t[0]), c.fld["maxlevel"].t[1] == 0))]

        def nx_seq(kk):
            return lambda c: iterseq(kk, c.fld["node"].t, *eff(c.fld))

        def nx_post_item(kk):
            def post(c, S1, r):
                sq = nx_seq(kk)(c)
                p = c.final_path
                g = p.extra["objs"]["self0"].get("_AbstractIter__iter")
                if g is None or g.k != "gen":
                    return [Clause("iterator-stored", BoolVal(False))]
                gs, gp, _ = p.extra["gens"][g.t]
                return [Clause("non-empty", Length(sq) > 0), Clause("first-element", r.t == sq[0]),
                        Clause("stored-iterator-continues-after-it", And(gs == sq, gp == 1))]
            return post

        def nx_post_stop(kk):
            def post(c, S1, r):
                return [Clause("sequence-is-empty", Length(nx_seq(kk)(c)) == 0)]
            return post
        sp = QSpec(reg, FILES[AI], AI, "__next__", "method", [("self", "obj:" + k)], nx_req(k), [
            Outcome("item", "return", nx_post_item(k), res="qseq" if k in KINDS[3:] else "ref", mods=()),
            Outcome("exhausted", "raise", nx_post_stop(k), exc="StopIteration", mods=())], props=P56)
        sp.fields = lambda c: c.fld
        sp.hints = lambda c: d_NSP(Unit(c.fld["node"].t), IntVal(0), eff(c.fld)[1])
        sp.variant = k + "/first-call"
        specs.append(sp)
    # later calls: the stored iterator simply continues (one more element, or StopIteration when exhausted)
    from pyvc.seqworld import SeqR as _SeqR
    for elem, sort_, nm in (("ref", SeqR, "node-iterators"), ("qseq", SeqSeqR, "group-iterators")):
        G = Const("stored_seq_" + elem, sort_)
        POS = Int("stored_pos_" + elem)

        def later_fields(c, elem=elem):
            return {"node": V("ref", Const("f_node", R)), "filter_": V("ref", NONE), "stop": V("ref", NONE), "maxlevel": V("ref", NONE),
                    "_AbstractIter__iter": V("gen", 9000 + (0 if elem == "ref" else 1), {"elem": elem})}

        def later_item(c, S1, r, G=G, POS=POS, elem=elem):
            p = c.final_path
            gs, gp, _ = p.extra["gens"][9000 + (0 if elem == "ref" else 1)]
            return [Clause("next-element-of-the-stored-iterator", r.t == G[POS]), Clause("stored-iterator-advanced-by-one", And(gs == G, gp == POS + 1))]
        sp = QSpec(reg, FILES[AI], AI, "__next__", "method", [("self", "obj:AbstractIter")],
                   (lambda G=G, POS=POS: lambda c: [Clause("position-in-range", And(0 <= POS, POS <= Length(G)))])(), [
            Outcome("item", "return", later_item, res="qseq" if elem == "qseq" else "ref", mods=(), when=(lambda G=G, POS=POS: lambda c: POS < Length(G))()),
            Outcome("exhausted", "raise", lambda c, S1, r: [], exc="StopIteration", mods=(), when=(lambda G=G, POS=POS: lambda c: POS >= Length(G))())],
            props=P56)
        sp.fields = later_fields
        sp.init_extra = (lambda G=G, POS=POS, elem=elem: lambda c: {"gens": {9000 + (0 if elem == "ref" else 1): (G, POS, elem)}})()
        sp.variant = "later-call/" + nm
        specs.append(sp)
    return reg, specs


def _mkfields(c, k):
    from pyvc.seqworld import SEQWORLD
    f = {"node": SEQWORLD.make_arg("f_node", "ref"), "filter_": SEQWORLD.make_arg("f_filter", "optfn"),
         "stop": SEQWORLD.make_arg("f_stop", "optfn"), "maxlevel": SEQWORLD.make_arg("f_maxlevel", "optint"),
         "_AbstractIter__iter": V("ref", NONE)}
    c.__dict__["fld"] = f
    return f


# ------------------------------------------------------------------ navigation attributes computed through PreOrderIter (C04)
def build_nav(reg):
    from z3 import Extract, ForAll
    from pyvc.seqworld import app
    specs = []
    for cls, rel in (("NodeMixin", "anytree/node/nodemixin.py"), ("LightNodeMixin", "anytree/node/lightnodemixin.py")):
        def full(c):
            return iterseq("PreOrderIter", c.self, TRUEF, FALSEF, BoolVal(False), IntVal(0))

        def nav_hints(c):
            c0 = start_children(c.self, FALSEF, BoolVal(False), IntVal(0))
            return d_NSP(Unit(c.self), IntVal(0), FALSEF) + d_PRE(c0, IntVal(0), TRUEF, FALSEF, BoolVal(False), IntVal(0))
        specs.append(QSpec(reg, rel, cls, "descendants", "getter", [("self", "ref")], lambda c: [], [
            Outcome("return", "return", lambda c, S1, r: [
                Clause("all-nodes-below-in-pre-order (pre-order of the subtree without its first element)",
                       r.t == Extract(full(c), 1, Length(full(c)) - 1), {"C04"})], res="qseq", mods=())], props={"C04"}))

        def leaves_post(c, S1, r):
            x = Const("xl", R)
            w = c.wit
            F, ST = w, FALSEF
            return [Clause("filter-selects-the-childless-nodes", ForAll([x], app(w, x) == (Length(CH(x)) == 0)), {"C04"}),
                    Clause("childless-nodes-of-the-subtree-in-pre-order",
                           r.t == iterseq("PreOrderIter", c.self, w, FALSEF, BoolVal(False), IntVal(0)), {"C04"})]
        sp = QSpec(reg, rel, cls, "leaves", "getter", [("self", "ref")], lambda c: [], [
            Outcome("return", "return", leaves_post, res="qseq", mods=())], props={"C04"})
        sp.uses_witness = True
        specs.append(sp)
        specs.append(QSpec(reg, rel, cls, "size", "getter", [("self", "ref")], lambda c: [], [
            Outcome("return", "return", lambda c, S1, r: [
                Clause("number-of-nodes-of-the-subtree (= 1 + len(descendants))", r.t == Length(full(c)), {"C04"})],
                res="int", mods=())], loops={0: LoopSpec(lambda L: [])}, props={"C04"}, hints=nav_hints))
    return specs
