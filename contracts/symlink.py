"""Sidecar contracts for SymlinkNodeMixin / SymlinkNode (C20, and the repository-side conditions of C19)."""
from z3 import And, BoolVal, Not, Or, StringVal

from pyvc.attrworld import ATTRWORLD, TGET, THAS
from pyvc.core import V
from pyvc.heap import NONE
from pyvc.heapworld import Clause, Outcome
from pyvc.seqworld import QSpec, Registry

MX = "anytree/node/symlinknodemixin.py"
SN = "anytree/node/symlinknode.py"
P = {"C20"}
LOCAL = ("_NodeMixin__parent", "_NodeMixin__children", "parent", "children", "target")
BOOK = ("_NodeMixin__parent", "_NodeMixin__children")


def is_one_of(name, names):
    return Or(*[name == StringVal(n) for n in names])


def effects(c):
    return c.final_path.extra.get("effects", [])


def ev_is(ev, kind, *terms):
    """python-level shape check + symbolic equality of the operands"""
    if ev[0] != kind or len(ev) != len(terms) + 1:
        return BoolVal(False)
    conj = []
    for got, want in zip(ev[1:], terms):
        if isinstance(want, str):
            conj.append(BoolVal(got == want))
        elif got.k == "ref" and hasattr(want, "sort"):
            conj.append(got.t == want)
        elif got.k in ("str", "any") and hasattr(want, "sort"):
            conj.append(got.t == want)
        elif want is None:
            conj.append(BoolVal(True))
        else:
            conj.append(BoolVal(got is want))
    return And(*conj) if conj else BoolVal(True)


def build():
    reg = Registry()
    specs = []

    def target_of(c):
        return c.fld["target"].t

    def mkfields(c):
        from pyvc.seqworld import SEQWORLD
        c.__dict__["fld"] = {"target": SEQWORLD.make_arg("f_target", "ref")}
        return []
    # ------------------------------------------------------------------ __getattr__ (consulted only after normal lookup failed)
    refuse = lambda c: is_one_of(c.name, BOOK + ("__setstate__",))

    def ga_refused(c, S1, r):
        evs = effects(c)
        return [Clause("target-not-evaluated (no recursion while unpickling an empty instance)",
                       BoolVal(not any(e[0] in ("read-own", "getattr") for e in evs)), P | {"C19"})]

    def ga_forward_ok(c, S1, r):
        evs = effects(c)
        ok = len(evs) == 2 and evs[0] == ("read-own", "target")
        return [Clause("reads-the-attribute-from-the-target-only",
                       And(BoolVal(ok), ev_is(evs[1], "getattr", target_of(c), c.name) if ok else BoolVal(False))),
                Clause("returns-the-targets-current-value", r.t == TGET(target_of(c), c.name) if r.k == "any" else BoolVal(False))]

    def ga_forward_missing(c, S1, r):
        evs = effects(c)
        ok = len(evs) == 2 and evs[0] == ("read-own", "target")
        return [Clause("asked-the-target-only", And(BoolVal(ok), ev_is(evs[1], "getattr", target_of(c), c.name) if ok else BoolVal(False)))]
    sp = QSpec(reg, MX, "SymlinkNodeMixin", "__getattr__", "method", [("self", "obj:SymlinkNodeMixin"), ("name", "str")], mkfields, [
        Outcome("refused:bookkeeping-name", "raise", ga_refused, exc="AttributeError", site="super.__getattr__", mods=(),
                when=lambda c: is_one_of(c.name, BOOK)),
        Outcome("refused:__setstate__", "raise", ga_refused, exc="AttributeError", site="explicit0", mods=(),
                when=lambda c: And(Not(is_one_of(c.name, BOOK)), c.name == StringVal("__setstate__"))),
        Outcome("forwarded", "return", ga_forward_ok, res="any", mods=(),
                when=lambda c: And(Not(refuse(c)), THAS(target_of(c), c.name))),
        Outcome("forwarded:target-lacks-it", "raise", ga_forward_missing, exc="AttributeError", site="getattr", mods=(),
                when=lambda c: And(Not(refuse(c)), Not(THAS(target_of(c), c.name)))),
    ], props=P)
    sp.world, sp.fields = ATTRWORLD, (lambda c: c.fld)
    specs.append(sp)
    reg.methods[("SymlinkNodeMixin", "__getattr__")] = sp

    # ------------------------------------------------------------------ __setattr__
    local = lambda c: is_one_of(c.name, LOCAL)

    def sa_local(c, S1, r):
        if c.__dict__.get("final_path") is None:
            return []
        evs = effects(c)
        ok = len(evs) == 1
        return [Clause("stored-on-the-link-itself-by-the-default-protocol (property setter for parent/children)",
                       And(BoolVal(ok), ev_is(evs[0], "default-store-on-self", c.name, c.value) if ok else BoolVal(False))),
                Clause("target-untouched", BoolVal(not any(e[0] in ("setattr", "dict-update") for e in evs)))]

    def sa_forward(c, S1, r):
        if c.__dict__.get("final_path") is None:
            return []
        evs = effects(c)
        ok = len(evs) == 2 and evs[0] == ("read-own", "target")
        return [Clause("stored-on-the-target-and-nothing-else",
                       And(BoolVal(ok), ev_is(evs[1], "setattr", target_of(c), c.name, c.value) if ok else BoolVal(False))),
                Clause("link-untouched", BoolVal(not any(e[0] == "default-store-on-self" for e in evs)))]
    sp = QSpec(reg, MX, "SymlinkNodeMixin", "__setattr__", "method",
               [("self", "obj:SymlinkNodeMixin"), ("name", "str"), ("value", "any")], mkfields, [
        Outcome("local", "return", sa_local, mods=(), when=local),
        Outcome("forwarded", "return", sa_forward, mods=(), when=lambda c: Not(local(c))),
    ], props=P)
    sp.world, sp.fields = ATTRWORLD, (lambda c: c.fld)
    specs.append(sp)
    reg.methods[("SymlinkNodeMixin", "__setattr__")] = sp

    # ------------------------------------------------------------------ SymlinkNode.__init__
    def init_post(c, S1, r):
        evs = [e for e in effects(c) if e[0] != "read-own"]
        kinds = [e[0] for e in evs]
        truthy = c.args["children"].x["truth"]
        base = ["effect:setattr:target", "dict-update", "effect:setattr:parent"]
        names = []
        for e in evs:
            names.append(e[0] if e[0] != "call-setattr" else "effect:setattr:" + e[1])
        with_children = names == base + ["effect:setattr:children"]
        without = names == base
        cl = [Clause("sequence: target stored on the link, kwargs stored on the target, then parent, then children iff truthy",
                     BoolVal(with_children or without)),
              Clause("children-assigned-iff-given", truthy if with_children else Not(truthy))]
        if with_children or without:
            cl += [Clause("target-is-the-argument", ev_is(evs[0], "call-setattr", "target", c.target)),
                   Clause("kwargs-go-to-the-target", ev_is(evs[1], "dict-update", c.target, None) if evs[1][2] is c.args["**kwargs"] else BoolVal(False)),
                   Clause("parent-is-the-argument", ev_is(evs[2], "call-setattr", "parent", c.parent))]
            if with_children:
                cl.append(Clause("children-is-the-argument", BoolVal(evs[3][2] is c.args["children"])))
        return cl
    sp = QSpec(reg, SN, "SymlinkNode", "__init__", "method",
               [("self", "obj:SymlinkNode"), ("target", "ref"), ("parent", "ref"), ("children", "any"), ("**kwargs", "any")],
               lambda c: [], [Outcome("return", "return", init_post, mods=())], props=P)
    sp.world = ATTRWORLD
    sp.fields = lambda c: {}
    specs.append(sp)
    return reg, specs


def build_ctors():
    """Node.__init__ / AnyNode.__init__ (C02: 'the constructors' parent=/children= arguments behave like the corresponding
    assignments'): keyword attributes into the instance dict, [name,] then `self.parent = parent`, then `self.children = children`
    iff children is truthy - each an ordinary assignment on the new node, i.e. the verified property setters."""
    reg = Registry()
    specs = []
    for rel, cls, has_name in (("anytree/node/node.py", "Node", True), ("anytree/node/anynode.py", "AnyNode", False)):
        def post(c, S1, r, has_name=has_name):
            evs = effects(c)
            truthy = c.args["children"].x["truth"]
            want = ["dict-update"] + (["assign:name"] if has_name else []) + ["assign:parent"]
            names = [e[0] if e[0] != "assign-on-self" else "assign:" + e[1] for e in evs]
            with_children = names == want + ["assign:children"]
            without = names == want
            cl = [Clause("sequence: kwargs into the instance dict, %sparent assignment, children assignment iff truthy" % ("name, " if has_name else ""),
                         BoolVal(with_children or without), {"C02"}),
                  Clause("children-assigned-iff-given", truthy if with_children else Not(truthy), {"C02"})]
            if with_children or without:
                k = 1 + (1 if has_name else 0)
                cl += [Clause("kwargs-update-the-new-node's-own-dict", BoolVal(evs[0][1].k == "obj" and evs[0][1].t == "self0" and evs[0][2] is c.args["**kwargs"]), {"C02"}),
                       Clause("parent-assignment-gets-the-parent-argument", BoolVal(evs[k][2] is c.args["parent"]), {"C02"})]
                if has_name:
                    cl.append(Clause("name-stored", BoolVal(evs[1][2] is c.args["name"]), {"C02"}))
                if with_children:
                    cl.append(Clause("children-assignment-gets-the-children-argument", BoolVal(evs[k + 1][2] is c.args["children"]), {"C02"}))
            return cl
        params = [("self", "obj:" + cls)] + ([("name", "any")] if has_name else []) + [("parent", "ref"), ("children", "any"), ("**kwargs", "any")]
        sp = QSpec(reg, rel, cls, "__init__", "method", params, lambda c: [], [Outcome("return", "return", post, mods=())], props={"C02"})
        sp.world = ATTRWORLD
        sp.fields = lambda c: {}
        sp.plain_store = True
        specs.append(sp)
    return specs
