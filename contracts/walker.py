"""Sidecar contract for anytree/walker.py (C15), heap world (read-only)."""
from z3 import And, BoolVal, Const, Consts, Exists, ForAll, If, Implies, Int, Not, Or

from pyvc.heap import NONE, R, isn
from pyvc.heapworld import Clause, Family, Outcome, Spec

from .mixins import WFc, in_range, seqv

x, y = Consts("x y", R)
j = Int("j")
P = {"C15"}


def build(nodefam):
    fam = Family("Walker", "anytree/walker.py", False)
    # nodes are instances of the mixin family: their navigation attributes have the proved contracts
    for key in (("path", "getter"), ("root", "getter"), ("parent", "getter")):
        fam.specs[key] = nodefam.specs[key]

    def same_tree(c):
        return Exists([x], And(c.S0.A(x, c.start), c.S0.A(x, c.end)))

    def req(c):
        return WFc(c.S0) + [Clause("start-is-node", isn(c.start)), Clause("end-is-node", isn(c.end))]

    def post(c, S1, r):
        S0, a, b = c.S0, c.start, c.end
        if r.k != "tuple" or len(r.t) != 3 or r.t[0].k != "aseq" or r.t[1].k != "ref" or r.t[2].k != "aseq":
            return [Clause("returns (upwards, common, downwards)", BoolVal(False))]
        up, cm, dn = r.t[0].t, r.t[1].t, r.t[2].t
        return [
            Clause("common-is-a-common-ancestor-or-self", And(isn(cm), S0.A(cm, a), S0.A(cm, b))),
            Clause("common-is-the-lowest", ForAll([x], Implies(And(S0.A(x, a), S0.A(x, b)), S0.A(x, cm)))),
            Clause("upwards-length", up.n == S0.d(a) - S0.d(cm)),
            Clause("upwards-starts-at-start", Implies(up.n > 0, up.a[0] == a)),
            Clause("upwards-each-is-the-child-of-the-next", ForAll([j], Implies(in_range(j, up.n - 1), S0.par(up.a[j]) == up.a[j + 1]))),
            Clause("upwards-ends-below-common", Implies(up.n > 0, S0.par(up.a[up.n - 1]) == cm)),
            Clause("upwards-empty-iff-start-is-common", (up.n == 0) == (a == cm)),
            Clause("downwards-length", dn.n == S0.d(b) - S0.d(cm)),
            Clause("downwards-starts-below-common", Implies(dn.n > 0, S0.par(dn.a[0]) == cm)),
            Clause("downwards-each-is-the-parent-of-the-next", ForAll([j], Implies(in_range(j, dn.n - 1), S0.par(dn.a[j + 1]) == dn.a[j]))),
            Clause("downwards-ends-at-end", Implies(dn.n > 0, dn.a[dn.n - 1] == b)),
            Clause("downwards-empty-iff-end-is-common", (dn.n == 0) == (b == cm)),
        ]
    fam.add(Spec(fam, "walk", "static", [("start", "ref"), ("end", "ref")], req, [
        Outcome("return", "return", post, res="tuple", mods=(), when=same_tree),
        Outcome("WalkError", "raise", lambda c, S1, r: [], exc="WalkError", when=lambda c: Not(same_tree(c)), mods=()),
    ], props=P))

    def cc_req(c):
        s, e = c.args["start"].t, c.args["end"].t
        i2, j2 = Int("i2"), Int("j2")
        mn = If(s.n < e.n, s.n, e.n)
        return [Clause("agreement-downward-closed",
                       ForAll([i2, j2], Implies(And(0 <= i2, i2 < j2, j2 < mn, s.a[j2] == e.a[j2]), s.a[i2] == e.a[i2])))]

    def cc_post(c, S1, r):
        s, e, res = c.args["start"].t, c.args["end"].t, seqv(r)
        mn = If(s.n < e.n, s.n, e.n)
        return [Clause("is-a-prefix-of-both", And(0 <= res.n, res.n <= mn,
                                                  ForAll([j], Implies(in_range(j, res.n), And(res.a[j] == s.a[j], s.a[j] == e.a[j]))))),
                Clause("is-the-longest", Implies(res.n < mn, s.a[res.n] != e.a[res.n]))]
    fam.add(Spec(fam, fam.attr("__calc_common"), "static", [("start", "aseq"), ("end", "aseq")], cc_req, [
        Outcome("return", "return", cc_post, res="aseq", mods=(), tag={"py": "tuple"})], props=P))
    return fam
