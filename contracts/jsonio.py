"""Sidecar contracts for JsonExporter / JsonImporter (C11): delegation equalities, stated on the ordered effect log
(which helper is used with which state, which json function is called with which data and which keyword options)."""
from z3 import And, BoolVal, Const, Not

from pyvc.attrworld import ATTRWORLD
from pyvc.core import V
from pyvc.heap import B, NONE, R
from pyvc.heapworld import Clause, Outcome
from pyvc.seqworld import QSpec, Registry, U

JE, JI = "anytree/exporter/jsonexporter.py", "anytree/importer/jsonimporter.py"
P = {"C11"}


def effects(c):
    fp = c.__dict__.get("final_path")
    return fp.extra.get("effects", []) if fp is not None else None


def build_importer():
    """DictImporter.__import (C10): effect-log contract - the argument is copied, 'children' is popped from the COPY, one
    nodecls(parent=parent, **remaining attributes), then every element of the popped list is imported under the new node, in
    order (a for-each over that very list whose body is exactly one recursive import with parent=the new node); the new node
    is returned; the argument itself is never written."""
    reg = Registry()
    reg.bases["DictImporter"] = None
    specs = []
    NODECLS = V("opaque", ("self.nodecls",))

    def post(c, S1, r):
        evs = effects(c)
        if evs is None:
            return []
        P10 = {"C10"}
        kinds = [e[0] for e in evs]
        ok = kinds == ["dict-copy", "pop", "construct", "for-each"]
        cl = [Clause("sequence: copy the argument, pop 'children' from the copy, construct the node, import every child", BoolVal(ok), P10)]
        if not ok:
            return cl
        cp, pop, con, fe = evs
        data = c.args["data"]
        cl.append(Clause("copies-the-argument (the argument itself is never written)", BoolVal(cp[1] is data), P10))
        cl.append(Clause("pops-'children'-with-an-empty-default-from-the-copy",
                         BoolVal(pop[1] is cp[2] and pop[2].k == "str" and str(pop[2].t) == '"children"' and pop[3].k == "opaque" and pop[3].t == ("empty-list",)), P10))
        pos, stars, kws, node = con[1], con[2], dict(con[3]), con[4]
        cl.append(Clause("constructs-nodecls(parent=parent, **remaining-attributes)",
                         BoolVal(not pos and len(stars) == 1 and stars[0] is cp[2] and set(kws) == {"parent"} and kws["parent"] is c.args["parent"]), P10))
        body = fe[3]
        cl.append(Clause("imports-every-popped-child-in-order-under-the-new-node",
                         BoolVal(fe[1] is pop[4] and len(body) == 1 and body[0][0] == "call:_DictImporter__import"
                                 and len(body[0][1]) == 1 and body[0][1][0] is fe[2]), P10))
        kwp = body[0][3] if len(body) == 1 and len(body[0]) > 3 else {}
        cl.append(Clause("children-get-parent=the-new-node", BoolVal(isinstance(kwp, dict) and kwp.get("parent") is node), P10))
        cl.append(Clause("returns-the-new-node", BoolVal(r is node), P10))
        return cl
    sp = QSpec(reg, "anytree/importer/dictimporter.py", "DictImporter", "__import", "method",
               [("self", "obj:DictImporter"), ("data", "any"), ("parent", "any")], lambda c: [],
               [Outcome("return", "return", post, res="any", mods=())], props={"C10"}, defaults={"parent": V("ref", NONE)})
    sp.world = ATTRWORLD
    sp.fields = lambda c: {"nodecls": NODECLS}
    sp.plain_object = True
    specs.append(sp)
    reg.methods[("DictImporter", "_DictImporter__import")] = sp
    return reg, specs


def build():
    reg = Registry()
    reg.bases["JsonExporter"] = None
    reg.bases["JsonImporter"] = None
    specs = []
    given = Const("f_helper_given", B)
    mgiven = Const("f_maxlevel_given", B)
    KW = V("opaque", ("self.kwargs",))
    HELPER = V("opthelper", (given, "given-helper"))
    ML = V("optval", (mgiven, "self.maxlevel"))

    def qs(spec, fields):
        spec.world = ATTRWORLD
        spec.fields = lambda c: dict(fields)
        spec.plain_object = True
        specs.append(spec)
        return spec
    # ------------------------------------------------------------------ exporter
    ef = {"dictexporter": HELPER, "maxlevel": ML, "kwargs": KW}

    def exp_post(c, S1, r):
        evs = effects(c)
        if evs is None:
            return []
        cl = []
        ex = [e for e in evs if e[0] == "helper.export"]
        st = [e for e in evs if e[0] == "helper-store"]
        ok = len(ex) == 1 and len(ex[0][2]) == 1 and ex[0][2][0] is c.args["node"] and r is ex[0][4]
        cl.append(Clause("exactly-one-export-of-the-node-by-the-dict-exporter-and-its-result-is-returned", BoolVal(ok)))
        if ok:
            h = ex[0][1]
            cl.append(Clause("the-supplied-dict-exporter-if-any-else-a-default-DictExporter()",
                             given if h.t == "given-helper" else (Not(given) if h.t == "default:DictExporter" else BoolVal(False))))
            fw = ex[0][3].get((h.t, "maxlevel"))
            cl.append(Clause("maxlevel-forwarded-iff-not-None", mgiven if fw is not None and fw is ML else (Not(mgiven) if fw is None else BoolVal(False))))
            cl.append(Clause("no-other-state-of-the-dict-exporter-touched", BoolVal(all(s[2] == "maxlevel" for s in st))))
        return cl
    sp = qs(QSpec(reg, JE, "JsonExporter", "_export", "method", [("self", "obj:JsonExporter"), ("node", "ref")], lambda c: [], [
        Outcome("return", "return", exp_post, res="any", mods=())], props=P), ef)
    reg.methods[("JsonExporter", "_export")] = sp

    def dumps_post(fn_name, extra_pos):
        def post(c, S1, r):
            evs = effects(c)
            if evs is None:
                return []
            js = [e for e in evs if e[0].startswith("json.")]
            ok = len(js) == 1 and js[0][0] == "json." + fn_name
            cl = [Clause("exactly-one-call-of-json.%s" % fn_name, BoolVal(ok))]
            if ok:
                pos, stars, kws, res = js[0][1], js[0][2], js[0][3], js[0][4]
                want_pos = 1 + len(extra_pos)
                ce = [e for e in evs if e[0] == "call:_export"]
                cl.append(Clause("first-argument-is-the-dictionary-_export-produced-for-the-node",
                                 BoolVal(len(pos) == want_pos and len(ce) == 1 and pos[0] is ce[0][2] and len(ce[0][1]) == 1 and ce[0][1][0] is c.args["node"])))
                for i, nm in enumerate(extra_pos):
                    cl.append(Clause("%s-passed-through" % nm, BoolVal(len(pos) == want_pos and pos[1 + i] is c.args[nm])))
                cl.append(Clause("keyword-options-are-exactly-the-stored-kwargs", BoolVal(len(stars) == 1 and stars[0] is KW and not kws)))
                cl.append(Clause("its-result-is-returned", BoolVal(r is res)))
            return cl
        return post
    # export/write call self._export(node): its contract result is a value tagged '_export-result'
    sp_e = reg.methods[("JsonExporter", "_export")]
    sp_e.outcomes[0].value = None

    def mk_result(c):
        return None
    qs(QSpec(reg, JE, "JsonExporter", "export", "method", [("self", "obj:JsonExporter"), ("node", "ref")], lambda c: [], [
        Outcome("return", "return", dumps_post("dumps", []), res="any", mods=())], props=P), ef)
    qs(QSpec(reg, JE, "JsonExporter", "write", "method", [("self", "obj:JsonExporter"), ("node", "ref"), ("filehandle", "ref")], lambda c: [], [
        Outcome("return", "return", dumps_post("dump", ["filehandle"]), res="any", mods=())], props=P), ef)
    # ------------------------------------------------------------------ importer
    HELPER_I = V("opthelper", (given, "given-helper"))
    imf = {"dictimporter": HELPER_I, "kwargs": KW}

    def imp_post(c, S1, r):
        evs = effects(c)
        if evs is None:
            return []
        im = [e for e in evs if e[0] == "helper.import_"]
        ok = len(im) == 1 and len(im[0][2]) == 1 and im[0][2][0] is c.args["data"] and r is im[0][4]
        cl = [Clause("exactly-one-import_-of-the-data-by-the-dict-importer-and-its-result-is-returned", BoolVal(ok))]
        if ok:
            h = im[0][1]
            cl.append(Clause("the-supplied-dict-importer-if-any-else-a-default-DictImporter()",
                             given if h.t == "given-helper" else (Not(given) if h.t == "default:DictImporter" else BoolVal(False))))
        return cl
    sp = qs(QSpec(reg, JI, "JsonImporter", "__import", "method", [("self", "obj:JsonImporter"), ("data", "any")], lambda c: [], [
        Outcome("return", "return", imp_post, res="any", mods=())], props=P), imf)
    reg.methods[("JsonImporter", "_JsonImporter__import")] = sp

    def loads_post(fn_name, argname):
        def post(c, S1, r):
            evs = effects(c)
            if evs is None:
                return []
            js = [e for e in evs if e[0].startswith("json.")]
            ok = len(js) == 1 and js[0][0] == "json." + fn_name
            cl = [Clause("exactly-one-call-of-json.%s" % fn_name, BoolVal(ok))]
            if ok:
                pos, stars, kws, res = js[0][1], js[0][2], js[0][3], js[0][4]
                cl.append(Clause("parses-the-argument", BoolVal(len(pos) == 1 and pos[0] is c.args[argname])))
                cl.append(Clause("keyword-options-are-exactly-the-stored-kwargs", BoolVal(len(stars) == 1 and stars[0] is KW and not kws)))
                imp = [e for e in evs if e[0] == "call:_JsonImporter__import"]
                cl.append(Clause("the-parsed-data-goes-to-the-shared-import-and-its-tree-is-returned",
                                 BoolVal(len(imp) == 1 and len(imp[0][1]) == 1 and imp[0][1][0] is res and r is imp[0][2])))
            return cl
        return post
    qs(QSpec(reg, JI, "JsonImporter", "import_", "method", [("self", "obj:JsonImporter"), ("data", "any")], lambda c: [], [
        Outcome("return", "return", loads_post("loads", "data"), res="any", mods=())], props=P), imf)
    qs(QSpec(reg, JI, "JsonImporter", "read", "method", [("self", "obj:JsonImporter"), ("filehandle", "ref")], lambda c: [], [
        Outcome("return", "return", loads_post("load", "filehandle"), res="any", mods=())], props=P), imf)
    return reg, specs
