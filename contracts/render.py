"""Sidecar contracts for anytree/render.py (C09): _is_last, RenderTree.__iter__/__next/__item, styles.

    LP(s, j)                         the pairs (s[k], k is the last index) for k < j
    JOINSEG(flags, j, a, b)          "".join(a if f else b for f in flags[:j])
    ROWS(node, flags, level)         rows of the subtree of node (flags = 'has a following sibling' per ancestor level)
    KROWS(kids, j, flags, level)     rows of the subtrees of kids[:j]
"""
from z3 import (And, BoolVal, Concat, Const, Empty, Function, If, Implies, Int, IntVal, Length, Not, Or, StringVal, Unit)

from pyvc.core import LoopSpec, V
from pyvc.heap import B, I, NONE, R
from pyvc.heapworld import Clause, Outcome
from pyvc.seqworld import CH, QSpec, Registry, SeqR
from pyvc.textworld import (JOINSEG, SPACES, TEXTWORLD, LastPair, Row, SeqBool, SeqFn, SeqLP, SeqRow, Str, appSeq, vstr)

REL = "anytree/render.py"
P = {"C09"}
LP = Function("LP", SeqR, I, SeqLP)
ROWS = Function("ROWS", R, SeqBool, I, SeqRow)
KROWS = Function("KROWS", SeqR, I, SeqBool, I, SeqRow)


def S(x):
    return StringVal(x)


class St:
    """the renderer's fields as fixed symbols"""
    vertical, cont, end = Const("f_vertical", Str), Const("f_cont", Str), Const("f_end", Str)
    childiter = Const("f_childiter", SeqFn)
    maxgiven, maxlevel = Const("f_maxlevel_given", B), Int("f_maxlevel")
    node = Const("f_node", R)


def empty_seg():
    return SPACES(Length(St.end))


def d_LP(s, j):
    return [LP(s, 0) == Empty(SeqLP),
            Implies(And(0 <= j, j < Length(s)), LP(s, j + 1) == Concat(LP(s, j), Unit(LastPair.LastPair(s[j], j + 1 == Length(s)))))]


def lp_index(s, j, i):
    """shape of LP (lemma, proved by induction on j in SMT)"""
    return Implies(And(0 <= j, j <= Length(s)),
                   And(Length(LP(s, j)) == j, Implies(And(0 <= i, i < j), LP(s, j)[i] == LastPair.LastPair(s[i], i + 1 == Length(s)))))


def lemma_obligations():
    s = Const("ls", SeqR)
    j, i = Int("lj"), Int("li")
    return [("LEMMA:shape-of-LP/base", d_LP(s, IntVal(0))[:1], lp_index(s, IntVal(0), i)),
            ("LEMMA:shape-of-LP/step", d_LP(s, j) + [lp_index(s, j, i), 0 <= j, j < Length(s)], lp_index(s, j + 1, i))]


def d_JOINSEG(fl, j, a, b):
    return [JOINSEG(fl, 0, a, b) == S(""),
            Implies(And(0 <= j, j < Length(fl)), JOINSEG(fl, j + 1, a, b) == Concat(JOINSEG(fl, j, a, b), If(fl[j], a, b)))]


def item(node, fl):
    """C09: the root's pre and fill are empty; otherwise one segment per ancestor level, the last one being the branch"""
    n = Length(fl)
    pre = Concat(JOINSEG(fl, n - 1, St.vertical, empty_seg()), If(fl[n - 1], St.cont, St.end))
    fill = JOINSEG(fl, n, St.vertical, empty_seg())
    return If(n == 0, Row.Row(S(""), S(""), node), Row.Row(pre, fill, node))


def admit(level):
    return Or(Not(St.maxgiven), level < St.maxlevel)


def kids_of(node):
    return appSeq(St.childiter, CH(node))


def d_ROWS(node, fl, level):
    k = kids_of(node)
    below = If(And(admit(level + 1), Length(CH(node)) > 0), KROWS(k, Length(k), fl, level + 1), Empty(SeqRow))
    return [ROWS(node, fl, level) == Concat(Unit(item(node, fl)), below)]


def d_KROWS(kids, j, fl, level):
    return [KROWS(kids, 0, fl, level) == Empty(SeqRow),
            Implies(And(0 <= j, j < Length(kids)),
                    KROWS(kids, j + 1, fl, level) == Concat(KROWS(kids, j, fl, level),
                                                            ROWS(kids[j], Concat(fl, Unit(Not(j + 1 == Length(kids)))), level)))]


def build():
    reg = Registry()
    reg.bases["RenderTree"] = None
    specs = []

    def fields(c):
        return {"node": V("ref", St.node), "style": V("obj", "style0", "AbstractStyle"), "childiter": V("seqfn", St.childiter),
                "maxlevel": V("optint", (St.maxgiven, St.maxlevel))}

    def style_fields():
        return {"vertical": vstr(St.vertical), "cont": vstr(St.cont), "end": vstr(St.end), "empty": vstr(empty_seg())}

    def qs(spec):
        spec.world = TEXTWORLD
        spec.fields = fields
        spec.init_extra = lambda c: {"objs_extra": {"style0": style_fields()}}
        specs.append(spec)
        return spec

    class _W:
        pass
    # ------------------------------------------------------------------ _is_last
    def il_pos(L):
        g = L.v["iter_"]
        return L.extra["gens"][g.t][1]

    def il_inv(L):
        s = L.fn.iterable
        pos = il_pos(L)
        return [("position", And(1 <= pos, pos <= Length(s))),
                ("iterates-the-argument", L.extra["gens"][L.v["iter_"].t][0] == s),
                ("current-item", And(L.t("item") == s[pos - 1], L.t("nextitem") == s[pos - 1])),
                ("yielded-so-far", L.out == LP(s, pos - 1))]
    sp = qs(QSpec(reg, REL, None, "_is_last", "function", [("iterable", "qseq")], lambda c: [], [
        Outcome("return", "return", lambda c, S1, r: [], res="gen", mods=(), value=lambda c: LP(c.iterable, Length(c.iterable)))],
        loops={0: LoopSpec(il_inv, hints=lambda L: d_LP(L.fn.iterable, il_pos(L) - 1) + d_LP(L.fn.iterable, il_pos(L)))},
        generator=True, yields="lastpairs", props=P, hints=lambda c: d_LP(c.iterable, IntVal(0))))
    reg.functions["_is_last"] = sp

    # ------------------------------------------------------------------ RenderTree.__item
    def item_init(c):
        return {}
    sp = QSpec(reg, REL, "RenderTree", "__item", "static", [("node", "ref"), ("continues", "bseq"), ("style", "obj:AbstractStyle")],
               lambda c: [], [Outcome("return", "return", lambda c, S1, r: [
                   Clause("row-of-the-node", r.t == item(c.node, c.continues) if r.k == "row" else BoolVal(False))], res="row", mods=(),
                   value=lambda c: item(c.node, c.continues))], props=P)
    sp.world = TEXTWORLD
    sp.fields = lambda c: {}
    sp.init_extra = lambda c: {"objs_extra": {"style": style_fields()}}
    specs.append(sp)
    reg.statics[("RenderTree", "_RenderTree__item")] = sp

    # ------------------------------------------------------------------ RenderTree.__next (recursive generator) / __iter__
    def nx_inv(L):
        c = L.fn
        k = kids_of(c.node)
        return [("rows-so-far", L.out == Concat(L.out_pre, KROWS(k, L.i, c.continues, c.level + 1)))]

    def nx_hints(L):
        c = L.fn
        k = kids_of(c.node)
        return d_KROWS(k, L.i, c.continues, c.level + 1) + [lp_index(k, Length(k), L.i)]
    sp = qs(QSpec(reg, REL, "RenderTree", "__next", "method", [("self", "obj:RenderTree"), ("node", "ref"), ("continues", "bseq"), ("level", "int")],
                  lambda c: [Clause("maxlevel-None-is-canonical", Implies(Not(St.maxgiven), St.maxlevel == 0))], [
        Outcome("return", "return", lambda c, S1, r: [], res="gen", mods=(), value=lambda c: ROWS(c.node, c.continues, c.level))],
        loops={0: LoopSpec(nx_inv, hints=nx_hints)}, generator=True, yields="rows", props=P, defaults={"level": V("int", IntVal(0))},
        hints=lambda c: d_ROWS(c.node, c.continues, c.level) + d_KROWS(kids_of(c.node), IntVal(0), c.continues, c.level + 1)[:1]))
    reg.methods[("RenderTree", "_RenderTree__next")] = sp
    sp = qs(QSpec(reg, REL, "RenderTree", "__iter__", "method", [("self", "obj:RenderTree")], lambda c: [
        Clause("maxlevel-None-is-canonical", Implies(Not(St.maxgiven), St.maxlevel == 0))], [
        Outcome("return", "return", lambda c, S1, r: [], res="gen", mods=(),
                value=lambda c: ROWS(St.node, Empty(SeqBool), IntVal(0)))], props=P))
    return reg, specs
