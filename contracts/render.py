"""Sidecar contracts for anytree/render.py (C09): _is_last, RenderTree.__iter__/__next/__item, styles.

    LP(s, j)                         the pairs (s[k], k is the last index) for k < j
    JOINSEG(flags, j, a, b)          "".join(a if f else b for f in flags[:j])
    ROWS(node, flags, level)         rows of the subtree of node (flags = 'has a following sibling' per ancestor level)
    KROWS(kids, j, flags, level)     rows of the subtrees of kids[:j]
"""
from z3 import (And, BoolVal, Concat, Const, Empty, Function, If, Implies, Int, IntVal, Length, Not, Or, StringVal, Unit)  # noqa

from pyvc.core import LoopSpec, V
from pyvc.heap import B, I, NONE, R
from pyvc.heapworld import Clause, Outcome
from pyvc.seqworld import CH, QSpec, Registry, SeqR
from pyvc.textworld import (ATTR, HAS, JOIN, OFNODE, OFSTR, REPR, UFn, appU, ELEMS, ISLIST, JOINSEG, SPACES, SPLITLINES, STR, TEXTWORLD, U, LastPair, Row, SeqBool, SeqFn, SeqLP, SeqRow,
                            SeqStr, SeqU, Str, appSeq, vstr)

REL = "anytree/render.py"
P = {"C09"}
LP = Function("LP", SeqR, I, SeqLP)
ROWS = Function("ROWS", R, SeqBool, I, SeqRow)
KROWS = Function("KROWS", SeqR, I, SeqBool, I, SeqRow)


def S(x):
    return StringVal(x)


class St:
    """the renderer's fields as fixed symbols"""
    vertical, cont, end = Const("f_vertical", Str), Const("f_cont", Str), Const("f_end", Str)
    childiter = Const("f_childiter", SeqFn)
    maxgiven, maxlevel = Const("f_maxlevel_given", B), Int("f_maxlevel")
    node = Const("f_node", R)


def empty_seg():
    return SPACES(Length(St.end))


def d_LP(s, j):
    return [LP(s, 0) == Empty(SeqLP),
            Implies(And(0 <= j, j < Length(s)), LP(s, j + 1) == Concat(LP(s, j), Unit(LastPair.LastPair(s[j], j + 1 == Length(s)))))]


def lp_index(s, j, i):
    """shape of LP (lemma, proved by induction on j in SMT)"""
    return Implies(And(0 <= j, j <= Length(s)),
                   And(Length(LP(s, j)) == j, Implies(And(0 <= i, i < j), LP(s, j)[i] == LastPair.LastPair(s[i], i + 1 == Length(s)))))


def lemma_obligations():
    s = Const("ls", SeqR)
    j, i = Int("lj"), Int("li")
    return [("LEMMA:shape-of-LP/base", d_LP(s, IntVal(0))[:1], lp_index(s, IntVal(0), i)),
            ("LEMMA:shape-of-LP/step", d_LP(s, j) + [lp_index(s, j, i), 0 <= j, j < Length(s)], lp_index(s, j + 1, i))]


def d_JOINSEG(fl, j, a, b):
    return [JOINSEG(fl, 0, a, b) == S(""),
            Implies(And(0 <= j, j < Length(fl)), JOINSEG(fl, j + 1, a, b) == Concat(JOINSEG(fl, j, a, b), If(fl[j], a, b)))]


def item(node, fl):
    """C09: the root's pre and fill are empty; otherwise one segment per ancestor level, the last one being the branch"""
    n = Length(fl)
    pre = Concat(JOINSEG(fl, n - 1, St.vertical, empty_seg()), If(fl[n - 1], St.cont, St.end))
    fill = JOINSEG(fl, n, St.vertical, empty_seg())
    return If(n == 0, Row.Row(S(""), S(""), node), Row.Row(pre, fill, node))


def admit(level):
    return Or(Not(St.maxgiven), level < St.maxlevel)


def kids_of(node):
    return appSeq(St.childiter, CH(node))


def d_ROWS(node, fl, level):
    k = kids_of(node)
    below = If(And(admit(level + 1), Length(CH(node)) > 0), KROWS(k, Length(k), fl, level + 1), Empty(SeqRow))
    return [ROWS(node, fl, level) == Concat(Unit(item(node, fl)), below)]


def d_KROWS(kids, j, fl, level):
    return [KROWS(kids, 0, fl, level) == Empty(SeqRow),
            Implies(And(0 <= j, j < Length(kids)),
                    KROWS(kids, j + 1, fl, level) == Concat(KROWS(kids, j, fl, level),
                                                            ROWS(kids[j], Concat(fl, Unit(Not(j + 1 == Length(kids)))), level)))]


# ---------------------------------------------------------------------------------------------------------------- text layout
# "pre + first line of the value and fill + each further line (an empty value still produces one line)"
MAPSTR = Function("MAPSTR", SeqU, SeqStr)         # str() of every element
LINESOF = Function("LINESOF", Str, SeqStr)        # the lines of a text; one empty line if there are none
LINES = Function("LINES", U, SeqStr)              # the lines a value is printed as: its elements if it is a list / tuple, else str(value)'s
FILL = Function("FILL", Str, SeqStr, I, SeqStr)   # fill + line k for 1 <= k < j
ONE_EMPTY = Unit(StringVal(""))


def d_MAPSTR(s, j):
    return [Length(MAPSTR(s)) == Length(s), Implies(And(0 <= j, j < Length(s)), MAPSTR(s)[j] == STR(s[j]))]


def d_LINESOF(t):
    return [LINESOF(t) == If(Length(SPLITLINES(t)) > 0, SPLITLINES(t), ONE_EMPTY)]


def d_LINES(u):
    return [LINES(u) == If(ISLIST(u), If(Length(ELEMS(u)) > 0, MAPSTR(ELEMS(u)), ONE_EMPTY), LINESOF(STR(u)))] + d_LINESOF(STR(u))


def d_FILL(fill, ls, j):
    return [FILL(fill, ls, 1) == Empty(SeqStr),
            Implies(And(1 <= j, j < Length(ls)), FILL(fill, ls, j + 1) == Concat(FILL(fill, ls, j), Unit(Concat(fill, ls[j]))))]


def fmt_row(pre, fill, ls):
    """the printed lines of one row"""
    return Concat(Unit(Concat(pre, ls[0])), FILL(fill, ls, Length(ls)))


STRROWS = Function("STRROWS", SeqRow, I, SeqStr)                  # printed lines of rows[:j], each node by its repr
BYROWS = Function("BYROWS", SeqRow, B, UFn, Str, I, SeqStr)       # printed lines of rows[:j], each node by the selected attribute


def selected(node, isfn, fn, nm):
    """the value by_attr prints for a node: selector(node) if the selector is callable, else getattr(node, selector, "")"""
    return If(isfn, appU(fn, node), If(HAS(node, OFSTR(nm)), ATTR(node, OFSTR(nm)), OFSTR(StringVal(""))))


def d_STRROWS(rows, j):
    r = rows[j]
    return [STRROWS(rows, 0) == Empty(SeqStr),
            Implies(And(0 <= j, j < Length(rows)),
                    STRROWS(rows, j + 1) == Concat(STRROWS(rows, j), fmt_row(Row.pre(r), Row.fill(r), LINESOF(REPR(OFNODE(Row.node(r)))))))]


def d_BYROWS(rows, isfn, fn, nm, j):
    r = rows[j]
    return [BYROWS(rows, isfn, fn, nm, 0) == Empty(SeqStr),
            Implies(And(0 <= j, j < Length(rows)),
                    BYROWS(rows, isfn, fn, nm, j + 1) == Concat(BYROWS(rows, isfn, fn, nm, j),
                                                               fmt_row(Row.pre(r), Row.fill(r), LINES(selected(Row.node(r), isfn, fn, nm)))))]


def build():
    reg = Registry()
    reg.bases["RenderTree"] = None
    specs = []

    def fields(c):
        return {"node": V("ref", St.node), "style": V("obj", "style0", "AbstractStyle"), "childiter": V("seqfn", St.childiter),
                "maxlevel": V("optint", (St.maxgiven, St.maxlevel))}

    def style_fields():
        return {"vertical": vstr(St.vertical), "cont": vstr(St.cont), "end": vstr(St.end), "empty": vstr(empty_seg())}

    def qs(spec):
        spec.world = TEXTWORLD
        spec.fields = fields
        spec.init_extra = lambda c: {"objs_extra": {"style0": style_fields()}}
        specs.append(spec)
        return spec

    class _W:
        pass
    # ------------------------------------------------------------------ _is_last
    def il_pos(L):
        g = L.v["iter_"]
        return L.extra["gens"][g.t][1]

    def il_inv(L):
        s = L.fn.iterable
        pos = il_pos(L)
        return [("position", And(1 <= pos, pos <= Length(s))),
                ("iterates-the-argument", L.extra["gens"][L.v["iter_"].t][0] == s),
                ("current-item", And(L.t("item") == s[pos - 1], L.t("nextitem") == s[pos - 1])),
                ("yielded-so-far", L.out == LP(s, pos - 1))]
    sp = qs(QSpec(reg, REL, None, "_is_last", "function", [("iterable", "qseq")], lambda c: [], [
        Outcome("return", "return", lambda c, S1, r: [], res="gen", mods=(), value=lambda c: LP(c.iterable, Length(c.iterable)))],
        loops={0: LoopSpec(il_inv, hints=lambda L: d_LP(L.fn.iterable, il_pos(L) - 1) + d_LP(L.fn.iterable, il_pos(L)))},
        generator=True, yields="lastpairs", props=P, hints=lambda c: d_LP(c.iterable, IntVal(0))))
    reg.functions["_is_last"] = sp

    # ------------------------------------------------------------------ _format_row_any (text layout of one row)
    def fr_lines(c):
        return LINES(c.attr)

    def fr_inv(L):
        c = L.fn
        return [("printed-so-far", L.out == Concat(Unit(Concat(Row.pre(c.row), fr_lines(c)[0])), FILL(Row.fill(c.row), fr_lines(c), 1 + L.i)))]

    def fr_hints(L):
        c = L.fn
        u = c.attr
        return (d_FILL(Row.fill(c.row), fr_lines(c), 1 + L.i) + d_LINES(u) + d_MAPSTR(ELEMS(u), 1 + L.i) + d_MAPSTR(ELEMS(u), IntVal(0)))
    sp = qs(QSpec(reg, REL, None, "_format_row_any", "function", [("row", "row"), ("attr", "any")], lambda c: [], [
        Outcome("return", "return", lambda c, S1, r: [], res="gen", mods=(),
                value=lambda c: fmt_row(Row.pre(c.row), Row.fill(c.row), fr_lines(c)))],
        loops={0: LoopSpec(fr_inv, hints=fr_hints)}, generator=True, yields="str", props=P,
        hints=lambda c: d_LINES(c.attr) + d_MAPSTR(ELEMS(c.attr), IntVal(0)) + d_FILL(Row.fill(c.row), fr_lines(c), IntVal(1))[:1]))
    reg.functions["_format_row_any"] = sp

    # ------------------------------------------------------------------ RenderTree.__item
    def item_init(c):
        return {}
    sp = QSpec(reg, REL, "RenderTree", "__item", "static", [("node", "ref"), ("continues", "bseq"), ("style", "obj:AbstractStyle")],
               lambda c: [], [Outcome("return", "return", lambda c, S1, r: [
                   Clause("row-of-the-node", r.t == item(c.node, c.continues) if r.k == "row" else BoolVal(False))], res="row", mods=(),
                   value=lambda c: item(c.node, c.continues))], props=P)
    sp.world = TEXTWORLD
    sp.fields = lambda c: {}
    sp.init_extra = lambda c: {"objs_extra": {"style": style_fields()}}
    specs.append(sp)
    reg.statics[("RenderTree", "_RenderTree__item")] = sp

    # ------------------------------------------------------------------ RenderTree.__next (recursive generator) / __iter__
    def nx_inv(L):
        c = L.fn
        k = kids_of(c.node)
        return [("rows-so-far", L.out == Concat(L.out_pre, KROWS(k, L.i, c.continues, c.level + 1)))]

    def nx_hints(L):
        c = L.fn
        k = kids_of(c.node)
        return d_KROWS(k, L.i, c.continues, c.level + 1) + [lp_index(k, Length(k), L.i)]
    sp = qs(QSpec(reg, REL, "RenderTree", "__next", "method", [("self", "obj:RenderTree"), ("node", "ref"), ("continues", "bseq"), ("level", "int")],
                  lambda c: [Clause("maxlevel-None-is-canonical", Implies(Not(St.maxgiven), St.maxlevel == 0))], [
        Outcome("return", "return", lambda c, S1, r: [], res="gen", mods=(), value=lambda c: ROWS(c.node, c.continues, c.level))],
        loops={0: LoopSpec(nx_inv, hints=nx_hints)}, generator=True, yields="rows", props=P, defaults={"level": V("int", IntVal(0))},
        hints=lambda c: d_ROWS(c.node, c.continues, c.level) + d_KROWS(kids_of(c.node), IntVal(0), c.continues, c.level + 1)[:1]))
    reg.methods[("RenderTree", "_RenderTree__next")] = sp
    sp = qs(QSpec(reg, REL, "RenderTree", "__iter__", "method", [("self", "obj:RenderTree")], lambda c: [
        Clause("maxlevel-None-is-canonical", Implies(Not(St.maxgiven), St.maxlevel == 0))], [
        Outcome("return", "return", lambda c, S1, r: [], res="gen", mods=(),
                value=lambda c: ROWS(St.node, Empty(SeqBool), IntVal(0)))], props=P))
    reg.methods[("RenderTree", "__iter__")] = sp
    # ------------------------------------------------------------------ __str__ / by_attr: the text
    all_rows = ROWS(St.node, Empty(SeqBool), IntVal(0))
    canon = lambda c: [Clause("maxlevel-None-is-canonical", Implies(Not(St.maxgiven), St.maxlevel == 0))]

    def st_outer(L):
        return [("printed-so-far", L.out == STRROWS(all_rows, L.i))]

    def st_outer_hints(L):
        return d_STRROWS(all_rows, L.i) + d_LINESOF(REPR(OFNODE(Row.node(all_rows[L.i])))) + d_FILL(Row.fill(all_rows[L.i]),
                                                                                                   LINESOF(REPR(OFNODE(Row.node(all_rows[L.i])))), IntVal(1))[:1]

    def st_inner(L):
        i = L.extra["wit0"]
        r = all_rows[i]
        ls = LINESOF(REPR(OFNODE(Row.node(r))))
        return [("printed-so-far", L.out == Concat(STRROWS(all_rows, i), Unit(Concat(Row.pre(r), ls[0])), FILL(Row.fill(r), ls, 1 + L.i)))]

    def st_inner_hints(L):
        i = L.extra["wit0"]
        r = all_rows[i]
        ls = LINESOF(REPR(OFNODE(Row.node(r))))
        return d_FILL(Row.fill(r), ls, 1 + L.i) + d_LINESOF(REPR(OFNODE(Row.node(r)))) + d_STRROWS(all_rows, i)
    qs(QSpec(reg, REL, "RenderTree", "__str__", "method", [("self", "obj:RenderTree")], canon, [
        Outcome("return", "return", lambda c, S1, r: [], res="str", mods=(),
                value=lambda c: JOIN(StringVal("\n"), STRROWS(all_rows, Length(all_rows))))],
        loops={0: LoopSpec(st_outer, hints=st_outer_hints), 1: LoopSpec(st_inner, hints=st_inner_hints)}, props=P,
        hints=lambda c: d_STRROWS(all_rows, IntVal(0))[:1]))

    def by_inv(L):
        c = L.fn
        isfn, fn, nm = c.attrname
        return [("printed-so-far", L.out == BYROWS(all_rows, isfn, fn, nm, L.i))]

    def by_hints(L):
        c = L.fn
        isfn, fn, nm = c.attrname
        return d_BYROWS(all_rows, isfn, fn, nm, L.i)
    qs(QSpec(reg, REL, "RenderTree", "by_attr", "method", [("self", "obj:RenderTree"), ("attrname", "selector")], canon, [
        Outcome("return", "return", lambda c, S1, r: [], res="str", mods=(),
                value=lambda c: JOIN(StringVal("\n"), BYROWS(all_rows, c.attrname[0], c.attrname[1], c.attrname[2], Length(all_rows))))],
        loops={0: LoopSpec(by_inv, hints=by_hints), 1: LoopSpec(by_inv, hints=by_hints)}, props=P,
        hints=lambda c: d_BYROWS(all_rows, c.attrname[0], c.attrname[1], c.attrname[2], IntVal(0))[:1]))
    return reg, specs
