"""Sidecar contracts for the node mixins (NodeMixin / LightNodeMixin), instantiated once per family.

Top-level postconditions are transcribed from the property statements (C01, C02, C03, C04, C16); helper
contracts (private functions, loop invariants, ghost updates) are derived from the code and its call sites.
"""
from z3 import (And, BoolVal, Const, Consts, Exists, ForAll, Function, If, Implies, Int, IntVal, Not, Or, Store)

from pyvc.core import LoopSpec, V
from pyvc.heap import (B, I, NONE, R, ASeq, WF, alloc_mono, ch_equal_except, fresh, ghost_equal, isl, isn, log_equal,
                       par_equal, view_equal, wf)
from pyvc.heapworld import HOOK_ID, Clause, Family, Outcome, Spec, iterable, itat, itlen, seqobj

x, y, a, b = Consts("x y a b", R)
i, j = Int("i"), Int("j")

hgt = Function("hgt", R, I)        # spec function HEIGHT over the view (see height())
from pyvc.heap import IA
LOGPOS = Function("LOGPOS", I, IA, I, I, I)   # LOGPOS(base, xs, |xs|, j): hook-log length after attaching xs[:j] (2 or 4 events per child)
ANC = Function("ANC", R, IA)       # spec function: ANC(x)[j] = the ancestor of x at depth j (0 <= j < depth(x))


def HGT_AX(S):
    """defining (recursive) characterisation of HEIGHT over the view of S; such a function exists in every finite
    forest (lemma L6, Lean) - assumed as a precondition by the functions that compute heights"""
    return [
        Clause("hgt/nonneg", ForAll([x], Implies(isn(x), hgt(x) >= 0))),
        Clause("hgt/leaf", ForAll([x], Implies(And(isn(x), S.cl(x) == 0), hgt(x) == 0))),
        Clause("hgt/above-children", ForAll([x, i], Implies(And(isn(x), 0 <= i, i < S.cl(x)), hgt(x) >= hgt(S.ca(x, i)) + 1))),
        Clause("hgt/attained", ForAll([x], Implies(And(isn(x), S.cl(x) > 0),
                                                   Exists([i], And(0 <= i, i < S.cl(x), hgt(x) == hgt(S.ca(x, i)) + 1))))),
    ]


def ANC_AX(S):
    return [Clause("anc/def", ForAll([x, j], Implies(And(isn(x), 0 <= j, j < S.d(x)),
                                                     And(isn(ANC(x)[j]), S.A(ANC(x)[j], x), S.d(ANC(x)[j]) == j))))]


def seqv(v):
    if v.k == "aseq":
        return v.t
    if v.k == "iterseq":
        return v.x
    raise TypeError(v)


def WFc(S, props=("C01",)):
    return [Clause("WF/" + n, f, props) for n, f in WF(S)]


def raw_equal(S1, S0):
    return And(S1.hasP == S0.hasP, S1.hasC == S0.hasC, S1.P == S0.P, S1.C == S0.C, S1.Llen == S0.Llen,
               S1.Lat == S0.Lat, S1.alloc == S0.alloc)


def in_range(k, n):
    return And(0 <= k, k < n)


# ------------------------------------------------------------------ ghost updates (DESIGN 2.4), as macros
def A_detach(A0, n, q):
    return lambda a_, x_: And(A0(a_, x_), Not(And(q != NONE, A0(a_, q), A0(n, x_))))


def d_detach(A0, d0, n, q):
    return lambda x_: If(And(q != NONE, A0(n, x_)), d0(x_) - d0(n), d0(x_))


def idx_detach(S0, n, q):
    return lambda x_: If(And(q != NONE, S0.par(x_) == q, S0.idx(x_) > S0.idx(n)), S0.idx(x_) - 1, S0.idx(x_))


def A_attach(A0, n, p):
    return lambda a_, x_: Or(A0(a_, x_), And(p != NONE, A0(a_, p), A0(n, x_)))


def d_attach(A0, d0, n, p):
    return lambda x_: If(And(p != NONE, A0(n, x_)), d0(x_) + d0(p) + 1, d0(x_))


def idx_attach(idx0, cl_p, n, p):
    return lambda x_: If(And(p != NONE, x_ == n), cl_p, idx0(x_))


def ghost_is(S1, A_, d_, idx_, pfx="ghost"):
    return [Clause(pfx + "/A", ForAll([a, x], S1.A(a, x) == A_(a, x))),
            Clause(pfx + "/d", ForAll([x], S1.d(x) == d_(x))),
            Clause(pfx + "/idx", ForAll([x], S1.idx(x) == idx_(x)))]


# ------------------------------------------------------------------ hook log
def log_is(S1, S0, events, props=("C16",)):
    """log' = log ++ [events whose condition holds], events = [(cond, hook, receiver, argument)];
    stated as array equations (quantifier-free), so that composing two contracts is plain rewriting"""
    pos, lk, lr, la = S0.loglen, S0.logk, S0.logr, S0.loga
    for cond, hook, recv, arg in events:
        lk = If(cond, Store(lk, pos, HOOK_ID[hook]), lk)
        lr = If(cond, Store(lr, pos, recv), lr)
        la = If(cond, Store(la, pos, arg), la)
        pos = pos + If(cond, 1, 0)
    names = "+".join(h for _, h, _, _ in events) or "nothing"
    return [Clause("log/exactly:" + names, And(S1.loglen == pos, S1.logk == lk, S1.logr == lr, S1.loga == la), props)]


def unchanged(S1, S0, props):
    return [Clause("unchanged/parents", par_equal(S1, S0), props),
            Clause("unchanged/children", ch_equal_except(S1, S0), props)]


# ------------------------------------------------------------------ complete post-states
def detached_state(S1, S0, n, q, props=("C02",)):
    """n (child of q != None at position idx(n)) has been detached; everything else untouched"""
    k0 = S0.idx(n)
    return [
        Clause("detach/node-is-root", S1.par(n) == NONE, props),
        Clause("detach/old-parent-len", S1.cl(q) == S0.cl(q) - 1, props),
        Clause("detach/old-parent-others-keep-order",
               ForAll([i], Implies(in_range(i, S1.cl(q)), S1.ca(q, i) == If(i < k0, S0.ca(q, i), S0.ca(q, i + 1)))), props),
        Clause("detach/other-parents", ForAll([x], Implies(And(isn(x), x != n), S1.par(x) == S0.par(x))), props),
        Clause("detach/other-children", ch_equal_except(S1, S0, [q]), props),
    ]


def attached_state(S1, S0, n, p, props=("C02",)):
    """n (a root) has been appended as the last child of p != None; everything else untouched"""
    return [
        Clause("attach/parent-set", S1.par(n) == p, props),
        Clause("attach/new-parent-len", S1.cl(p) == S0.cl(p) + 1, props),
        Clause("attach/appended-last", S1.ca(p, S0.cl(p)) == n, props),
        Clause("attach/new-parent-others-keep-order",
               ForAll([i], Implies(in_range(i, S0.cl(p)), S1.ca(p, i) == S0.ca(p, i))), props),
        Clause("attach/other-parents", ForAll([x], Implies(And(isn(x), x != n), S1.par(x) == S0.par(x))), props),
        Clause("attach/other-children", ch_equal_except(S1, S0, [p]), props),
    ]


def moved_state(S1, S0, n, q, v, props=("C02",)):
    """C02: n moved from q (may be None) to v (may be None), q is not v"""
    k0 = S0.idx(n)
    return [
        Clause("move/parent-set", S1.par(n) == v, props),
        Clause("move/other-parents", ForAll([x], Implies(And(isn(x), x != n), S1.par(x) == S0.par(x))), props),
        Clause("move/old-parent-len", Implies(q != NONE, S1.cl(q) == S0.cl(q) - 1), props),
        Clause("move/old-parent-others-keep-order",
               Implies(q != NONE, ForAll([i], Implies(in_range(i, S1.cl(q)),
                                                      S1.ca(q, i) == If(i < k0, S0.ca(q, i), S0.ca(q, i + 1))))), props),
        Clause("move/new-parent-len", Implies(v != NONE, S1.cl(v) == S0.cl(v) + 1), props),
        Clause("move/appended-last", Implies(v != NONE, S1.ca(v, S0.cl(v)) == n), props),
        Clause("move/new-parent-others-keep-order",
               Implies(v != NONE, ForAll([i], Implies(in_range(i, S0.cl(v)), S1.ca(v, i) == S0.ca(v, i)))), props),
        Clause("move/other-children", ch_equal_except(S1, S0, [q, v]), props),
    ]


def moved_ghost(S1, S0, n, q, v):
    Am = A_detach(S0.A, n, q)
    dm = d_detach(S0.A, S0.d, n, q)
    im = idx_detach(S0, n, q)
    return ghost_is(S1, A_attach(Am, n, v), d_attach(Am, dm, n, v), idx_attach(im, S0.cl(v), n, v))


def build(fam):
    PA, CA = fam.attr("__parent"), fam.attr("__children")
    CoE = fam.attr("__children_or_empty")

    def base_req(c):
        return WFc(c.S0) + [Clause("self-is-node", isn(c.self))]

    # ------------------------------------------------------------------ parent getter (pure)
    fam.add(Spec(fam, "parent", "getter", [("self", "ref")], base_req, [
        Outcome("return", "return", lambda c, S1, r: [Clause("is-parent-link", r.t == c.S0.par(c.self), {"C04"})],
                res="ref", mods=()),
    ], props={"C04", "C01"}))

    # ------------------------------------------------------------------ __children_or_empty (raw level)
    def coe_post(c, S1, r):
        S0, n, l = c.S0, c.self, r.t
        return [
            Clause("has-list", And(S1.hasC[n], l == S1.C[n], isl(l), S1.alloc[l], l != NONE)),
            Clause("present-nothing-changes", Implies(S0.hasC[n], raw_equal(S1, S0))),
            Clause("absent-fresh-empty-list", Implies(Not(S0.hasC[n]), And(
                Not(S0.alloc[l]), S1.C == Store(S0.C, n, l), S1.hasC == Store(S0.hasC, n, True),
                S1.Llen == Store(S0.Llen, l, 0), S1.alloc == Store(S0.alloc, l, True)))),
            Clause("length-is-view-length", S1.Llen[l] == S0.cl(n)),
        ] + unchanged(S1, S0, {"C01"}) + WFc(S1) + [Clause("alloc-mono", alloc_mono(S1, S0))]
    fam.add(Spec(fam, CoE, "getter", [("self", "ref")], base_req, [
        Outcome("return", "return", coe_post, res="listref", mods=("hasC", "C", "Llen", "alloc")),
    ], props={"C01"}))

    # ------------------------------------------------------------------ children getter
    def children_post(c, S1, r):
        S0, n, s = c.S0, c.self, seqv(r)
        return [
            Clause("length", s.n == S0.cl(n), {"C04"}),
            Clause("elements", ForAll([i], Implies(in_range(i, s.n), s.a[i] == S0.ca(n, i))), {"C04"}),
        ] + unchanged(S1, S0, {"C01"}) + WFc(S1) + [Clause("alloc-mono", alloc_mono(S1, S0))]
    fam.add(Spec(fam, "children", "getter", [("self", "ref")], base_req, [
        Outcome("return", "return", children_post, res="aseq", mods=("hasC", "C", "Llen", "alloc")),
    ], props={"C01", "C04"}))

    # ------------------------------------------------------------------ iter_path_reverse (generator)
    def ipr_inv(L):
        S0, n = L.fn.S0, L.fn.self
        k, out, node = L.i, L.out, L.t("node")
        return [
            ("out-len", And(out.n == k, k >= 0, k <= S0.d(n) + 1)),
            ("out-elems", ForAll([j], Implies(in_range(j, k), And(isn(out.a[j]), S0.A(out.a[j], n),
                                                                 S0.d(out.a[j]) == S0.d(n) - j)))),
            ("node", Or(And(node == NONE, k == S0.d(n) + 1),
                        And(isn(node), S0.A(node, n), S0.d(node) == S0.d(n) - k))),
        ]

    def ipr_post(c, S1, r):
        S0, n, s = c.S0, c.self, seqv(r)
        return [
            Clause("length-is-depth+1", s.n == S0.d(n) + 1, {"C04"}),
            Clause("elements-are-the-ancestors-by-depth",
                   ForAll([j], Implies(in_range(j, s.n), And(isn(s.a[j]), S0.A(s.a[j], n), S0.d(s.a[j]) == S0.d(n) - j))),
                   {"C04"}),
            Clause("starts-at-self", s.a[0] == n, {"C04"}),
            Clause("each-next-is-the-parent", ForAll([j], Implies(in_range(j, s.n - 1), s.a[j + 1] == S0.par(s.a[j]))),
                   {"C04"}),
            Clause("ends-at-a-root", S0.par(s.a[s.n - 1]) == NONE, {"C04"}),
            Clause("every-ancestor-listed", ForAll([x], Implies(S0.A(x, n), s.a[S0.d(n) - S0.d(x)] == x)), {"C04"}),
            Clause("later-elements-are-ancestors-of-earlier-ones",
                   ForAll([i, j], Implies(And(0 <= i, i <= j, j < s.n), S0.A(s.a[j], s.a[i]))), {"C04"}),
        ]
    fam.add(Spec(fam, "iter_path_reverse", "method", [("self", "ref")], base_req, [
        Outcome("return", "return", ipr_post, res="iterseq", mods=()),
    ], loops={0: LoopSpec(ipr_inv, mods=())}, generator=True, props={"C04"}))

    # ------------------------------------------------------------------ navigation attributes (C04)
    def path_post(c, S1, r):
        S0, n, s = c.S0, c.self, seqv(r)
        return [
            Clause("length-is-depth+1", s.n == S0.d(n) + 1, {"C04"}),
            Clause("element-j-is-the-ancestor-or-self-at-depth-j",
                   ForAll([j], Implies(in_range(j, s.n), And(isn(s.a[j]), S0.A(s.a[j], n), S0.d(s.a[j]) == j))), {"C04"}),
            Clause("starts-at-a-root", S0.par(s.a[0]) == NONE, {"C04"}),
            Clause("each-is-the-parent-of-the-next", ForAll([j], Implies(in_range(j, s.n - 1), S0.par(s.a[j + 1]) == s.a[j])), {"C04"}),
            Clause("ends-at-self", s.a[s.n - 1] == n, {"C04"}),
            Clause("earlier-elements-are-ancestors-of-later-ones",
                   ForAll([i, j], Implies(And(0 <= i, i <= j, j < s.n), S0.A(s.a[i], s.a[j]))), {"C04"}),
        ]
    for nm in ("_path", "path"):
        fam.add(Spec(fam, nm, "getter", [("self", "ref")], base_req, [
            Outcome("return", "return", path_post, res="aseq", mods=())], props={"C04"}))

    def anc_req(c):
        return base_req(c) + ANC_AX(c.S0)

    def anc_post(c, S1, r):
        S0, n, s = c.S0, c.self, seqv(r)
        return [
            Clause("length-is-depth", s.n == S0.d(n), {"C04"}),
            Clause("is-path-without-the-node",
                   ForAll([j], Implies(in_range(j, s.n), And(isn(s.a[j]), S0.A(s.a[j], n), s.a[j] != n, S0.d(s.a[j]) == j))), {"C04"}),
        ]
    fam.add(Spec(fam, "ancestors", "getter", [("self", "ref")], anc_req, [
        Outcome("return", "return", anc_post, res="aseq", mods=(), value=lambda c: ASeq(c.S0.d(c.self), ANC(c.self)))],
        props={"C04"}))

    def root_inv(L):
        S0, n, node = L.fn.S0, L.fn.self, L.t("node")
        return [("node-is-ancestor-or-self", And(isn(node), S0.A(node, n)))]
    fam.add(Spec(fam, "root", "getter", [("self", "ref")], base_req, [
        Outcome("return", "return", lambda c, S1, r: [
            Clause("is-the-parentless-ancestor-or-self (= path[0])", And(isn(r.t), c.S0.A(r.t, c.self), c.S0.par(r.t) == NONE,
                                                                         c.S0.d(r.t) == 0), {"C04"})],
                res="ref", mods=())], loops={0: LoopSpec(root_inv, mods=())}, props={"C04"}))

    def sib_post(c, S1, r):
        S0, n, s = c.S0, c.self, seqv(r)
        q, k0 = S0.par(n), S0.idx(n)
        return [
            Clause("root-has-no-siblings", Implies(q == NONE, s.n == 0), {"C04"}),
            Clause("one-less-than-the-parents-children", Implies(q != NONE, s.n == S0.cl(q) - 1), {"C04"}),
            Clause("the-parents-other-children-in-order",
                   Implies(q != NONE, ForAll([i], Implies(in_range(i, s.n), s.a[i] == If(i < k0, S0.ca(q, i), S0.ca(q, i + 1))))), {"C04"}),
        ] + unchanged(S1, S0, {"C04"}) + WFc(S1) + [Clause("alloc-mono", alloc_mono(S1, S0))]
    fam.add(Spec(fam, "siblings", "getter", [("self", "ref")], base_req, [
        Outcome("return", "return", sib_post, res="aseq", mods=("hasC", "C", "Llen", "alloc"))], props={"C04"}))

    def viewpure_post(c, S1):
        return unchanged(S1, c.S0, {"C04"}) + WFc(S1) + [Clause("alloc-mono", alloc_mono(S1, c.S0))]
    fam.add(Spec(fam, "is_leaf", "getter", [("self", "ref")], base_req, [
        Outcome("return", "return", lambda c, S1, r: [Clause("no-children", r.t == (c.S0.cl(c.self) == 0), {"C04"})] + viewpure_post(c, S1),
                res="bool", mods=("hasC", "C", "Llen", "alloc"), value=lambda c: c.S0.cl(c.self) == 0)], props={"C04"}))
    fam.add(Spec(fam, "is_root", "getter", [("self", "ref")], base_req, [
        Outcome("return", "return", lambda c, S1, r: [Clause("no-parent", r.t == (c.S0.par(c.self) == NONE), {"C04"})],
                res="bool", mods=(), value=lambda c: c.S0.par(c.self) == NONE)], props={"C04"}))
    fam.add(Spec(fam, "height", "getter", [("self", "ref")], lambda c: base_req(c) + HGT_AX(c.S0), [
        Outcome("return", "return", lambda c, S1, r: [Clause("is-HEIGHT", r.t == hgt(c.self), {"C04"})] + viewpure_post(c, S1),
                res="int", mods=("hasC", "C", "Llen", "alloc"), value=lambda c: hgt(c.self))], props={"C04"}))
    fam.add(Spec(fam, "depth", "getter", [("self", "ref")], base_req, [
        Outcome("return", "return", lambda c, S1, r: [Clause("is-len-of-ancestors", r.t == c.S0.d(c.self), {"C04"})],
                res="int", mods=(), value=lambda c: c.S0.d(c.self))],
        loops={0: LoopSpec(lambda L: [], mods=())}, props={"C04"}))

    # ------------------------------------------------------------------ __check_loop
    def not_a_node(v):
        return And(v != NONE, Not(isn(v)))

    def loop_cond(c):
        return And(c.node != NONE, isn(c.node), Or(c.node == c.self, c.S0.A(c.self, c.node)))

    def cl_req(c):
        if fam.typecheck:
            return base_req(c) + [Clause("candidate-is-node-or-None", Or(c.node == NONE, isn(c.node)))]
        return base_req(c)
    cl_outcomes = [
        Outcome("return", "return", lambda c, S1, r: [], when=lambda c: And(Not(loop_cond(c)), Not(not_a_node(c.node))), mods=()),
        Outcome("LoopError", "raise", lambda c, S1, r: [], exc="LoopError", when=loop_cond, mods=()),
    ]
    if not fam.typecheck:
        # LightNodeMixin has no type check: an object that is not a tree node fails on its first use as one, before anything changed
        cl_outcomes.append(Outcome("not-a-node", "raise", lambda c, S1, r: [], exc="AttributeError", when=lambda c: not_a_node(c.node), mods=()))
    sp_cl = Spec(fam, fam.attr("__check_loop"), "method", [("self", "ref"), ("node", "ref")], cl_req, cl_outcomes, props={"C02", "C03"})
    sp_cl.nonnode_raises = not fam.typecheck
    fam.add(sp_cl)

    # ------------------------------------------------------------------ __detach
    def detach_req(c):
        return base_req(c) + [Clause("parent-is-current-parent", c.S0.par(c.self) == c.parent)]

    def detach_ghost(ex, p, field, obj, v):
        c = ex.fnctx
        if field != "parent":
            return
        S0 = c.S0
        S1 = p.S.havoc(("A", "d", "idx"), "ghost")
        p.assume(*[cl.f for cl in ghost_is(S1, A_detach(S0.A, c.self, c.parent), d_detach(S0.A, S0.d, c.self, c.parent),
                                           idx_detach(S0, c.self, c.parent))])
        p.set_state(S1)

    def detach_done(c, S1):
        S0 = c.S0
        return (detached_state(S1, S0, c.self, c.parent) + WFc(S1) +
                ghost_is(S1, A_detach(S0.A, c.self, c.parent), d_detach(S0.A, S0.d, c.self, c.parent),
                         idx_detach(S0, c.self, c.parent)) + [Clause("alloc-mono", alloc_mono(S1, S0))])

    def detach_post(c, S1, r):
        S0 = c.S0
        noop = [Clause("noop/" + cl.name, Implies(c.parent == NONE, cl.f), cl.props)
                for cl in unchanged(S1, S0, {"C02"}) + [Clause("ghost", ghost_equal(S1, S0)), Clause("log", log_equal(S1, S0), {"C16"})]]
        done = [Clause(cl.name, Implies(c.parent != NONE, cl.f), cl.props) for cl in detach_done(c, S1) +
                log_is(S1, S0, [(BoolVal(True), "_pre_detach", c.self, c.parent),
                                (BoolVal(True), "_post_detach", c.self, c.parent)])]
        return noop + done + WFc(S1) + [Clause("alloc-mono", alloc_mono(S1, S0))]

    def detach_hookobs_pre(c, S, recv, arg):
        return [Clause("receiver-and-argument", And(recv.t == c.self, arg.t == c.parent)),
                Clause("state-as-before-the-step", view_equal(S, c.S0)),
                Clause("still-child-of-old-parent", S.par(c.self) == c.parent)]

    def detach_hookobs_post(c, S, recv, arg):
        return ([Clause("receiver-and-argument", And(recv.t == c.self, arg.t == c.parent))] +
                detached_state(S, c.S0, c.self, c.parent, {"C16"}))

    fam.add(Spec(fam, fam.attr("__detach"), "method", [("self", "ref"), ("parent", "ref")], detach_req, [
        Outcome("return", "return", detach_post),
        Outcome("pre_detach-raises", "raise",
                lambda c, S1, r: [Clause("had-parent", c.parent != NONE)] + unchanged(S1, c.S0, {"C03"}) + WFc(S1) +
                [Clause("ghost", ghost_equal(S1, c.S0)), Clause("alloc-mono", alloc_mono(S1, c.S0))] +
                log_is(S1, c.S0, [(BoolVal(True), "_pre_detach", c.self, c.parent)]),
                exc="UserExc", site="hook:_pre_detach", user=True),
        Outcome("post_detach-raises", "raise",
                lambda c, S1, r: [Clause("had-parent", c.parent != NONE)] + detach_done(c, S1) +
                log_is(S1, c.S0, [(BoolVal(True), "_pre_detach", c.self, c.parent),
                                  (BoolVal(True), "_post_detach", c.self, c.parent)]),
                exc="UserExc", site="hook:_post_detach", user=True),
    ], hookobs={"_pre_detach": detach_hookobs_pre, "_post_detach": detach_hookobs_post}, ghost=detach_ghost,
        props={"C01", "C02"}))

    # ------------------------------------------------------------------ __attach
    def attach_req(c):
        return base_req(c) + [Clause("self-is-root", c.S0.par(c.self) == NONE),
                              Clause("new-parent-is-node-or-None", Or(c.parent == NONE, isn(c.parent))),
                              Clause("no-loop", Or(c.parent == NONE, Not(c.S0.A(c.self, c.parent))))]

    def attach_ghost_terms(c):
        S0 = c.S0
        return (A_attach(S0.A, c.self, c.parent), d_attach(S0.A, S0.d, c.self, c.parent),
                idx_attach(S0.idx, S0.cl(c.parent), c.self, c.parent))

    def attach_ghost(ex, p, field, obj, v):
        c = ex.fnctx
        if field != "parent":
            return
        S1 = p.S.havoc(("A", "d", "idx"), "ghost")
        p.assume(*[cl.f for cl in ghost_is(S1, *attach_ghost_terms(c))])
        p.set_state(S1)

    def attach_done(c, S1):
        return (attached_state(S1, c.S0, c.self, c.parent) + WFc(S1) + ghost_is(S1, *attach_ghost_terms(c)) +
                [Clause("alloc-mono", alloc_mono(S1, c.S0))])

    def attach_post(c, S1, r):
        S0 = c.S0
        noop = [Clause("noop/" + cl.name, Implies(c.parent == NONE, cl.f), cl.props)
                for cl in unchanged(S1, S0, {"C02"}) + [Clause("ghost", ghost_equal(S1, S0)), Clause("log", log_equal(S1, S0), {"C16"})]]
        done = [Clause(cl.name, Implies(c.parent != NONE, cl.f), cl.props) for cl in attach_done(c, S1) +
                log_is(S1, S0, [(BoolVal(True), "_pre_attach", c.self, c.parent),
                                (BoolVal(True), "_post_attach", c.self, c.parent)])]
        return noop + done + WFc(S1) + [Clause("alloc-mono", alloc_mono(S1, S0))]

    def attach_hookobs_pre(c, S, recv, arg):
        return [Clause("receiver-and-argument", And(recv.t == c.self, arg.t == c.parent)),
                Clause("state-as-before-the-step", view_equal(S, c.S0)),
                Clause("node-is-a-root", S.par(c.self) == NONE)]

    def attach_hookobs_post(c, S, recv, arg):
        return ([Clause("receiver-and-argument", And(recv.t == c.self, arg.t == c.parent))] +
                attached_state(S, c.S0, c.self, c.parent, {"C16"}))

    fam.add(Spec(fam, fam.attr("__attach"), "method", [("self", "ref"), ("parent", "ref")], attach_req, [
        Outcome("return", "return", attach_post),
        Outcome("pre_attach-raises", "raise",
                lambda c, S1, r: [Clause("has-new-parent", c.parent != NONE)] + unchanged(S1, c.S0, {"C03"}) + WFc(S1) +
                [Clause("ghost", ghost_equal(S1, c.S0)), Clause("alloc-mono", alloc_mono(S1, c.S0))] +
                log_is(S1, c.S0, [(BoolVal(True), "_pre_attach", c.self, c.parent)]),
                exc="UserExc", site="hook:_pre_attach", user=True),
        Outcome("post_attach-raises", "raise",
                lambda c, S1, r: [Clause("has-new-parent", c.parent != NONE)] + attach_done(c, S1) +
                log_is(S1, c.S0, [(BoolVal(True), "_pre_attach", c.self, c.parent),
                                  (BoolVal(True), "_post_attach", c.self, c.parent)]),
                exc="UserExc", site="hook:_post_attach", user=True),
    ], hookobs={"_pre_attach": attach_hookobs_pre, "_post_attach": attach_hookobs_post}, ghost=attach_ghost,
        props={"C01", "C02"}))
    # ------------------------------------------------------------------ parent setter  (C01 C02 C03 C16)
    def ps_req(c):
        return base_req(c)

    def ps_tree_cond(c):
        # an argument that is neither None nor a tree node: NodeMixin refuses it with TreeError; LightNodeMixin has no check of its
        # own and fails with AttributeError in __check_loop - in both cases before anything changed (C03: "every invalid argument")
        return And(c.value != NONE, Not(isn(c.value)))

    def ps_loop_cond(c):
        return And(Not(ps_tree_cond(c)), c.value != NONE, Or(c.value == c.self, c.S0.A(c.self, c.value)))

    def ps_ok(c):
        return And(Not(ps_tree_cond(c)), Not(ps_loop_cond(c)))

    def ps_events(c, upto):
        q, v, n = c.S0.par(c.self), c.value, c.self
        ev = [(q != NONE, "_pre_detach", n, q), (q != NONE, "_post_detach", n, q),
              (v != NONE, "_pre_attach", n, v), (v != NONE, "_post_attach", n, v)]
        return ev[:upto]

    def ps_detached(c, S1):
        """state after the detach step only (n is a root, not yet attached)"""
        S0, n = c.S0, c.self
        q = S0.par(n)
        return (moved_state(S1, S0, n, q, NONE) + WFc(S1) + moved_ghost(S1, S0, n, q, NONE) +
                [Clause("alloc-mono", alloc_mono(S1, S0))])

    def ps_moved(c, S1):
        S0, n = c.S0, c.self
        q = S0.par(n)
        return (moved_state(S1, S0, n, q, c.value) + WFc(S1) + moved_ghost(S1, S0, n, q, c.value) +
                [Clause("alloc-mono", alloc_mono(S1, S0))])

    def ps_post(c, S1, r):
        S0, n = c.S0, c.self
        q = S0.par(n)
        same = q == c.value
        noop = [Clause("noop/" + cl.name, Implies(same, cl.f), cl.props) for cl in
                unchanged(S1, S0, {"C02"}) + [Clause("ghost", ghost_equal(S1, S0)),
                                              Clause("no-hook-called", log_equal(S1, S0), {"C16"})]]
        moved = [Clause(cl.name, Implies(Not(same), cl.f), cl.props) for cl in
                 ps_moved(c, S1) + log_is(S1, S0, ps_events(c, 4))]
        return noop + moved + WFc(S1) + [Clause("alloc-mono", alloc_mono(S1, S0))]

    def ps_refused(c, S1, r):
        # mods=(): the state object is the entry state itself
        return unchanged(S1, c.S0, {"C03"}) + [Clause("no-hook-called", log_equal(S1, c.S0), {"C16"})]

    def ps_exc(label, hook, post, upto):
        def f(c, S1, r):
            return ([Clause("a-change-was-requested", c.S0.par(c.self) != c.value)] + post(c, S1) +
                    log_is(S1, c.S0, ps_events(c, upto)))
        return Outcome(label, "raise", f, exc="UserExc", site="hook:" + hook, user=True)

    def ps_unchanged_exit(c, S1):
        return (unchanged(S1, c.S0, {"C03"}) + WFc(S1) + [Clause("ghost", ghost_equal(S1, c.S0)),
                                                         Clause("alloc-mono", alloc_mono(S1, c.S0))])

    def ps_pre_attach_exit(c, S1):
        # C03 demands an untouched forest here.  Known finding KF1: when the node had a parent at entry the
        # detach step has already happened.  The clause is kept as stated, proved for the complement of the
        # listed case (node was a root), and the real state (detached) is what callers may rely on.
        S0 = c.S0
        kf = [Clause(cl.name, cl.f, cl.props, ) for cl in unchanged(S1, S0, {"C03"})]
        for cl in kf:
            cl.kf = ("KF1", S0.par(c.self) != NONE)
        return [Clause("has-new-parent", c.value != NONE)] + kf + ps_detached(c, S1)

    ps_outcomes = []
    if fam.typecheck:
        ps_outcomes.append(Outcome("TreeError", "raise", ps_refused, exc="TreeError", when=ps_tree_cond, mods=()))
    else:
        ps_outcomes.append(Outcome("not-a-node", "raise", ps_refused, exc="AttributeError", when=ps_tree_cond, mods=()))
    ps_outcomes += [
        Outcome("LoopError", "raise", ps_refused, exc="LoopError", when=ps_loop_cond, mods=()),
        Outcome("return", "return", ps_post, when=ps_ok),
        ps_exc("pre_detach-raises", "_pre_detach", lambda c, S1: [Clause("had-parent", c.S0.par(c.self) != NONE)] + ps_unchanged_exit(c, S1), 1),
        ps_exc("post_detach-raises", "_post_detach", lambda c, S1: [Clause("had-parent", c.S0.par(c.self) != NONE)] + ps_detached(c, S1), 2),
        ps_exc("pre_attach-raises", "_pre_attach", ps_pre_attach_exit, 3),
        ps_exc("post_attach-raises", "_post_attach", lambda c, S1: [Clause("has-new-parent", c.value != NONE)] + ps_moved(c, S1), 4),
    ]
    fam.add(Spec(fam, "parent", "setter", [("self", "ref"), ("value", "ref")], ps_req, ps_outcomes,
                 props={"C01", "C02"}))
    # ------------------------------------------------------------------ __check_children (static)
    def cc_bad(c):
        xs = c.args["children"].t
        k, l = Int("k"), Int("l")
        dup = Exists([k, l], And(in_range(k, xs.n), in_range(l, xs.n), k != l, xs.a[k] == xs.a[l]))
        if fam.typecheck:
            return Or(Exists([k], And(in_range(k, xs.n), Not(isn(xs.a[k])))), dup)
        return dup

    def cc_inv(L):
        xs = L.fn.args["children"].t
        seen = L.t("seen")
        k, l = Int("k"), Int("l")
        cl = [("seen-are-the-visited", ForAll([x], seen[x] == Exists([k], And(in_range(k, L.i), xs.a[k] == x)))),
              ("visited-distinct", ForAll([k, l], Implies(And(in_range(k, L.i), in_range(l, L.i), k != l),
                                                          xs.a[k] != xs.a[l])))]
        if fam.typecheck:
            cl.append(("visited-are-nodes", ForAll([k], Implies(in_range(k, L.i), isn(xs.a[k])))))
        return cl
    fam.add(Spec(fam, fam.attr("__check_children"), "static", [("children", "aseq")], lambda c: [], [
        Outcome("return", "return", lambda c, S1, r: [], when=lambda c: Not(cc_bad(c)), mods=()),
        Outcome("TreeError", "raise", lambda c, S1, r: [], exc="TreeError", when=cc_bad, mods=()),
    ], loops={0: LoopSpec(cc_inv, mods=(), vars_kinds={"seen": "idset"})}, props={"C02"}))

    # ------------------------------------------------------------------ children deleter
    PRE_D, POST_D = HOOK_ID["_pre_detach"], HOOK_ID["_post_detach"]

    def detached_prefix(S, S0, n, k, props=("C02",)):
        """the first k children of n (entry state S0) are roots now, the others are still n's children in order,
        nothing else has changed"""
        m = S0.cl(n)
        return [
            Clause("del/first-k-are-roots", ForAll([j], Implies(in_range(j, k), S.par(S0.ca(n, j)) == NONE)), props),
            Clause("del/rest-len", S.cl(n) == m - k, props),
            Clause("del/rest-in-order", ForAll([j], Implies(in_range(j, m - k), S.ca(n, j) == S0.ca(n, j + k))), props),
            Clause("del/other-parents", ForAll([x], Implies(And(isn(x), S0.par(x) != n), S.par(x) == S0.par(x))), props),
            Clause("del/other-children", ch_equal_except(S, S0, [n]), props),
            # stepping stones for the solver (consequences of the clauses above and WF)
            Clause("del/kept-children-positions", ForAll([j], Implies(And(k <= j, j < m), And(S.par(S0.ca(n, j)) == n,
                                                                                             S.idx(S0.ca(n, j)) == j - k)))),
            Clause("del/ancestors-of-self-unchanged", ForAll([a], S.A(a, n) == S0.A(a, n))),
            Clause("del/ancestry-only-shrinks", ForAll([a, x], Implies(S.A(a, x), S0.A(a, x)))),
        ]

    def del_log(S, S0, n, k, extra=0):
        """log = log0 ++ [pre_detach_children] ++ [pre_detach(c_j, n), post_detach(c_j, n) for j < k]"""
        L0 = S0.loglen
        return [
            Clause("log/len", S.loglen == L0 + 1 + 2 * k + extra, {"C16"}),
            Clause("log/prefix", ForAll([j], Implies(in_range(j, L0), And(S.logk[j] == S0.logk[j], S.logr[j] == S0.logr[j],
                                                                         S.loga[j] == S0.loga[j]))), {"C16"}),
            Clause("log/pre_detach_children-first", And(S.logk[L0] == HOOK_ID["_pre_detach_children"], S.logr[L0] == n), {"C16"}),
            Clause("log/per-child-events-in-order", ForAll([j], Implies(in_range(j, k), And(
                S.logk[L0 + 1 + 2 * j] == PRE_D, S.logr[L0 + 1 + 2 * j] == S0.ca(n, j), S.loga[L0 + 1 + 2 * j] == n,
                S.logk[L0 + 2 + 2 * j] == POST_D, S.logr[L0 + 2 + 2 * j] == S0.ca(n, j), S.loga[L0 + 2 + 2 * j] == n))), {"C16"}),
        ]

    def del_inv(L):
        c = L.fn
        cls = detached_prefix(L.S, c.S0, c.self, L.i) + WFc(L.S) + del_log(L.S, c.S0, c.self, L.i) + \
            [Clause("alloc-mono", alloc_mono(L.S, c.S0))]
        return [(cl.name, cl.f) for cl in cls]

    def del_hookobs_pre(c, S, recv, arg):
        s = arg.t
        return [Clause("receiver", recv.t == c.self),
                Clause("argument-is-the-children-tuple", And(s.n == c.S0.cl(c.self),
                                                             ForAll([j], Implies(in_range(j, s.n), s.a[j] == c.S0.ca(c.self, j))))),
                Clause("state-as-before", view_equal(S, c.S0))]

    def del_hookobs_post(c, S, recv, arg):
        s = arg.t
        return [Clause("receiver", recv.t == c.self),
                Clause("argument-is-the-former-children-tuple", And(s.n == c.S0.cl(c.self),
                                                                    ForAll([j], Implies(in_range(j, s.n), s.a[j] == c.S0.ca(c.self, j))))),
                ] + detached_prefix(S, c.S0, c.self, c.S0.cl(c.self), {"C16"})

    def del_post(c, S1, r):
        S0, n = c.S0, c.self
        m = S0.cl(n)
        return (detached_prefix(S1, S0, n, m) + WFc(S1) + del_log(S1, S0, n, m, extra=1) +
                [Clause("log/post_detach_children-last", And(S1.logk[S1.loglen - 1] == HOOK_ID["_post_detach_children"],
                                                             S1.logr[S1.loglen - 1] == n), {"C16"}),
                 Clause("alloc-mono", alloc_mono(S1, S0))])

    def del_exit_pre_children(c, S1, r):
        return unchanged(S1, c.S0, {"C03"}) + WFc(S1) + [Clause("ghost", ghost_equal(S1, c.S0)),
                                                        Clause("alloc-mono", alloc_mono(S1, c.S0))]

    def del_exit_pre_detach(c, S1, r):
        # C03: untouched.  Known finding KF2: when the veto comes from a later child (k >= 1) the first k former
        # children have already been detached.
        S0, n, k = c.S0, c.self, r.t
        kf = unchanged(S1, S0, {"C03"})
        for cl in kf:
            cl.kf = ("KF2", k >= 1)
        return ([Clause("witness-in-range", in_range(k, S0.cl(n)))] + kf + detached_prefix(S1, S0, n, k) + WFc(S1) +
                [Clause("alloc-mono", alloc_mono(S1, S0))])

    def del_exit_post_detach(c, S1, r):
        S0, n, k = c.S0, c.self, r.t
        return ([Clause("witness-in-range", in_range(k, S0.cl(n)))] + detached_prefix(S1, S0, n, k + 1) + WFc(S1) +
                [Clause("alloc-mono", alloc_mono(S1, S0))])

    def del_exit_post_children(c, S1, r):
        S0, n = c.S0, c.self
        return detached_prefix(S1, S0, n, S0.cl(n)) + WFc(S1) + [Clause("alloc-mono", alloc_mono(S1, S0))]

    fam.add(Spec(fam, "children", "deleter", [("self", "ref")], base_req, [
        Outcome("return", "return", del_post),
        Outcome("pre_detach_children-raises", "raise", del_exit_pre_children, exc="UserExc",
                site="hook:_pre_detach_children", user=True),
        Outcome("pre_detach-raises", "raise", del_exit_pre_detach, exc="UserExc", site="hook:_pre_detach",
                user=True, res="wit0"),
        Outcome("post_detach-raises", "raise", del_exit_post_detach, exc="UserExc", site="hook:_post_detach",
                user=True, res="wit0"),
        Outcome("post_detach_children-raises", "raise", del_exit_post_children, exc="UserExc",
                site="hook:_post_detach_children", user=True),
    ], loops={0: LoopSpec(del_inv, mods="all")},
        hookobs={"_pre_detach_children": del_hookobs_pre, "_post_detach_children": del_hookobs_post},
        props={"C01", "C02"}))
    # ------------------------------------------------------------------ children setter
    def xs_of(c):
        o = c.children
        return ASeq(itlen(o), itat(o))

    def same_tuple(s, t):
        return And(s.n == t.n, ForAll([j], Implies(in_range(j, s.n), s.a[j] == t.a[j])))

    def cs_type_cond(c):
        return Not(iterable(c.children))

    def cs_bad(c):
        xs = xs_of(c)
        k, l = Int("k"), Int("l")
        dup = Exists([k, l], And(in_range(k, xs.n), in_range(l, xs.n), k != l, xs.a[k] == xs.a[l]))
        if fam.typecheck:
            return Or(Exists([k], And(in_range(k, xs.n), Not(isn(xs.a[k])))), dup)
        return dup

    def cs_tree_cond(c):
        return And(iterable(c.children), cs_bad(c))

    def cs_loopy(c, e):
        return Or(e == c.self, c.S0.A(e, c.self))

    def cs_loop_cond(c):
        xs = xs_of(c)
        k = Int("k")
        return And(iterable(c.children), Not(cs_bad(c)), Exists([k], And(in_range(k, xs.n), cs_loopy(c, xs.a[k]))))

    def cs_ok(c):
        xs = xs_of(c)
        k = Int("k")
        return And(iterable(c.children), Not(cs_bad(c)), Not(Exists([k], And(in_range(k, xs.n), cs_loopy(c, xs.a[k])))))

    def cs_req(c):
        r = base_req(c)
        if not fam.typecheck:
            xs = xs_of(c)
            r.append(Clause("children-are-nodes", Implies(iterable(c.children),
                                                          ForAll([j], Implies(in_range(j, xs.n), isn(xs.a[j]))))))
        return r

    def not_in(xs, k, e):
        return ForAll([j], Implies(in_range(j, k), xs.a[j] != e))

    def no_steal(S_, n, xs, k):
        """none of xs[:k] is (in state S_) the child of a node other than n"""
        return ForAll([j], Implies(in_range(j, k), Or(S_.par(xs.a[j]) == NONE, S_.par(xs.a[j]) == n)))

    def attached_prefix(S, P, n, xs, k, props=("C02",)):
        """relative to the state P in which n has no children: xs[:k] are n's children in this order, taken away
        from their parents in P; every other node keeps its parent, the children of other parents keep their
        relative order"""
        return [
            Clause("set/children-len", S.cl(n) == k, props),
            Clause("set/children-in-given-order", ForAll([j], Implies(in_range(j, k), S.ca(n, j) == xs.a[j])), props),
            Clause("set/attached-point-to-self", ForAll([j], Implies(in_range(j, k), And(S.par(xs.a[j]) == n, S.idx(xs.a[j]) == j))), props),
            Clause("set/others-keep-parent", ForAll([x], Implies(And(isn(x), not_in(xs, k, x)), S.par(x) == P.par(x))), props),
            Clause("set/other-parents-keep-order",
                   ForAll([x, y], Implies(And(isn(x), isn(y), S.par(x) == S.par(y), S.par(x) != NONE, S.par(x) != n),
                                          (S.idx(x) < S.idx(y)) == (P.idx(x) < P.idx(y)))), props),
            Clause("set/nothing-taken-from-others-then-their-children-untouched",
                   Implies(no_steal(P, n, xs, k), ch_equal_except(S, P, [n])), props),
            Clause("set/ancestors-of-self-unchanged", ForAll([a], S.A(a, n) == P.A(a, n))),
        ]

    PRE_A, POST_A = HOOK_ID["_pre_attach"], HOOK_ID["_post_attach"]

    def logpos(c):
        """LOGPOS_c(j): hook-log length after the attach loop handled xs[:j] - a fresh function symbol per call instance
        with one defining equation (`d_LOGPOS`): 2 events per child, 4 if it is taken away from another parent"""
        return Function("LOGPOS|%s|%s|%s" % (c.S0.loglen, c.self, c.children), I, I)

    def had_parent(c, x):
        """x has, when its turn comes, still a parent (the former children of self were detached by the delete phase)"""
        return And(c.S0.par(x) != NONE, c.S0.par(x) != c.self)

    def attach_base(c):
        # log0 ++ [pre_detach_children, (pre_detach, post_detach) * m, post_detach_children, pre_attach_children]
        return c.S0.loglen + 2 * c.S0.cl(c.self) + 3

    def d_LOGPOS(c, j_):
        xs, LPc = xs_of(c), logpos(c)
        return [LPc(0) == attach_base(c),
                Implies(in_range(j_, xs.n), LPc(j_ + 1) == LPc(j_) + If(had_parent(c, xs.a[j_]), 4, 2))]

    def attach_log(c, S, xs, k, props=("C16",)):
        """C16: during the attach phase the log grows, child by child in the order of xs, by [pre_detach(x, q), post_detach(x, q)]
        iff x still had a parent q, followed by [pre_attach(x, n), post_attach(x, n)]"""
        S0, n, pos, L0 = c.S0, c.self, logpos(c), attach_base(c)
        jj = Int("jl")
        ev = lambda at, hook, recv, arg: And(S.logk[at] == hook, S.logr[at] == recv, S.loga[at] == arg)
        x = xs.a[jj]
        return [
            Clause("log/attach-phase-length", S.loglen == pos(k), props),
            Clause("log/attach-phase-positions-monotone", And(pos(k) >= L0, ForAll([jj], Implies(in_range(jj, k), And(
                L0 <= pos(jj), pos(jj) + If(had_parent(c, x), 4, 2) <= pos(k))))), props),
            Clause("log/attach-phase-events-per-child-in-order", ForAll([jj], Implies(in_range(jj, k), And(
                Implies(had_parent(c, x), And(ev(pos(jj), PRE_D, x, S0.par(x)), ev(pos(jj) + 1, POST_D, x, S0.par(x)),
                                              ev(pos(jj) + 2, PRE_A, x, n), ev(pos(jj) + 3, POST_A, x, n))),
                Implies(Not(had_parent(c, x)), And(ev(pos(jj), PRE_A, x, n), ev(pos(jj) + 1, POST_A, x, n)))))), props),
        ]

    def delete_phase_log(c, S, props=("C16",)):
        """the part of the log written before the attach loop: the deleter's events and pre_attach_children"""
        S0, n = c.S0, c.self
        m = S0.cl(n)
        L0 = S0.loglen
        at = L0 + 2 * m + 1
        return [cl for cl in del_log(S, S0, n, m, extra=0) if cl.name != "log/len"] + [
            Clause("log/post_detach_children-after-the-former-children", And(S.logk[at] == HOOK_ID["_post_detach_children"], S.logr[at] == n), props),
            Clause("log/pre_attach_children-next", And(S.logk[at + 1] == HOOK_ID["_pre_attach_children"], S.logr[at + 1] == n), props)]

    def cs_inv(L):
        c = L.fn
        n, P, S = c.self, L.S_pre, L.S
        xs = L.v["children"].t
        cls = (attached_prefix(S, P, n, xs, L.i) + WFc(S) + delete_phase_log(c, S) + attach_log(c, S, xs, L.i) +
               [Clause("set/no-loop-so-far", ForAll([j], Implies(in_range(j, L.i), And(xs.a[j] != n, Not(P.A(xs.a[j], n)))))),
                Clause("alloc-mono", alloc_mono(S, P))])
        return [(cl.name, cl.f) for cl in cls]

    def cs_hints(L):
        return d_LOGPOS(L.fn, L.i)

    def set_state_rel_entry(S1, S0, n, xs, props=("C02",)):
        """C02, complete post-state of `n.children = xs` relative to the entry state"""
        m = xs.n
        return [
            Clause("set/children-len", S1.cl(n) == m, props),
            Clause("set/children-in-given-order", ForAll([j], Implies(in_range(j, m), S1.ca(n, j) == xs.a[j])), props),
            Clause("set/listed-point-to-self", ForAll([j], Implies(in_range(j, m), S1.par(xs.a[j]) == n)), props),
            Clause("set/former-children-not-listed-are-roots",
                   ForAll([x], Implies(And(isn(x), S0.par(x) == n, not_in(xs, m, x)), S1.par(x) == NONE)), props),
            Clause("set/others-keep-parent",
                   ForAll([x], Implies(And(isn(x), S0.par(x) != n, not_in(xs, m, x)), S1.par(x) == S0.par(x))), props),
            Clause("set/other-parents-keep-order",
                   ForAll([x, y], Implies(And(isn(x), isn(y), S1.par(x) == S1.par(y), S1.par(x) != NONE, S1.par(x) != n),
                                          (S1.idx(x) < S1.idx(y)) == (S0.idx(x) < S0.idx(y)))), props),
            Clause("set/nothing-taken-from-others-then-their-children-untouched",
                   Implies(no_steal(S0, n, xs, m), ch_equal_except(S1, S0, [n])), props),
            Clause("set/ancestors-of-self-unchanged", ForAll([a], S1.A(a, n) == S0.A(a, n))),
        ]

    def cs_post(c, S1, r):
        xs = xs_of(c)
        last = logpos(c)(xs.n)
        return (set_state_rel_entry(S1, c.S0, c.self, xs) + WFc(S1) + [Clause("alloc-mono", alloc_mono(S1, c.S0))] +
                # C16, the complete log: delete phase, pre_attach_children, per-child events, post_attach_children
                delete_phase_log(c, S1) + [cl for cl in attach_log(c, S1, xs, xs.n) if cl.name != "log/attach-phase-length"] +
                [Clause("log/post_attach_children-last", And(S1.loglen == last + 1, S1.logk[last] == HOOK_ID["_post_attach_children"],
                                                             S1.logr[last] == c.self), {"C16"})])

    def cs_refused(c, S1, r):
        return unchanged(S1, c.S0, {"C03"}) + [Clause("no-hook-called", log_equal(S1, c.S0), {"C16"})]

    def cs_hookobs_pre(c, S, recv, arg):
        S0, n = c.S0, c.self
        return ([Clause("receiver", recv.t == n), Clause("argument-is-the-new-children-tuple", same_tuple(arg.t, xs_of(c)))] +
                detached_prefix(S, S0, n, S0.cl(n), {"C16"}))

    def cs_hookobs_post(c, S, recv, arg):
        return ([Clause("receiver", recv.t == c.self), Clause("argument-is-the-new-children-tuple", same_tuple(arg.t, xs_of(c)))] +
                set_state_rel_entry(S, c.S0, c.self, xs_of(c), {"C16"}))

    def cs_restored(c, S1, k, stolen_upto, kfid="KF3"):
        """exit from inside the try-block after the former children were restored.  C03: forest untouched.
        Known finding KF3: a child named in xs before the failure that belonged to another parent is not given
        back (it ends up a root); proved for the complement (nothing taken from another parent so far)."""
        S0, n, xs = c.S0, c.self, xs_of(c)
        kf = unchanged(S1, S0, {"C03"})
        for cl in kf:
            cl.kf = (kfid, Not(no_steal(S0, n, xs, stolen_upto)))
        return kf + [Clause("restored/children-len", S1.cl(n) == S0.cl(n), {"C03"}),
                     Clause("restored/children-in-order", ForAll([j], Implies(in_range(j, S0.cl(n)), S1.ca(n, j) == S0.ca(n, j))), {"C03"}),
                     ] + WFc(S1) + [Clause("alloc-mono", alloc_mono(S1, S0))]

    def cs_try_exit(label, site, upto, cls="UserExc", when=None, witness=True):
        def f(c, S1, r):
            xs = xs_of(c)
            if witness:
                k = r.t
                pre = [Clause("witness-in-range", in_range(k, xs.n))]
                return pre + cs_restored(c, S1, k, k + upto)
            return cs_restored(c, S1, None, IntVal(0) if upto == 0 else xs.n)
        return Outcome(label, "raise", f, exc=cls, site=site, user=(cls == "UserExc"), when=when,
                       res="wit0" if witness else "none")

    def cs_del_exit(label, site, post, res="none"):
        return Outcome(label, "raise", post, exc="UserExc", site=site, user=True, res=res)

    def cs_restore_failed(c, S1, r):
        kf = unchanged(S1, c.S0, {"C03"})
        for cl in kf:
            cl.kf = ("KF4", BoolVal(True))
        return kf + WFc(S1) + [Clause("alloc-mono", alloc_mono(S1, c.S0))]

    fam.add(Spec(fam, "children", "setter", [("self", "ref"), ("children", "ref")], cs_req, [
        Outcome("TypeError", "raise", cs_refused, exc="TypeError", when=cs_type_cond, mods=()),
        Outcome("TreeError", "raise", cs_refused, exc="TreeError", when=cs_tree_cond, mods=()),
        Outcome("return", "return", cs_post, when=cs_ok),
        # exits of the delete phase (outside the try-block): exactly the deleter's
        cs_del_exit("del:pre_detach_children-raises", "hook:_pre_detach_children", del_exit_pre_children),
        cs_del_exit("del:pre_detach-raises", "hook:_pre_detach", del_exit_pre_detach, res="payload"),
        cs_del_exit("del:post_detach-raises", "hook:_post_detach", del_exit_post_detach, res="payload"),
        cs_del_exit("del:post_detach_children-raises", "hook:_post_detach_children", del_exit_post_children),
        # exits from inside the try-block, former children restored, original exception re-raised
        cs_try_exit("pre_attach_children-raises", "reraise:hook:_pre_attach_children", 0, witness=False),
        cs_try_exit("child-pre_detach-raises", "reraise:hook:_pre_detach", 0),
        cs_try_exit("child-post_detach-raises", "reraise:hook:_post_detach", 1),
        cs_try_exit("child-pre_attach-raises", "reraise:hook:_pre_attach", 1),
        cs_try_exit("child-post_attach-raises", "reraise:hook:_post_attach", 1),
        cs_try_exit("post_attach_children-raises", "reraise:hook:_post_attach_children", 1, witness=False),
        cs_try_exit("LoopError", "reraise:set:parent", 0, cls="LoopError", when=cs_loop_cond),
        # the restoring assignment itself raised (KF4)
        Outcome("restore-raises", "raise", cs_restore_failed, exc="UserExc", site="in-handler:*", user=True),
    ], loops={0: LoopSpec(cs_inv, mods="all", hints=cs_hints)},
        hookobs={"_pre_attach_children": cs_hookobs_pre, "_post_attach_children": cs_hookobs_post},
        props={"C01", "C02"}))
    return fam


def families():
    nm = build(Family("NodeMixin", "anytree/node/nodemixin.py", True))
    lm = build(Family("LightNodeMixin", "anytree/node/lightnodemixin.py", False))
    return [nm, lm]
