"""Sidecar contracts for anytree/util/__init__.py (C04): commonancestors, leftsibling, rightsibling (heap world)."""
from z3 import And, BoolVal, Const, Consts, Exists, ForAll, If, Implies, Int, Not, Or

from pyvc.core import LoopSpec
from pyvc.heap import NONE, R, isn
from pyvc.heapworld import Clause, Family, Outcome, Spec

from .mixins import ANC, ANC_AX, WFc, in_range, seqv, unchanged

x = Const("x", R)
j, k = Int("j"), Int("k")
P = {"C04"}
REL = "anytree/util/__init__.py"


def build(nodefam):
    fam = Family("util", REL, False)
    fam.cls = None
    for key in (("parent", "getter"), ("children", "getter"), ("ancestors", "getter")):
        fam.specs[key] = nodefam.specs[key]

    # ------------------------------------------------------------------ commonancestors(*nodes)
    def ca_req(c):
        ns = c.args["*nodes"].t
        return WFc(c.S0) + ANC_AX(c.S0) + [Clause("arguments-are-nodes", ForAll([k], Implies(in_range(k, ns.n), isn(ns.a[k]))))]

    def chain_len(c, kk):
        return c.S0.d(c.args["*nodes"].t.a[kk])

    def chain_at(c, kk, jj):
        return ANC(c.args["*nodes"].t.a[kk])[jj]

    def ca_inv(L):
        c = L.fn
        ns = c.args["*nodes"].t
        com = L.v["common"]
        S = L.S
        n_, a_ = S.Llen[com.t], S.Lat[com.t]
        return [("collected-so-far-is-common-to-all",
                 And(n_ == L.i, ForAll([j, k], Implies(And(in_range(j, L.i), in_range(k, ns.n)), chain_at(c, k, j) == a_[j])))),
                ("the-local-list-is-a-list", com.t != NONE)]

    def ca_post(c, S1, r):
        ns, res = c.args["*nodes"].t, seqv(r)
        return [
            Clause("is-a-common-prefix-of-all-ancestor-chains",
                   ForAll([j, k], Implies(And(in_range(j, res.n), in_range(k, ns.n)),
                                          And(j < chain_len(c, k), chain_at(c, k, j) == res.a[j]))), P),
            Clause("is-the-longest", Or(
                Exists([k], And(in_range(k, ns.n), res.n == chain_len(c, k))),
                Exists([k], And(in_range(k, ns.n), res.n < chain_len(c, 0), res.n < chain_len(c, k),
                                chain_at(c, k, res.n) != chain_at(c, 0, res.n))),
                And(ns.n <= 0, res.n == 0)), P),
            Clause("length-nonneg", res.n >= 0, P),
        ]
    fam.add(Spec(fam, "commonancestors", "function", [("*nodes", "aseq")], ca_req, [
        Outcome("return", "return", ca_post, res="aseq", mods=("alloc", "Llen", "Lat"))],
        loops={0: LoopSpec(ca_inv, mods=("Llen", "Lat"))}, props=P, cls=None))
    fam.specs[("commonancestors", "function")].cls = None

    # ------------------------------------------------------------------ left / right sibling
    def sib_req(c):
        return WFc(c.S0) + [Clause("node-is-node", isn(c.node))]

    def neighbour(c, r, delta):
        S0, n = c.S0, c.node
        q, i0 = S0.par(n), S0.idx(n)
        pos = i0 + delta
        exists = And(q != NONE, 0 <= pos, pos < S0.cl(q))
        return [Clause("the-neighbouring-child-of-the-same-parent-or-None",
                       r.t == If(exists, S0.ca(q, pos), NONE), P)]
    for nm, delta in (("leftsibling", -1), ("rightsibling", 1)):
        sp = Spec(fam, nm, "function", [("node", "ref")], sib_req, [
            Outcome("return", "return", (lambda d: lambda c, S1, r: neighbour(c, r, d))(delta), res="ref",
                    mods=("hasC", "C", "Llen", "alloc"))], props=P)
        sp.cls = None
        fam.add(sp)
    return fam
