"""Sidecar contracts for DictExporter (C10), text world with observers on the exported dictionaries.

    OWN(items, j)                         the (key, value) pairs of items[:j] other than the two bookkeeping keys
    ISEXP(d, node, level, dictcls, attriter, childiter)
        d is an export of node at this level: made by dictcls from attriter(own attributes of node); has a 'children' entry
        iff level < maxlevel (or no bound) and childiter(node.children) is non-empty, and then that list holds, in order, an
        export of each such child at level + 1                                          (recursive definition, both directions)
"""
from z3 import (And, BoolVal, Concat, Const, Empty, ForAll, Function, If, Implies, Int, IntVal, Length, Not, Or, StringVal, Unit)

from pyvc.core import LoopSpec, V
from pyvc.heap import B, I, NONE, R
from pyvc.heapworld import Clause, Outcome
from pyvc.seqworld import CH, QSpec, Registry, SeqR, U
from pyvc.textworld import (AFn, DKV, J, JARG, JCLS, JHASKIDS, JKIDS, KV, KVSU, TEXTWORLD, SeqFn, SeqJ, SeqKV, Str, appA, appSeq)

REL = "anytree/exporter/dictexporter.py"
P = {"C10"}
OWN = Function("OWN", SeqKV, I, SeqKV)
ISEXP = Function("ISEXP", J, R, I, U, AFn, SeqFn, B)
IDF = Const("IDENTITY_ATTRITER", AFn)
MAXG, MAXL = Const("f_maxlevel_given", B), Int("f_maxlevel")
BOOK = ("_NodeMixin__children", "_NodeMixin__parent")


def S(x):
    return StringVal(x)


def d_OWN(s, j):
    k = KV.key(s[j])
    return [OWN(s, 0) == Empty(SeqKV),
            Implies(And(0 <= j, j < Length(s)),
                    OWN(s, j + 1) == Concat(OWN(s, j), If(Or(*[k == S(b) for b in BOOK]), Empty(SeqKV), Unit(s[j]))))]


def own_attrs(n):
    s = DKV(n)
    return KVSU(OWN(s, Length(s)))


def admit(level):
    return Or(Not(MAXG), level < MAXL)


def isexp_body(d, n, l, dc, ai, ci):
    kids = appSeq(ci, CH(n))
    i = Int("ie")
    return And(JCLS(d) == dc, JARG(d) == appA(ai, own_attrs(n)),
               JHASKIDS(d) == And(admit(l), Length(kids) > 0),
               Implies(JHASKIDS(d), And(Length(JKIDS(d)) == Length(kids),
                                        ForAll([i], Implies(And(0 <= i, i < Length(kids)), ISEXP(JKIDS(d)[i], kids[i], l + 1, dc, ai, ci))))))


def isexp_axioms():
    d, n, l, dc, ai, ci = Const("xd", J), Const("xn", R), Int("xl"), Const("xdc", U), Const("xai", AFn), Const("xci", SeqFn)
    return [ForAll([d, n, l, dc, ai, ci], ISEXP(d, n, l, dc, ai, ci) == isexp_body(d, n, l, dc, ai, ci))]


def build():
    reg = Registry()
    reg.bases["DictExporter"] = None
    reg.map_calls = True
    specs = []
    x = Const("xa", U)
    ID_AX = [ForAll([x], appA(IDF, x) == x)]

    def fields(c):
        return {"dictcls": V("dictcls", Const("f_dictcls", U)), "attriter": V("optafn", (Const("f_attriter_given", B), Const("f_attriter", AFn))),
                "childiter": V("seqfn", Const("f_childiter", SeqFn)), "maxlevel": V("optint", (MAXG, MAXL))}

    def qs(spec):
        spec.world = TEXTWORLD
        spec.fields = fields
        specs.append(spec)
        return spec
    SELF = ("self", "obj:DictExporter")
    # ------------------------------------------------------------------ _iter_attr_values
    sp = qs(QSpec(reg, REL, "DictExporter", "_iter_attr_values", "static", [("node", "ref")], lambda c: [], [
        Outcome("return", "return", lambda c, S1, r: [], res="gen", mods=(), value=lambda c: OWN(DKV(c.node), Length(DKV(c.node))))],
        loops={0: LoopSpec(lambda L: [("own-attributes-so-far", L.out == OWN(DKV(L.fn.node), L.i))], hints=lambda L: d_OWN(DKV(L.fn.node), L.i))},
        generator=True, yields="kv", props=P, hints=lambda c: d_OWN(DKV(c.node), IntVal(0))[:1]))
    reg.statics[("DictExporter", "_iter_attr_values")] = sp
    reg.methods[("DictExporter", "_iter_attr_values")] = sp

    # ------------------------------------------------------------------ __export (recursive)
    def ex_post(c, S1, r):
        return [Clause("is-an-export-of-the-node-at-this-level", ISEXP(r.t, c.node, c.level, c.dictcls, c.attriter, c.childiter) if r.k == "jdict" else BoolVal(False))]
    sp = qs(QSpec(reg, REL, "DictExporter", "__export", "method",
                  [SELF, ("node", "ref"), ("dictcls", "dictcls"), ("attriter", "afn"), ("childiter", "seqfn"), ("level", "int")],
                  lambda c: [Clause("maxlevel-None-is-canonical", Implies(Not(MAXG), MAXL == 0))], [
        Outcome("return", "return", ex_post, res="jdict", mods=())], props=P, defaults={"level": V("int", IntVal(1))},
        hints=lambda c: isexp_axioms()))
    reg.methods[("DictExporter", "_DictExporter__export")] = sp

    # ------------------------------------------------------------------ export
    def e_post(c, S1, r):
        g, f = fields(c)["attriter"].t
        ai = If(g, f, IDF)
        env = c.final_path.env
        used = env.get("attriter")
        cl = []
        if used is None or used.k not in ("afn", "optafn"):
            return [Clause("attriter-in-force-is-a-function", BoolVal(False))]
        fn = used.t if used.k == "afn" else used.t[1]
        xq = Const("xq", U)
        cl.append(Clause("attriter-in-force: the given one, else the identity", ForAll([xq], appA(fn, xq) == If(g, appA(f, xq), xq))))
        cl.append(Clause("is-an-export-of-the-node-at-level-1-with-the-exporter's-options",
                         ISEXP(r.t, c.node, IntVal(1), fields(c)["dictcls"].t, fn, fields(c)["childiter"].t) if r.k == "jdict" else BoolVal(False)))
        return cl
    qs(QSpec(reg, REL, "DictExporter", "export", "method", [SELF, ("node", "ref")],
             lambda c: [Clause("maxlevel-None-is-canonical", Implies(Not(MAXG), MAXL == 0))], [
        Outcome("return", "return", e_post, res="jdict", mods=())], props=P))
    return reg, specs
