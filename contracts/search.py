"""Sidecar contracts for anytree/search.py and anytree/cachedsearch.py (C14), seq world."""
from z3 import And, BoolVal, Const, If, Implies, Length, Not, Or

from pyvc.core import V
from pyvc.heap import NONE
from pyvc.heapworld import Clause, Outcome
from pyvc.seqworld import ATTR, EQ, HAS, QSpec, as_optfn, as_optint, strconst

from . import iterators as IT

S = "anytree/search.py"
CS = "anytree/cachedsearch.py"
P = {"C14"}


def none_v():
    return V("ref", NONE)


def matches(c):
    F, ST, hm, m = IT.eff(c.args)
    return IT.iterseq("PreOrderIter", c.node, F, ST, hm, m)


def too_few(c):
    g, n = as_optint(c.args["mincount"])
    return And(g, Length(matches(c)) < n)


def too_many(c):
    g, n = as_optint(c.args["maxcount"])
    return And(Not(too_few(c)), g, Length(matches(c)) > n)


def count_msg(which):
    def post(c, S1, r):
        if r.k != "excargs":
            return []          # at a call site the exception object is not inspected
        pl = r.t
        ok = (isinstance(pl, list) and len(pl) == 2 and pl[0].k == "fmt" and pl[0].t[0].count("%d") == 2
              and pl[0].t[1].k == "tuple" and len(pl[0].t[1].t) == 2)
        if not ok:
            return [Clause("message-built-from-both-numbers", BoolVal(False))]
        a, b = pl[0].t[1].t
        bound = as_optint(c.args[which])[1]

        def ival(v):
            return v.t[1] if v.k == "optint" else (v.t if v.k == "int" else None)
        if ival(a) is None or ival(b) is None:
            return [Clause("message-built-from-both-numbers", BoolVal(False))]
        return [Clause("message-names-the-bound", ival(a) == bound), Clause("message-names-the-number-found", ival(b) == Length(matches(c))),
                Clause("carries-the-matches", BoolVal(pl[1].k == "qseq") if pl[1].k != "qseq" else pl[1].t == matches(c))]
    return post


FINDALL_PARAMS = [("node", "ref"), ("filter_", "optfn"), ("stop", "optfn"), ("maxlevel", "optint"), ("mincount", "optint"),
                  ("maxcount", "optint")]


def findall_outcomes(check_msg):
    return [
        Outcome("return", "return", lambda c, S1, r: [], res="qseq", mods=(), value=matches,
                when=lambda c: And(Not(too_few(c)), Not(too_many(c)))),
        Outcome("CountError:too-few", "raise", count_msg("mincount") if check_msg else (lambda c, S1, r: []), exc="CountError",
                when=too_few, mods=(), res="exc" if check_msg else "none", site="explicit0"),
        Outcome("CountError:too-many", "raise", count_msg("maxcount") if check_msg else (lambda c, S1, r: []), exc="CountError",
                when=too_many, mods=(), res="exc" if check_msg else "none", site="explicit1"),
    ]


def by_attr_fn(c):
    """the filter of the *_by_attr functions: attribute exists and equals value"""
    return lambda x: And(HAS(x, c.name), EQ(ATTR(x, c.name), c.value))


def build(reg):
    specs = []
    mod = {}
    D6 = {"filter_": none_v(), "stop": none_v(), "maxlevel": none_v(), "mincount": none_v(), "maxcount": none_v()}
    # _findall: the two CountError sites are distinguished by their raise ordinal
    sp = QSpec(reg, S, None, "_findall", "function", FINDALL_PARAMS, lambda c: [], findall_outcomes(True), props=P,
               defaults={k: v for k, v in D6.items() if k != "filter_"})
    specs.append(sp)
    reg.functions["_findall"] = sp
    sp = QSpec(reg, S, None, "_filter_by_name", "function", [("node", "ref"), ("name", "any"), ("value", "any")], lambda c: [], [
        Outcome("return", "return", lambda c, S1, r: [], res="bool", mods=(),
                value=lambda c: And(HAS(c.node, c.name), EQ(ATTR(c.node, c.name), c.value)))], props=P)
    specs.append(sp)
    reg.functions["_filter_by_name"] = sp

    def find_value(c):
        return None

    def find_outcomes(label_site):
        def single(c):
            return Length(matches4(c)) <= 1
        return [
            Outcome("return", "return", lambda c, S1, r: [
                Clause("None-or-the-single-match", r.t == If(Length(matches4(c)) == 0, NONE, matches4(c)[0]))],
                res="ref", mods=(), when=single),
            Outcome("CountError:more-than-one", "raise", lambda c, S1, r: [], exc="CountError", when=lambda c: Not(single(c)), mods=()),
        ]

    def matches4(c):
        F, ST, hm, m = IT.eff(c.args)
        return IT.iterseq("PreOrderIter", c.node, F, ST, hm, m)
    FIND_PARAMS = [("node", "ref"), ("filter_", "optfn"), ("stop", "optfn"), ("maxlevel", "optint")]
    sp = QSpec(reg, S, None, "_find", "function", FIND_PARAMS, lambda c: [], find_outcomes(None), props=P,
               defaults={"stop": none_v(), "maxlevel": none_v()})
    specs.append(sp)
    reg.functions["_find"] = sp
    # public functions of search.py
    pub_findall = QSpec(reg, S, None, "findall", "function", FINDALL_PARAMS, lambda c: [], findall_outcomes(False), props=P, defaults=D6)
    pub_find = QSpec(reg, S, None, "find", "function", FIND_PARAMS, lambda c: [], find_outcomes(None), props=P,
                     defaults={"filter_": none_v(), "stop": none_v(), "maxlevel": none_v()})

    def attr_args(c):
        # arguments of the underlying findall: filter_ = by-attr predicate, no stop
        from pyvc.seqworld import Fn, app, TRUEF, FALSEF
        return c

    def ba_matches(c):
        from pyvc.seqworld import FALSEF
        hm, m = as_optint(c.args["maxlevel"])
        return IT.iterseq("PreOrderIter", c.node, c.wit, FALSEF, hm, m)

    def ba_witness(c):
        """the witness callback selects exactly the nodes whose attribute `name` exists and equals `value`"""
        from z3 import ForAll
        from pyvc.seqworld import app
        from pyvc.heap import R
        x = Const("xb", R)
        return Clause("selects-nodes-whose-attribute-exists-and-equals-value",
                      ForAll([x], app(c.wit, x) == And(HAS(x, c.name), EQ(ATTR(x, c.name), c.value))))

    def ba_few(c):
        g, n = as_optint(c.args["mincount"])
        return And(g, Length(ba_matches(c)) < n)

    def ba_many(c):
        g, n = as_optint(c.args["maxcount"])
        return And(Not(ba_few(c)), g, Length(ba_matches(c)) > n)
    BA_PARAMS = [("node", "ref"), ("value", "any"), ("name", "any"), ("maxlevel", "optint"), ("mincount", "optint"), ("maxcount", "optint")]

    def ba_same_seq(c, S1, r):
        return [ba_witness(c), Clause("selected-by-attribute-in-pre-order", r.t == ba_matches(c))]

    def ba_exc(c, S1, r):
        return [ba_witness(c)]
    pub_fba = QSpec(reg, S, None, "findall_by_attr", "function", BA_PARAMS, lambda c: [], [
        Outcome("return", "return", ba_same_seq, res="qseq", mods=(), when=lambda c: And(Not(ba_few(c)), Not(ba_many(c)))),
        Outcome("CountError:too-few", "raise", ba_exc, exc="CountError", when=ba_few, mods=(), site="explicit0"),
        Outcome("CountError:too-many", "raise", ba_exc, exc="CountError", when=ba_many, mods=(), site="explicit1"),
    ], props=P, defaults={"name": V("any", strconst("name")), "maxlevel": none_v(), "mincount": none_v(), "maxcount": none_v()})
    pub_fba.uses_witness = True
    FBA_PARAMS = [("node", "ref"), ("value", "any"), ("name", "any"), ("maxlevel", "optint")]

    def fb_matches(c):
        from pyvc.seqworld import FALSEF
        hm, m = as_optint(c.args["maxlevel"])
        return IT.iterseq("PreOrderIter", c.node, c.wit, FALSEF, hm, m)
    pub_fiba = QSpec(reg, S, None, "find_by_attr", "function", FBA_PARAMS, lambda c: [], [
        Outcome("return", "return", lambda c, S1, r: [ba_witness(c),
            Clause("None-or-the-single-match", r.t == If(Length(fb_matches(c)) == 0, NONE, fb_matches(c)[0]))],
            res="ref", mods=(), when=lambda c: Length(fb_matches(c)) <= 1),
        Outcome("CountError:more-than-one", "raise", ba_exc, exc="CountError",
                when=lambda c: Not(Length(fb_matches(c)) <= 1), mods=()),
    ], props=P, defaults={"name": V("any", strconst("name")), "maxlevel": none_v()})
    pub_fiba.uses_witness = True
    for sp in (pub_findall, pub_find, pub_fba, pub_fiba):
        specs.append(sp)
        mod[sp.name] = sp
    reg.modules["search"] = mod
    # cachedsearch wrappers: same contracts, bodies delegate to search.<same name>
    for sp in (pub_findall, pub_find, pub_fba, pub_fiba):
        w = QSpec(reg, CS, None, sp.name, "function", sp.params, sp.requires, sp.outcomes, props=P, defaults=sp.defaults,
                  hints=sp.hints)
        w.variant = "cachedsearch"
        w.uses_witness = getattr(sp, "uses_witness", False)
        specs.append(w)
    return specs
