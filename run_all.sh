#!/bin/bash
# runs every registered check (quick tier) on /repo and validates the evidence files
cd /verif
for p in $(python3 -c "import json; print(' '.join(c['property_id'] for c in json.load(open('MANIFEST.json'))['checks']))"); do
  /usr/bin/time -f "$p %es" ./check $p --tier ${1:-quick} > /tmp/run_$p.log 2>&1; echo "$p exit=$? $(tail -1 /tmp/run_$p.log | cut -c1-150)"
done
python3-vt - <<'PY'
import json,jsonschema,glob
s=json.load(open('/root/.vp/EVIDENCE.schema.json'))
for f in sorted(glob.glob('/verif/evidence/*.json')):
    d=json.load(open(f)); jsonschema.validate(d,s)
    c=d['coverage']
    if d['level']=='proof' and c.get('obligations')!=c.get('discharged'): print("MISMATCH",f,c.get('obligations'),c.get('discharged'))
print("evidence validated")
PY
